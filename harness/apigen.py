"""Descriptor builder (stands in for protoc; DESIGN §3.2, trusted base §5.3).

A tiny DSL over descriptor_pb2 producing FileDescriptorProtos and CodeGeneratorRequests.
Dependency files come from the installed *_pb2 modules.  `check_pool()` loads every built
file set into a fresh DescriptorPool, which enforces what protoc would about type resolution.
"""
from __future__ import annotations
import json, random
from google.protobuf import descriptor_pb2 as dp
from google.protobuf import descriptor_pool
from google.protobuf.compiler import plugin_pb2
from google.api import (annotations_pb2, client_pb2, field_behavior_pb2, resource_pb2, http_pb2,
                        launch_stage_pb2, routing_pb2, field_info_pb2)
from google.protobuf import (empty_pb2, descriptor_pb2, duration_pb2, any_pb2, timestamp_pb2,
                             struct_pb2, wrappers_pb2, field_mask_pb2)
from google.rpc import status_pb2
from google.longrunning import operations_pb2

T = dict(double=1, float=2, int64=3, uint64=4, int32=5, fixed64=6, fixed32=7, bool=8, string=9,
         message=11, bytes=12, uint32=13, enum=14, sfixed32=15, sfixed64=16, sint32=17, sint64=18)
SCALARS = [k for k in T if k not in ("message", "enum")]
MAP_KEY_TYPES = ["int32", "int64", "uint32", "uint64", "sint32", "sint64", "fixed32", "fixed64",
                 "sfixed32", "sfixed64", "bool", "string"]

_DEP_MODS = [descriptor_pb2, duration_pb2, any_pb2, empty_pb2, timestamp_pb2, struct_pb2, wrappers_pb2,
             field_mask_pb2, launch_stage_pb2, http_pb2, annotations_pb2, client_pb2, field_behavior_pb2,
             resource_pb2, routing_pb2, field_info_pb2, status_pb2, operations_pb2]


def _extra_dep_mods():
    mods = []
    try:
        from google.type import expr_pb2
        from google.iam.v1 import options_pb2, policy_pb2, iam_policy_pb2
        mods += [expr_pb2, options_pb2, policy_pb2, iam_policy_pb2]
    except Exception:  # pragma: no cover
        pass
    try:
        from google.cloud.location import locations_pb2
        mods += [locations_pb2]
    except Exception:  # pragma: no cover
        pass
    try:
        from google.cloud import extended_operations_pb2
        mods += [extended_operations_pb2]
    except Exception:  # pragma: no cover
        pass
    return mods


def fdp_of(mod) -> dp.FileDescriptorProto:
    f = dp.FileDescriptorProto()
    mod.DESCRIPTOR.CopyToProto(f)
    return f


_DEPS_CACHE = None


def dep_files():
    global _DEPS_CACHE
    if _DEPS_CACHE is None:
        _DEPS_CACHE = [fdp_of(m) for m in _DEP_MODS + _extra_dep_mods()]
    return _DEPS_CACHE


def json_name(name: str) -> str:
    """protoc's ToJsonName: drop underscores, upper-case the following letter."""
    out, up = [], False
    for ch in name:
        if ch == "_":
            up = True
        elif up:
            out.append(ch.upper())
            up = False
        else:
            out.append(ch)
    return "".join(out)


STD_DEPS = ["google/api/annotations.proto", "google/api/client.proto", "google/api/resource.proto",
            "google/api/field_behavior.proto", "google/api/field_info.proto", "google/api/routing.proto",
            "google/longrunning/operations.proto", "google/protobuf/empty.proto",
            "google/protobuf/field_mask.proto", "google/protobuf/wrappers.proto",
            "google/protobuf/timestamp.proto", "google/protobuf/duration.proto", "google/protobuf/struct.proto",
            "google/protobuf/any.proto"]


class Msg:
    def __init__(self, pb: dp.DescriptorProto, full: str, file: "File"):
        self.pb, self.full, self.file = pb, full, file
        self._next = 1

    def _num(self, number):
        if number is None:
            number = max([f.number for f in self.pb.field] + [0]) + 1
        return number

    def field(self, name, typ="string", number=None, *, repeated=False, type_name=None, required=False,
              oneof=None, optional=False, ref=None, child_ref=None, uuid4=False, behaviors=(), json=None):
        """typ: scalar name | 'message' | 'enum' (with type_name, fully-qualified with leading dot
        or a Msg/Enum object)."""
        if isinstance(type_name, (Msg, Enum)):
            type_name = "." + type_name.full
        f = self.pb.field.add(name=name, number=self._num(number), type=T[typ], label=3 if repeated else 1,
                              json_name=json or json_name(name))
        if type_name:
            f.type_name = type_name
        if required:
            f.options.Extensions[field_behavior_pb2.field_behavior].append(field_behavior_pb2.REQUIRED)
        for b in behaviors:
            f.options.Extensions[field_behavior_pb2.field_behavior].append(b)
        if oneof is not None:
            names = [o.name for o in self.pb.oneof_decl]
            if oneof not in names:
                # real oneofs must precede synthetic (proto3-optional) ones: insert before the first synthetic
                nreal = sum(1 for n in names if not n.startswith("_"))
                if nreal < len(names):
                    for other in self.pb.field:
                        if other is not f and other.HasField("oneof_index") and other.oneof_index >= nreal:
                            other.oneof_index += 1
                    names.insert(nreal, oneof)
                    del self.pb.oneof_decl[:]
                    for n in names:
                        self.pb.oneof_decl.add(name=n)
                else:
                    self.pb.oneof_decl.add(name=oneof)
                    names.append(oneof)
            f.oneof_index = names.index(oneof)
        if optional:
            f.proto3_optional = True
            self.pb.oneof_decl.add(name="_" + name)
            f.oneof_index = len(self.pb.oneof_decl) - 1
        if ref:
            f.options.Extensions[resource_pb2.resource_reference].type = ref
        if child_ref:
            f.options.Extensions[resource_pb2.resource_reference].child_type = child_ref
        if uuid4:
            f.options.Extensions[field_info_pb2.field_info].format = field_info_pb2.FieldInfo.UUID4
        return f

    def map_field(self, name, ktyp="string", vtyp="string", number=None, *, vtype_name=None):
        entry = "".join(p.capitalize() for p in name.split("_")) + "Entry"
        e = self.pb.nested_type.add(name=entry)
        e.options.map_entry = True
        e.field.add(name="key", number=1, type=T[ktyp], label=1, json_name="key")
        v = e.field.add(name="value", number=2, type=T[vtyp], label=1, json_name="value")
        if isinstance(vtype_name, (Msg, Enum)):
            vtype_name = "." + vtype_name.full
        if vtype_name:
            v.type_name = vtype_name
        return self.field(name, "message", number, repeated=True, type_name=f".{self.full}.{entry}")

    def nested(self, name) -> "Msg":
        return Msg(self.pb.nested_type.add(name=name), f"{self.full}.{name}", self.file)

    def nested_enum(self, name, values) -> "Enum":
        e = self.pb.enum_type.add(name=name)
        for i, v in enumerate(values):
            if isinstance(v, tuple):
                e.value.add(name=v[0], number=v[1])
            else:
                e.value.add(name=v, number=i)
        return Enum(e, f"{self.full}.{name}")

    def resource(self, type_, *patterns):
        r = self.pb.options.Extensions[resource_pb2.resource]
        r.type = type_
        r.pattern.extend(patterns)
        return self


class Enum:
    def __init__(self, pb, full):
        self.pb, self.full = pb, full


class Service:
    def __init__(self, pb: dp.ServiceDescriptorProto, file: "File"):
        self.pb, self.file = pb, file

    def method(self, name, inp, out, *, http=None, body=None, response_body=None, sigs=(), cs=False, ss=False,
               lro=None, routing=None, bindings=(), deprecated=False):
        def tn(x):
            if isinstance(x, Msg):
                return "." + x.full
            return x if x.startswith(".") else f".{self.file.pb.package}.{x}"
        m = self.pb.method.add(name=name, input_type=tn(inp), output_type=tn(out),
                               client_streaming=cs, server_streaming=ss)
        if http:
            verb, uri = http
            rule = m.options.Extensions[annotations_pb2.http]
            if verb in ("get", "put", "post", "delete", "patch"):
                setattr(rule, verb, uri)
            else:
                rule.custom.kind = verb
                rule.custom.path = uri
            if body:
                rule.body = body
            if response_body:
                rule.response_body = response_body
            for (bverb, buri, bbody) in bindings:
                ab = rule.additional_bindings.add()
                if bverb in ("get", "put", "post", "delete", "patch"):
                    setattr(ab, bverb, buri)
                else:                              # (C06) `custom {kind, path}` in an additional binding
                    ab.custom.kind = bverb
                    ab.custom.path = buri
                if bbody:
                    ab.body = bbody
        for s in sigs:
            m.options.Extensions[client_pb2.method_signature].append(s)
        if lro:
            oi = m.options.Extensions[operations_pb2.operation_info]
            oi.response_type, oi.metadata_type = lro
        if routing:
            rr = m.options.Extensions[routing_pb2.routing]
            for item in routing:
                p = rr.routing_parameters.add()
                p.field = item[0]
                if len(item) > 1 and item[1] is not None:
                    p.path_template = item[1]
        if deprecated:
            m.options.deprecated = True
        return m


class File:
    def __init__(self, name, package, deps=None, syntax="proto3"):
        self.pb = dp.FileDescriptorProto(name=name, package=package, syntax=syntax)
        self.pb.dependency.extend(STD_DEPS if deps is None else deps)

    @property
    def name(self):
        return self.pb.name

    def dep(self, *names):
        for n in names:
            if n not in self.pb.dependency:
                self.pb.dependency.append(n)
        return self

    def msg(self, name) -> Msg:
        return Msg(self.pb.message_type.add(name=name), f"{self.pb.package}.{name}", self)

    def enum(self, name, values) -> Enum:
        e = self.pb.enum_type.add(name=name)
        for i, v in enumerate(values):
            if isinstance(v, tuple):
                e.value.add(name=v[0], number=v[1])
            else:
                e.value.add(name=v, number=i)
        return Enum(e, f"{self.pb.package}.{name}")

    def service(self, name, host="lib.example.com", scopes=("https://example.com/auth/x",), version=None) -> Service:
        s = self.pb.service.add(name=name)
        if host is not None:
            s.options.Extensions[client_pb2.default_host] = host
        if scopes:
            s.options.Extensions[client_pb2.oauth_scopes] = ",".join(scopes)
        if version:
            s.options.Extensions[client_pb2.api_version] = version
        return Service(s, self)

    def resource_definition(self, type_, *patterns):
        r = self.pb.options.Extensions[resource_pb2.resource_definition].add()
        r.type = type_
        r.pattern.extend(patterns)
        return self


def _pb(f):
    return f.pb if isinstance(f, File) else f


def check_pool(files):
    """Load deps + files into a fresh pool (raises on unresolved names, duplicate symbols, …)."""
    pool = descriptor_pool.DescriptorPool()
    for d in dep_files():
        pool.Add(d)
    for f in files:
        pool.Add(_pb(f))
    for f in files:
        pool.FindFileByName(_pb(f).name)
    return pool


def request(files, params="", targets=None, check=True) -> plugin_pb2.CodeGeneratorRequest:
    files = [_pb(f) for f in files]
    if check:
        check_pool(files)
    req = plugin_pb2.CodeGeneratorRequest()
    for f in ([_pb(t) for t in targets] if targets is not None else files):
        req.file_to_generate.append(f.name)
    req.parameter = params
    for d in dep_files():
        req.proto_file.append(d)
    for f in files:
        req.proto_file.append(f)
    return req


class Rng(random.Random):
    """single PRNG: every random choice of a case derives from (seed, profile, index)."""

    def __init__(self, seed, *path):
        super().__init__(f"{seed}/" + "/".join(str(p) for p in path))

    def maybe(self, p=0.5):
        return self.random() < p

    def pick(self, xs):
        return xs[self.randrange(len(xs))]

    def ident(self, pool=None, lo=3, hi=8):
        if pool and self.maybe(0.7):
            return self.pick(pool)
        return "".join(self.choice("abcdefghijklmnopqrstuvwxyz") for _ in range(self.randint(lo, hi)))
