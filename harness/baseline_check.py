"""Run /repo's pinned suite (guard off) and compare with /root/.vp/BASELINE.json's stable_pass list."""
import ast, json, os, subprocess, sys, tempfile
import xml.etree.ElementTree as ET
b = json.load(open("/root/.vp/BASELINE.json"))
stable = b["stable_pass"]
if isinstance(stable, str):
    stable = ast.literal_eval(stable)
out = tempfile.mktemp(suffix=".xml", dir="/var/tmp")
env = dict(os.environ)
env.pop("GAPIC_GENERATOR_PYTHON_VERIF", None)
subprocess.run(b["cmd"].replace("<file>", out), shell=True, capture_output=True, env=env)
passed = set()
for tc in ET.parse(out).getroot().iter("testcase"):
    if not any(c.tag in ("failure", "error", "skipped") for c in tc):
        passed.add(f"{tc.get('classname')}::{tc.get('name')}")
os.unlink(out)
missing = [t for t in stable if t not in passed]
print(f"stable={len(stable)} passed_now={len(passed)} missing={len(missing)}")
for t in missing[:20]:
    print("  MISSING", t)
sys.exit(1 if missing else 0)
