#!/venv/bin/python
"""check.py <Cxx> [--tier quick|thorough] [--replay file]   (DESIGN §3.1, §4)"""
from __future__ import annotations
import argparse, importlib, json, os, sys, traceback

HERE = os.path.dirname(os.path.abspath(__file__))
sys.path.insert(0, HERE)
os.environ.setdefault("GAPIC_GENERATOR_PYTHON_VERIF", "1")
import common, leanio  # noqa: E402


def main():
    ap = argparse.ArgumentParser()
    ap.add_argument("prop")
    ap.add_argument("--tier", default=os.environ.get("VERIF_TIER", "quick"))
    ap.add_argument("--replay")
    ap.add_argument("--no-lean", action="store_true", help="debugging only: skip the Lean build")
    a = ap.parse_args()
    prop = a.prop.upper()
    seed = int(os.environ.get("VERIF_SEED", "0"))
    mod = importlib.import_module(f"props.{prop.lower()}")
    ctx = common.Ctx(prop, a.tier, seed)
    try:
        if a.replay:
            with open(a.replay if os.path.isabs(a.replay) else os.path.join(common.ROOT, a.replay)) as fh:
                blob = json.load(fh)
            ok = mod.replay(ctx, blob.get("payload", blob))
            print("replay:", "property holds on this input" if ok else "property FAILS on this input")
            return 0 if ok else 1
        if not a.no_lean:
            ctx.lean = leanio.prepare(prop, tier=a.tier)
            if ctx.lean.infra_error:
                print("infrastructure error:", ctx.lean.infra_error)
                return 2
            # T1-s: the Python functions this property's hand-written model mirrors still have the source text the model was validated against
            import srcpin
            for name, ok, detail in srcpin.obligations(prop):
                ctx.lean.add(name, "source-pin", ok, detail)
            for o in ctx.lean.broken:
                print(f"broken obligation: {o['name']} ({o['kind']}): {o['detail']}")
        ctx.driver = leanio.Driver()
        mod.run(ctx)
        if leanio.BRIDGE_FUNCS.get(prop):
            # T2 of the function translator: PyRt primitives vs CPython, pinned translations vs /repo's functions
            from props import pyrt
            ctx.driver = leanio.Driver()       # a check may have pointed ctx.driver at a private copy it has removed again
            pyrt.check_functions(ctx, leanio.BRIDGE_FUNCS[prop], ctx.n(60, 1500))
            if "address_str" in leanio.BRIDGE_FUNCS[prop]:
                pyrt.check_address(ctx, ctx.n(400, 6000))       # the composed Address model vs real Address / Naming objects
        return ctx.finish(search=getattr(mod, "search", None))
    except Exception as e:
        traceback.print_exc()
        # A crash INSIDE /repo's code (or on its objects) while a correspondence was being evaluated means that correspondence no
        # longer checks on this tree — the harness met code of a shape it does not know. That is reported like any other broken
        # correspondence for which no failing input was found (it cannot happen on the tree the harness was validated on);
        # anything else (scratch space, ports, the Lean toolchain) is an infrastructure error.
        repo_root = os.path.realpath(os.environ.get("VERIF_REPO", "/repo"))
        frames = traceback.extract_tb(e.__traceback__)
        in_repo = [f for f in frames if os.path.realpath(f.filename).startswith(repo_root + os.sep)]
        about_repo = in_repo or (isinstance(e, (ImportError, AttributeError)) and "gapic" in str(e))
        if about_repo and not a.replay:
            try:
                rel = os.path.join("replays", prop, "crash_" + str(abs(hash(traceback.format_exc())) % 10**10) + ".json")
                os.makedirs(os.path.join(common.ROOT, "replays", prop), exist_ok=True)
                with open(os.path.join(common.ROOT, rel), "w") as fh:
                    json.dump({"property": prop, "broken_obligations": [], "disagreements": [
                        {"correspondence": "harness-vs-/repo (the correspondence being evaluated crashed inside /repo's code)",
                         "what": f"{type(e).__name__}: {e}", "where": [f"{f.filename}:{f.lineno} in {f.name}" for f in (in_repo or frames)[-3:]],
                         "traceback": traceback.format_exc()[-3000:]}]}, fh, indent=1)
                try:
                    ctx.notes["harness_crash_inside_repo_code"] = f"{type(e).__name__}: {str(e)[:300]}"
                    ctx.write_evidence(1)
                except Exception:
                    pass
                print(f"broken correspondence: the harness crashed inside /repo's code: {type(e).__name__}: {str(e)[:200]}")
                print(f"VIOLATION property={prop} replay={rel} no-failing-input-found")
                return 1
            except Exception:
                traceback.print_exc()
        print("infrastructure error (exit 2)")
        return 2


if __name__ == "__main__":
    sys.exit(main())
