#!/venv/bin/python
"""check.py <Cxx> [--tier quick|thorough] [--replay file]   (DESIGN §3.1, §4)"""
from __future__ import annotations
import argparse, importlib, json, os, sys, traceback

HERE = os.path.dirname(os.path.abspath(__file__))
sys.path.insert(0, HERE)
os.environ.setdefault("GAPIC_GENERATOR_PYTHON_VERIF", "1")
import common, leanio  # noqa: E402


def main():
    ap = argparse.ArgumentParser()
    ap.add_argument("prop")
    ap.add_argument("--tier", default=os.environ.get("VERIF_TIER", "quick"))
    ap.add_argument("--replay")
    ap.add_argument("--no-lean", action="store_true", help="debugging only: skip the Lean build")
    a = ap.parse_args()
    prop = a.prop.upper()
    seed = int(os.environ.get("VERIF_SEED", "0"))
    mod = importlib.import_module(f"props.{prop.lower()}")
    ctx = common.Ctx(prop, a.tier, seed)
    try:
        if a.replay:
            with open(a.replay if os.path.isabs(a.replay) else os.path.join(common.ROOT, a.replay)) as fh:
                blob = json.load(fh)
            ok = mod.replay(ctx, blob.get("payload", blob))
            print("replay:", "property holds on this input" if ok else "property FAILS on this input")
            return 0 if ok else 1
        if not a.no_lean:
            ctx.lean = leanio.prepare(prop, tier=a.tier)
            if ctx.lean.infra_error:
                print("infrastructure error:", ctx.lean.infra_error)
                return 2
            for o in ctx.lean.broken:
                print(f"broken obligation: {o['name']} ({o['kind']}): {o['detail']}")
        ctx.driver = leanio.Driver()
        mod.run(ctx)
        if leanio.BRIDGE_FUNCS.get(prop):
            # T2 of the function translator: PyRt primitives vs CPython, pinned translations vs /repo's functions
            from props import pyrt
            ctx.driver = leanio.Driver()       # a check may have pointed ctx.driver at a private copy it has removed again
            pyrt.check_functions(ctx, leanio.BRIDGE_FUNCS[prop], ctx.n(60, 1500))
        return ctx.finish(search=getattr(mod, "search", None))
    except Exception:
        traceback.print_exc()
        print("infrastructure error (exit 2)")
        return 2


if __name__ == "__main__":
    sys.exit(main())
