"""Shared check context: seeds, evidence, known findings, verdicts (DESIGN §4)."""
from __future__ import annotations
import hashlib, json, os, sys, time, traceback
from apigen import Rng

HERE = os.path.dirname(os.path.abspath(__file__))
ROOT = os.path.dirname(HERE)
TRUSTED_BASE = [
    "Lean 4.33 kernel; axioms allowed: propext, Classical.choice, Quot.sound (audited by #print axioms on every property theorem)",
    "harness/translate.py (T1: tables and CPython-parsed regexes -> Generated/*.lean; bridge lemmas Generated = Pinned)",
    "harness correspondence (apigen descriptor builder standing in for protoc, genrun, libhost loopback servers, canonicalisation, oracles)",
    "harness/pyfun2lean.py + PyRt.lean (T1-f: small pure functions translated from the current source; bridge lemmas by rfl) and harness/srcpin.py (T1-s: digests of the anchored functions the hand-written model mirrors)",
    "hand-written Lean model: tied to /repo only through T1 + T2 + T3 on the inputs this run explored",
    "runtime shell modelled not verified: CPython, re, protobuf/proto-plus, grpcio, requests, google-api-core, jinja2; pandoc replaced by a stand-in",
]


def load_findings():
    """known_findings.json plus per-property files findings/Cxx.json (same format); never written at run time"""
    out = {"findings": [], "fixed": []}
    paths = [os.path.join(ROOT, "known_findings.json")]
    fdir = os.path.join(ROOT, "findings")
    if os.path.isdir(fdir):
        paths += [os.path.join(fdir, f) for f in sorted(os.listdir(fdir)) if f.endswith(".json")]
    for p in paths:
        try:
            with open(p) as fh:
                d = json.load(fh)
            out["findings"] += d.get("findings", [])
            out["fixed"] += d.get("fixed", [])
        except FileNotFoundError:
            pass
    return out


class Ctx:
    def __init__(self, prop, tier, seed):
        self.prop, self.tier, self.seed = prop, tier, seed
        self.t0 = time.time()
        self.lean = None
        self.evaluations = 0
        self.distinct = set()
        self.samples = []
        self.failures = []        # oracle failures on the implementation
        self.disagreements = []   # model vs implementation (T2/T3)
        self.unsupported = 0
        self.traces = 0
        self.assumptions = []
        self.distribution = {}
        self.notes = {}
        self.exhaustive = None
        self.rule = ""
        self.known = [f for f in load_findings()["findings"] if f["property"] == prop]
        self.known_hit = {}
        self.deadline = None

    # ---- generation
    def rng(self, *path):
        return Rng(self.seed, self.prop, *path)

    @property
    def quick(self):
        return self.tier == "quick"

    def n(self, quick, thorough):
        return quick if self.quick else thorough

    # ---- accounting
    def case(self, sample=None, distinct_key=None, nontrivial=True):
        self.evaluations += 1
        if distinct_key is not None and nontrivial:
            self.distinct.add(distinct_key if isinstance(distinct_key, str) else json.dumps(distinct_key, sort_keys=True, default=str))
        if sample is not None and len(self.samples) < 6:
            self.samples.append(sample)

    def count(self, bucket, key, n=1):
        d = self.distribution.setdefault(bucket, {})
        d[str(key)] = d.get(str(key), 0) + n

    def fail(self, key, what, payload):
        """the property's statement fails on the implementation for this input"""
        self.failures.append({"key": key, "what": what, "payload": payload})

    def disagree(self, corr, what, payload):
        """model and implementation differ (not by itself a violation)"""
        self.disagreements.append({"correspondence": corr, "what": what, "payload": payload})

    def assume(self, text):
        if text not in self.assumptions:
            self.assumptions.append(text)

    # ---- verdict
    def finish(self, search=None):
        prop = self.prop
        lines = []
        violations = []
        known_keys = {f["key"]: f for f in self.known}
        seen = set()
        for f in self.failures:
            if f["key"] in known_keys:
                self.known_hit[f["key"]] = self.known_hit.get(f["key"], 0) + 1
                continue
            if f["key"] in seen:
                continue
            seen.add(f["key"])
            violations.append(f)
        broken = self.lean.broken if self.lean else []
        need_search = (broken or self.disagreements) and not violations
        if need_search and search is not None:
            try:
                search(self)
            except Exception:
                traceback.print_exc()
            for f in self.failures:
                if f["key"] not in known_keys and f["key"] not in seen:
                    seen.add(f["key"])
                    violations.append(f)
        out_violations = []
        rdir = os.path.join(ROOT, "replays", prop)
        for f in violations:
            os.makedirs(rdir, exist_ok=True)
            h = hashlib.sha256(json.dumps(f, sort_keys=True, default=str).encode()).hexdigest()[:10]
            path = os.path.join(rdir, f"{h}.json")
            with open(path, "w") as fh:
                json.dump({"property": prop, "key": f["key"], "what": f["what"], "payload": f["payload"],
                           "broken_obligations": broken, "disagreements": self.disagreements[:3],
                           "replay_cmd": f"/venv/bin/python harness/check.py {prop} --replay {os.path.relpath(path, ROOT)}"},
                          fh, indent=1, default=str)
            out_violations.append((path, ""))
        if (broken or self.disagreements) and not violations:
            os.makedirs(rdir, exist_ok=True)
            blob = {"property": prop, "broken_obligations": broken, "disagreements": self.disagreements[:5],
                    "note": "a proof obligation or a model/implementation correspondence no longer checks; "
                            "the failing-input search found no input on which the property fails"}
            h = hashlib.sha256(json.dumps(blob, sort_keys=True, default=str).encode()).hexdigest()[:10]
            path = os.path.join(rdir, f"unproved_{h}.json")
            with open(path, "w") as fh:
                json.dump(blob, fh, indent=1, default=str)
            out_violations.append((path, " no-failing-input-found"))
        for k, fnd in known_keys.items():
            if self.known_hit.get(k):
                print(f"KNOWN-FINDING: property={prop} {fnd['what']} [{k}; reproduced {self.known_hit[k]}x]")
            else:
                print(f"KNOWN-FINDING: property={prop} {fnd['what']} [{k}; NOT reproduced on this run — entry may be stale]")
        for path, suffix in out_violations:
            print(f"VIOLATION property={prop} replay={os.path.relpath(path, ROOT)}{suffix}")
        self.write_evidence(len(out_violations))
        sys.stdout.flush()
        return 1 if out_violations else 0

    def write_evidence(self, nviol):
        obl = self.lean.obligations if self.lean else []
        cov = {
            "obligations": len(obl),
            "discharged": sum(1 for o in obl if o["ok"]),
            "checker_cmd": f"cd /verif/lean && lake build GapicModel.Props.{self.prop} GapicModel.Bridge.All && lake env lean GapicModel/Audit/{self.prop}.lean",
            "trusted_base": TRUSTED_BASE,
            "obligation_list": obl,
            "axioms": self.lean.axioms if self.lean else {},
            "evaluations": self.evaluations,
            "distinct_nontrivial": len(self.distinct),
            "rule": self.rule,
            "samples": self.samples or [{"note": "no generated case on this run"}],
            "traces_validated_against_impl": self.traces,
            "disagreements": len(self.disagreements),
            "oracle_failures": len(self.failures),
            "unsupported_by_model": self.unsupported,
            "input_distribution": self.distribution,
            "known_findings_reproduced": self.known_hit,
            "lean_build_s": round(self.lean.build_s, 1) if self.lean else None,
        }
        if self.exhaustive is not None:
            # the schema wants a boolean; a builder may have recorded WHAT was enumerated exhaustively
            if isinstance(self.exhaustive, bool):
                cov["exhaustive"] = self.exhaustive
            else:
                cov["exhaustive"] = True
                cov["exhaustive_over"] = self.exhaustive
        cov.update(self.notes)
        ev = {"property_id": self.prop, "tier": self.tier, "seed": self.seed, "level": "proof", "coverage": cov,
              "assumptions": self.assumptions, "wall_s": round(time.time() - self.t0, 2), "violations": nviol}
        # runs against a scratch tree (VERIF_REPO, used by harness/seedtest.py) must not overwrite the record about /repo
        scratch = os.path.realpath(os.environ.get("VERIF_REPO", "/repo")) != os.path.realpath("/repo")
        edir = os.path.join(ROOT, "replays", "_scratch_evidence") if scratch else os.path.join(ROOT, "evidence")
        os.makedirs(edir, exist_ok=True)
        tmp = os.path.join(edir, f"{self.prop}.json.tmp.{os.getpid()}")
        with open(tmp, "w") as fh:
            json.dump(ev, fh, indent=1, default=str)
        os.replace(tmp, os.path.join(edir, f"{self.prop}.json"))
