"""Hand-recorded FIRST outcome of each seeded change of rounds 8-12 (what the property's check said before it was strengthened);
`python harness/first_outcomes.py` re-applies them to seeded/<id>/meta.json (seedtest keeps the field, but two concurrent runs can
lose it)."""
import json, os
ROOT = os.path.dirname(os.path.dirname(os.path.abspath(__file__)))
R = {
 8: {"caught": "C01 C02 C03 C04 C05 C07 C08 C09 C13 C15 C16 C17 C19", "no-failing-input-found": "C10 C11 C14 C20", "missed": "C06 C12"},
 9: {"caught": "C02 C03 C04 C05 C06 C07 C08 C09 C10 C15 C16 C18 C19 C20", "no-failing-input-found": "C11 C12 C14 C17", "missed": "C01 C13"},
 13: {"caught": "C05 C06 C09 C19 C20", "no-failing-input-found": "C12", "missed": "C03"},
 12: {"caught": "C02 C04 C05 C06 C09 C10 C13 C14 C15 C16 C17 C18 C19 C20", "no-failing-input-found": "C11 C12", "missed": "C01 C03 C07 C08"},
 11: {"caught": "C02 C03 C04 C05 C06 C09 C10 C12 C13 C14 C17 C18 C19 C20", "no-failing-input-found": "C01 C08 C11 C15 C16", "missed": "C07"},
 10: {"caught": "C02 C03 C05 C06 C09 C11 C12 C17", "no-failing-input-found": "C01 C08 C10 C15 C18 C19 C20", "missed": "C04 C07 C13 C14 C16"},
}
if __name__ == "__main__":
    for rnd, d in R.items():
        for outcome, props in d.items():
            for c in props.split():
                p = os.path.join(ROOT, "seeded", f"seed{rnd}_{c}", "meta.json")
                if os.path.exists(p):
                    m = json.load(open(p))
                    if m.get("first_outcome") != outcome:
                        m["first_outcome"] = outcome
                        json.dump(m, open(p, "w"), indent=1)
                        print("set", p, outcome)
