"""Run the REAL generator (gapic.cli.generate's code path) on a CodeGeneratorRequest.

* in-process: imports `gapic` from /repo's working tree (the venv has it installed editable);
* sub-process: `python -m harness.genrun_child` equivalent, for hash-seed / cwd experiments.
pandoc is absent in the sandbox: `pypandoc.convert_text` (an external package, not repo code) is
replaced by a deterministic stand-in (DESIGN §3.2, §5.4).
"""
from __future__ import annotations
import os, shutil, subprocess, sys, tempfile, warnings
from google.protobuf.compiler import plugin_pb2

HERE = os.path.dirname(os.path.abspath(__file__))
PY = "/venv/bin/python"
SCRATCH = os.environ.get("VERIF_SCRATCH", "/var/tmp")


def _stub_pandoc():
    import pypandoc

    def _fake(text, to=None, format=None, extra_args=(), **kw):
        return text
    pypandoc.convert_text = _fake


def generate_inproc(req: plugin_pb2.CodeGeneratorRequest) -> plugin_pb2.CodeGeneratorResponse:
    """Same statements as gapic/cli/generate.py:generate, without click."""
    _stub_pandoc()
    from gapic import generator
    from gapic.schema import api
    from gapic.utils import Options
    # API.build renames `fd.name` of the request's files in place: always work on a private copy
    req = plugin_pb2.CodeGeneratorRequest.FromString(req.SerializeToString())
    with warnings.catch_warnings():
        warnings.simplefilter("ignore")
        opts = Options.build(req.parameter)
        package = os.path.commonprefix(
            [p.package for p in req.proto_file if p.name in req.file_to_generate]
        ).rstrip(".")
        api_schema = api.API.build(req.proto_file, opts=opts, package=package)
        return generator.Generator(opts).get_response(api_schema, opts)


def build_api(req: plugin_pb2.CodeGeneratorRequest):
    """The frozen API schema object for T2 checks on generator-side functions."""
    _stub_pandoc()
    from gapic.schema import api
    from gapic.utils import Options
    req = plugin_pb2.CodeGeneratorRequest.FromString(req.SerializeToString())
    with warnings.catch_warnings():
        warnings.simplefilter("ignore")
        opts = Options.build(req.parameter)
        package = os.path.commonprefix(
            [p.package for p in req.proto_file if p.name in req.file_to_generate]
        ).rstrip(".")
        return api.API.build(req.proto_file, opts=opts, package=package), opts


CHILD = os.path.join(HERE, "genrun_child.py")


def generate_subproc(req_bytes: bytes, env=None, cwd=None, timeout=300):
    """Run the real CLI entry point in a separate process; returns (returncode, stdout bytes, stderr text)."""
    e = dict(os.environ)
    e.update(env or {})
    p = subprocess.run([PY, CHILD], input=req_bytes, capture_output=True, env=e, cwd=cwd, timeout=timeout)
    return p.returncode, p.stdout, p.stderr.decode("utf-8", "replace")


def materialise(res: plugin_pb2.CodeGeneratorResponse, root=None) -> str:
    root = root or tempfile.mkdtemp(prefix="gapicverif_", dir=SCRATCH)
    for f in res.file:
        path = os.path.join(root, f.name)
        os.makedirs(os.path.dirname(path), exist_ok=True)
        with open(path, "w", encoding="utf-8") as fh:
            fh.write(f.content)
    return root


def cleanup(root):
    shutil.rmtree(root, ignore_errors=True)


def crash_signature(e: BaseException) -> str:
    """small canonical key for a generator crash: exception type + innermost repo/template frame"""
    import traceback
    where = "?"
    for fr in reversed(traceback.extract_tb(e.__traceback__)):
        fn = fr.filename
        if "/gapic/" in fn:
            where = fn.split("/gapic/", 1)[1].replace("%", "") + ":" + (fr.name or "")
            break
    return f"{type(e).__name__}@{where}"


def try_generate(req):
    """(response, None) or (None, (signature, message))"""
    try:
        return generate_inproc(req), None
    except BaseException as e:  # noqa: the generator may raise anything
        return None, (crash_signature(e), str(e)[:300])


def materialise_pb2(root, fdp):
    """write a `*_pb2.py` module for a dependency FileDescriptorProto (protoc is absent; this is the same
    three-line body protoc emits, built on protobuf's own `builder`)"""
    mod_path = fdp.name[: -len(".proto")] + "_pb2"
    path = os.path.join(root, mod_path + ".py")
    os.makedirs(os.path.dirname(path), exist_ok=True)
    deps = "".join(f"import {d[:-len('.proto')].replace('/', '.')}_pb2  # noqa\n" for d in fdp.dependency)
    body = (
        "from google.protobuf import descriptor_pool as _descriptor_pool\n"
        "from google.protobuf.internal import builder as _builder\n" + deps +
        f"DESCRIPTOR = _descriptor_pool.Default().AddSerializedFile({fdp.SerializeToString()!r})\n"
        "_globals = globals()\n"
        "_builder.BuildMessageAndEnumDescriptors(DESCRIPTOR, _globals)\n"
        f"_builder.BuildTopDescriptorsAndMessages(DESCRIPTOR, {mod_path.replace('/', '.')!r}, _globals)\n")
    with open(path, "w") as fh:
        fh.write(body)
    return path
