# sub-process wrapper: stub pandoc (binary absent in the sandbox), then run the real CLI entry point
#
# VERIF_FAKE_EPOCH=<seconds since the epoch> (optional, used by C10): every Python-visible source of "now" in THIS
# process answers with that instant (time.time/time_ns/gmtime/localtime/ctime/asctime/strftime, datetime.date.today,
# datetime.datetime.now/utcnow/today).  Installed before anything of the generator (or of its dependencies) is imported,
# so `from datetime import date` / `from time import time` in any later module bind the shifted versions as well.
# Unset (every other caller): nothing is touched.
import os as _os

_FAKE = _os.environ.get("VERIF_FAKE_EPOCH")
if _FAKE:
    def _install_clock(fake):
        import time as _time
        import datetime as _dt
        real = {n: getattr(_time, n) for n in ("gmtime", "localtime", "ctime", "strftime", "asctime")}
        _time.time = lambda: fake
        _time.time_ns = lambda: int(fake) * 10 ** 9
        _time.gmtime = lambda secs=None: real["gmtime"](fake if secs is None else secs)
        _time.localtime = lambda secs=None: real["localtime"](fake if secs is None else secs)
        _time.ctime = lambda secs=None: real["ctime"](fake if secs is None else secs)
        _time.asctime = lambda *t: real["asctime"](*(t or (real["localtime"](fake),)))
        _time.strftime = lambda fmt, *t: real["strftime"](fmt, *(t or (real["localtime"](fake),)))
        real_date, real_datetime = _dt.date, _dt.datetime

        class _Meta(type):
            # objects/classes built by C code (or before the switch) are still dates/datetimes for isinstance/issubclass
            def __instancecheck__(cls, obj):
                return isinstance(obj, cls._real)

            def __subclasscheck__(cls, sub):
                return issubclass(sub, cls._real)

        class date(real_date, metaclass=_Meta):
            _real = real_date

            @classmethod
            def today(cls):
                d = real_datetime.fromtimestamp(fake)
                return real_date(d.year, d.month, d.day)

        class datetime(real_datetime, metaclass=_Meta):
            _real = real_datetime

            @classmethod
            def now(cls, tz=None):
                return real_datetime.fromtimestamp(fake, tz)

            @classmethod
            def utcnow(cls):
                return real_datetime.fromtimestamp(fake, _dt.timezone.utc).replace(tzinfo=None)

            @classmethod
            def today(cls):
                return real_datetime.fromtimestamp(fake)

        for c in (date, datetime):
            c.__module__, c.__qualname__ = "datetime", c.__name__
        _dt.date, _dt.datetime = date, datetime

    _install_clock(float(_FAKE))

import pypandoc  # noqa: E402


def _fake(text, to=None, format=None, extra_args=(), **kw):
    return text


pypandoc.convert_text = _fake
from gapic.cli.generate import generate  # noqa: E402

generate()
