# sub-process wrapper: stub pandoc (binary absent in the sandbox), then run the real CLI entry point
import pypandoc


def _fake(text, to=None, format=None, extra_args=(), **kw):
    return text


pypandoc.convert_text = _fake
from gapic.cli.generate import generate  # noqa: E402

generate()
