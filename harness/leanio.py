"""Build/lock/drive Lean; map build errors to declaration names; axiom audit (DESIGN §3.6, §5.1)."""
from __future__ import annotations
import fcntl, json, os, re, subprocess, time

HERE = os.path.dirname(os.path.abspath(__file__))
ROOT = os.path.dirname(HERE)
LEAN_DIR = os.path.join(ROOT, "lean")
MODEL_DIR = os.path.join(LEAN_DIR, "GapicModel")
DRIVER_BIN = os.path.join(LEAN_DIR, ".lake", "build", "bin", "driver")
ALLOWED_AXIOMS = {"propext", "Classical.choice", "Quot.sound"}
FORBIDDEN = ["sorry", "admit", "native_decide", "bv_decide", "implemented_by", "unsafe ", "maxHeartbeats 0", "axiom "]

# bridge items (extracted by T1) each property's theorems lean on
BRIDGE = {
    "C01": ["templates", "adsTemplates", "templatesChars", "adsTemplatesChars", "optFlags"],
    "C02": ["reservedNames", "pyKeywords"],
    "C03": ["pyKeywords", "transportUnsafeExtra", "snake1", "snake2", "snake3", "snake4"],
    "C04": ["reservedNames"],
    "C05": ["reservedNames", "pyKeywords"],
    "C06": ["reservedNames", "fieldHeaders"],
    "C07": [],
    "C08": ["reservedNames"],
    "C09": [],
    "C10": [],
    "C11": ["templates", "adsTemplates", "templatesChars", "adsTemplatesChars", "optFlags", "filenameSlashes", "validFilename", "namingPattern",
            "namingVersion", "versionedPackage", "pyKeywords", "invalidModuleExtra"],
    "C12": ["reservedNames", "pyKeywords", "invalidModuleExtra", "transportUnsafeExtra"],
    "C13": ["uriSampleStar"],
    "C14": ["clientInit", "requestInit", "requestExec", "responseHandling"],
    "C15": ["pyKeywords", "reservedNames", "snake1", "snake1Repl", "snake2", "snake2Repl", "snake3", "snake3Repl", "snake4", "snake4Repl",
            "wordRanges", "digitRanges", "spaceRanges"],
    "C16": ["pyKeywords"],
    "C17": ["mixinsMap"],
    "C18": [],
    "C19": ["pathArg", "commonResources"],
    "C20": ["fixws1", "fixws1Repl", "fixws2", "fixws2Repl", "fixws3", "fixws3Repl", "wrapColon", "wrapColonRepl",
            "rstTrigger", "numberedList", "spaceRanges", "wordRanges", "digitRanges"],
}


# translated functions (harness/pyfun2lean.py) each property's model or harness relies on: `Generated.Funcs.f = Pinned.Funcs.f`
BRIDGE_FUNCS = {
    "C03": ["to_snake_case", "client_method_name", "method_void"],
    "C04": ["to_camel_case", "fix_name_segment", "fix_field_path"],
    "C06": ["field_header_disambiguated", "routing_param_disambiguated_field"],
    "C08": ["address_resolve"],
    "C10": ["sort_lines"],
    "C01": ["address_str", "address_module_alias", "address_python_import", "address_rel", "import_str", "service_client_name", "service_async_client_name", "service_transport_name", "service_grpc_transport_name", "service_grpc_asyncio_transport_name", "service_rest_transport_name", "service_module_name"],
    "C11": ["to_valid_filename", "to_valid_module_name", "service_module_name", "naming_module_name", "new_naming_versioned_module_name", "old_naming_versioned_module_name",
            "naming_long_name", "naming_module_namespace", "naming_warehouse_package_name", "address_proto_package", "address_subpackage", "address_versioned_package"],
    "C12": ["to_snake_case", "to_valid_module_name", "fix_name_segment", "fix_field_path", "client_method_name", "field_name",
            "address_str", "address_module_alias", "address_python_import", "address_versioned_package", "address_subpackage", "address_proto_package", "import_str"],
    "C02": ["field_name", "address_rel", "address_str", "address_module_alias", "address_proto", "address_proto_package", "address_python_import", "address_versioned_package",
            "address_subpackage", "address_sphinx"],
    "C14": ["coerce_response_name", "client_method_name", "to_snake_case", "fix_whitespace"],
    "C15": ["to_snake_case", "make_private", "client_method_name", "service_client_name", "service_async_client_name", "new_naming_versioned_module_name"],
    "C16": ["make_private", "client_method_name", "service_client_name", "service_async_client_name"],
    "C17": ["fix_name_segment", "fix_field_path"],
    "C20": ["is_list_item", "get_subsequent_line_indentation_level", "fix_whitespace", "metadata_doc"],
}


def _strip_comments(src: str) -> str:
    src = re.sub(r"/-.*?-/", lambda m: "\n" * m.group(0).count("\n"), src, flags=re.S)
    return re.sub(r"--.*", "", src)


def theorems_in(path):
    """[(name, first_line, last_line)] of `theorem` declarations in a Lean file (1-based lines)."""
    with open(path, encoding="utf-8") as fh:
        raw = fh.read()
    lines = raw.split("\n")
    # block comments are blanked (line count kept) so that prose starting with `namespace`/`theorem` is not a declaration
    code = re.sub(r"/-.*?-/", lambda m: "\n" * m.group(0).count("\n"), raw, flags=re.S).split("\n")
    starts = []
    ns = []
    for i, ln in enumerate(code, 1):
        m = re.match(r"^namespace\s+(\S+)", ln)
        if m:
            ns.append(m.group(1))
        m = re.match(r"^end\s+(\S+)", ln)
        if m and ns and m.group(1) == ns[-1]:     # `end Aux` closes a section, not the namespace
            ns.pop()
        m = re.match(r"^(?:private\s+|protected\s+)?theorem\s+(\S+)", ln)
        if m:
            starts.append((".".join(ns + [m.group(1)]), i))
    out = []
    for k, (n, a) in enumerate(starts):
        b = starts[k + 1][1] - 1 if k + 1 < len(starts) else len(lines)
        out.append((n, a, b))
    return out


def forbidden_hits():
    hits = []
    for dp_, dn, fn in os.walk(MODEL_DIR):
        for f in fn:
            if f.endswith(".lean"):
                p = os.path.join(dp_, f)
                with open(p, encoding="utf-8") as fh:
                    src = _strip_comments(fh.read())
                for i, ln in enumerate(src.split("\n"), 1):
                    for tok in FORBIDDEN:
                        if tok == "axiom ":
                            if re.match(r"^\s*axiom\s", ln):
                                hits.append(f"{os.path.relpath(p, LEAN_DIR)}:{i}: axiom")
                        elif tok in ln:
                            hits.append(f"{os.path.relpath(p, LEAN_DIR)}:{i}: {tok.strip()}")
    return hits


class LeanStatus:
    def __init__(self):
        self.obligations = []      # {name, kind, ok, detail}
        self.axioms = {}
        self.log = ""
        self.build_s = 0.0
        self.infra_error = None

    def add(self, name, kind, ok, detail=""):
        self.obligations.append({"name": name, "kind": kind, "ok": bool(ok), "detail": detail})

    @property
    def broken(self):
        return [o for o in self.obligations if not o["ok"]]


def _run(cmd, timeout=1800):
    p = subprocess.run(cmd, cwd=LEAN_DIR, capture_output=True, text=True, timeout=timeout)
    return p.returncode, p.stdout + p.stderr


def prepare(prop: str, extra_modules=(), tier: str = "quick") -> LeanStatus:
    """translator → lake build → audit, serialised by a file lock."""
    import translate
    st = LeanStatus()
    t0 = time.time()
    os.makedirs(os.path.join(LEAN_DIR, ".lake"), exist_ok=True)
    with open(os.path.join(LEAN_DIR, ".lake", "verif.build.lock"), "w") as lock:
        fcntl.flock(lock, fcntl.LOCK_EX)
        try:
            data, changed, errs = translate.run(pin=False)
        except Exception as e:  # the source no longer has the shape the translator expects
            data, changed, errs = None, [], {"<translator>": f"{type(e).__name__}: {e}"}
        try:
            import mkmanifest
            mkmanifest.regen_lean()
        except Exception:
            pass
        props_file = os.path.join(MODEL_DIR, "Props", f"{prop}.lean")
        thms = [t for t in theorems_in(props_file) if ".Props." in t[0]]
        # audit file
        audit = [f"import GapicModel.Props.{prop}"] + [f"#print axioms {n}" for n, _, _ in thms]
        audit_path = os.path.join(MODEL_DIR, "Audit", f"{prop}.lean")
        os.makedirs(os.path.dirname(audit_path), exist_ok=True)
        txt = "\n".join(audit) + "\n"
        if not os.path.exists(audit_path) or open(audit_path).read() != txt:
            with open(audit_path, "w") as fh:
                fh.write(txt)
        mods = [f"GapicModel.Props.{prop}", "driver"] + list(extra_modules)
        rc1, log1 = _run(["lake", "build"] + mods)
        rc2, log2 = _run(["lake", "build", "GapicModel.Bridge.All"])
        st.log = log1 + log2
        if "toolchain" in st.log and "not found" in st.log:
            st.infra_error = "lean toolchain missing"
        # errors by file/line
        errs_by_file = {}
        for m in re.finditer(r"error: (\S+?\.lean):(\d+):(\d+):\s*(.*)", st.log):
            errs_by_file.setdefault(m.group(1), []).append((int(m.group(2)), m.group(4)[:200]))
        # property theorems
        perr = errs_by_file.get(f"GapicModel/Props/{prop}.lean", [])
        module_ok = rc1 == 0
        ax = {}
        if module_ok:
            rc3, log3 = _run(["lake", "env", "lean", audit_path])
            for m in re.finditer(r"'([^']+)' depends on axioms: \[([^\]]*)\]", log3):
                ax[m.group(1)] = [a.strip() for a in m.group(2).split(",") if a.strip()]
            for m in re.finditer(r"'([^']+)' does not depend on any axioms", log3):
                ax[m.group(1)] = []
        st.axioms = ax
        for n, a, b in thms:
            bad = [msg for (ln, msg) in perr if a <= ln <= b]
            if bad:
                st.add(n, "theorem", False, bad[0])
            elif not module_ok:
                others = {f: v for f, v in errs_by_file.items() if f != "GapicModel/Bridge/All.lean"}
                st.add(n, "theorem", False, "module did not build: " + json.dumps(others)[:300])
            elif n not in ax:
                st.add(n, "theorem", False, "no #print axioms output")
            elif not set(ax[n]) <= ALLOWED_AXIOMS:
                st.add(n, "theorem", False, f"axioms {ax[n]}")
            else:
                st.add(n, "theorem", True, "axioms: " + (", ".join(ax[n]) or "none"))
        # bridge lemmas
        bpath = os.path.join(MODEL_DIR, "Bridge", "All.lean")
        bthms = {n.split(".")[-1]: (a, b) for n, a, b in theorems_in(bpath)}
        berr = errs_by_file.get("GapicModel/Bridge/All.lean", [])
        for item in BRIDGE.get(prop, []):
            if item in errs:
                st.add(f"Bridge.{item}", "bridge", False, "translator: " + errs[item])
                continue
            if item not in bthms:
                st.add(f"Bridge.{item}", "bridge", False, "no such bridge lemma")
                continue
            a, b = bthms[item]
            bad = [msg for (ln, msg) in berr if a <= ln <= b]
            blocked = rc2 != 0 and not berr
            st.add(f"Bridge.{item}", "bridge", not bad and not blocked,
                   (bad[0] if bad else ("bridge module did not build" if blocked else "Generated = Pinned")))
        if BRIDGE_FUNCS.get(prop):
            rc5, log5 = _run(["lake", "build", "GapicModel.Bridge.Funcs"])
            st.log += log5
            ferr = [(int(m.group(2)), m.group(4)[:200]) for m in re.finditer(r"error: (\S+?\.lean):(\d+):(\d+):\s*(.*)", log5)
                    if m.group(1) == "GapicModel/Bridge/Funcs.lean"]
            fpath = os.path.join(MODEL_DIR, "Bridge", "Funcs.lean")
            fthms = {n.split(".")[-1]: (a, b) for n, a, b in theorems_in(fpath)}
            for item in BRIDGE_FUNCS[prop]:
                if "fn:" + item in errs:
                    st.add(f"Bridge.Funcs.{item}", "bridge", False, "translator refused the current source: " + errs["fn:" + item])
                elif item not in fthms:
                    st.add(f"Bridge.Funcs.{item}", "bridge", False, "no such bridge lemma")
                else:
                    a, b = fthms[item]
                    bad = [msg for (ln, msg) in ferr if a <= ln <= b]
                    blocked = rc5 != 0 and not ferr
                    st.add(f"Bridge.Funcs.{item}", "bridge", not bad and not blocked,
                           (bad[0] if bad else ("bridge module did not build" if blocked else "translation of the current source = pinned definition (rfl)")))
        if "<translator>" in errs:
            st.add("translator", "bridge", False, errs["<translator>"])
        hits = forbidden_hits()
        st.add("no-sorry-axiom-native_decide", "audit", not hits, "; ".join(hits[:5]))
        if tier == "thorough" and module_ok:
            # independent re-check of the compiled module by the toolchain's kernel re-checker
            try:
                rc4, log4 = _run(["lake", "env", "leanchecker", f"GapicModel.Props.{prop}"], timeout=1800)
                st.add(f"leanchecker:GapicModel.Props.{prop}", "audit", rc4 == 0, (log4.strip()[-200:] or "re-checked"))
            except Exception as e:
                st.add(f"leanchecker:GapicModel.Props.{prop}", "audit", False, f"{type(e).__name__}: {e}")
    st.build_s = time.time() - t0
    return st


class Driver:
    """Batch interface to the native driver (falls back to `lake env lean --run`)."""

    def __init__(self):
        self.cmd = [DRIVER_BIN] if os.path.exists(DRIVER_BIN) else ["lake", "env", "lean", "--run", "GapicModel/Driver.lean"]

    def ask(self, ops, timeout=900):
        if not ops:
            return []
        data = "".join(json.dumps(o, ensure_ascii=False) + "\n" for o in ops)
        for attempt in range(60):
            try:
                p = subprocess.run(self.cmd, cwd=LEAN_DIR, input=data, capture_output=True, text=True, timeout=timeout)
                break
            except (FileNotFoundError, PermissionError, OSError):
                # the native driver is being re-linked by a concurrent `lake build driver` (another check): wait for it
                if attempt == 59:
                    raise
                time.sleep(2)
        lines = [ln for ln in p.stdout.split("\n") if ln.strip()]
        if len(lines) != len(ops):
            raise RuntimeError(f"driver returned {len(lines)} lines for {len(ops)} ops: {p.stderr[-500:]}")
        return [json.loads(ln) for ln in lines]
