"""Run an op script against an emitted library in a FRESH interpreter (DESIGN §3.2, T3)."""
from __future__ import annotations
import json, os, subprocess

HERE = os.path.dirname(os.path.abspath(__file__))
PY = "/venv/bin/python"
CHILD = os.path.join(HERE, "libhost_child.py")


def run(root: str, ops: list, timeout=300, env=None):
    """returns list of per-op results; a crashed child yields {"child_error": …} for every op."""
    e = dict(os.environ)
    e.update({"PYTHONDONTWRITEBYTECODE": "1", "GRPC_VERBOSITY": "NONE", "PYTHONWARNINGS": "ignore"})
    e.update(env or {})
    try:
        p = subprocess.run([PY, CHILD, root], input=json.dumps(ops), capture_output=True, text=True,
                           timeout=timeout, env=e, cwd=root)
    except subprocess.TimeoutExpired:
        return [{"child_error": "timeout"} for _ in ops]
    marker = "\n@@RESULT@@"
    if marker not in p.stdout:
        return [{"child_error": (p.stderr or p.stdout)[-2000:]} for _ in ops]
    return json.loads(p.stdout.split(marker, 1)[1])
