"""C05 plug-in for libhost_child: sessions whose calls pass what a CALLER WRITES.

`libhost_rpc.build_args` derives flattened arguments from a request instance rebuilt from bytes through the
generated classes (wrapper views, already-marshalled values).  Here every argument is built from a tagged
literal: python scalars, bytes, enum members or ints, lists, dicts, datetime / timedelta, native JSON values for
Struct / Value / ListValue, raw protobuf objects for dependency types, generated proto-plus classes built with
keyword arguments (or the equivalent hand-written dict).  A call is executed `repeat` times WITH THE SAME
ARGUMENT OBJECTS (state leaking from one call to the next shows up as a different second request).

op: {"op": "c05_session", "client", "transport", "async", "calls": [call…]}
call: {"method", "request": tagged|null, "request_form": "instance"|"dict"|"positional",
       "kwargs": [[param, tagged]…], "repeat": n}         or a legacy libhost_rpc call ({"mode": …})
result per call: like grpc_session (first run) + "runs": [summary of every run]
"""
import asyncio, base64, datetime, traceback
import libhost_rpc
from libhost_rpc import locate, exc_name


def untag(t, as_dict=False):
    k = t["t"]
    if k == "s":
        return t["v"]
    if k == "none":
        return None
    if k == "bytes":
        return base64.b64decode(t["v"])
    if k == "enum":
        return locate(t["py"])(t["v"]) if t.get("py") and t.get("member") else t["v"]
    if k == "dt":
        from proto.datetime_helpers import DatetimeWithNanoseconds
        return DatetimeWithNanoseconds.from_rfc3339(t["v"])
    if k == "td":
        s = t["v"].rstrip("s")
        sec, _, frac = s.partition(".")
        neg = sec.startswith("-")
        micro = int((frac + "000000")[:6]) if frac else 0
        td = datetime.timedelta(seconds=abs(int(sec)), microseconds=micro)
        return -td if neg else td
    if k == "json":
        return t["v"]
    if k == "pb":
        from google.protobuf import json_format
        m = locate(t["py"])()
        json_format.ParseDict(t["json"], m)
        return m
    if k == "own":
        if as_dict or t.get("as_dict"):
            return {n: untag(v, True) for n, v in t["fields"].items()}
        return locate(t["py"])(**{n: untag(v) for n, v in t["fields"].items()})
    if k == "list":
        return [untag(x, as_dict) for x in t["v"]]
    if k == "map":
        return {untag(a): untag(b, as_dict) for a, b in t["v"]}
    raise ValueError(k)


def build(call):
    if "mode" in call:                       # legacy: arguments derived from bytes
        return libhost_rpc.build_args(call)
    args, kw = [], {}
    rq = call.get("request")
    form = call.get("request_form", "instance")
    if rq is not None:
        val = untag(rq, as_dict=(form == "dict"))
        if form == "positional":
            args.append(val)
        else:
            kw["request"] = val
    for param, t in call.get("kwargs", []):
        kw[param] = untag(t)
    return args, kw


def _summary(res, srv, start):
    res["server"] = srv.log[start:]
    return res


def op_c05_session(o):
    import grpc
    srv = libhost_rpc.GrpcLoopback(o.get("script"))
    results = []

    def one_sync(client, call):
        try:
            args, kw = build(call)
        except BaseException as e:  # noqa
            return {"build_error": exc_name(e), "msg": str(e)[:300], "trace": traceback.format_exc()[-600:], "server": [], "runs": []}
        runs = []
        for _ in range(max(1, call.get("repeat", 1))):
            start = len(srv.log)
            try:
                ret = getattr(client, call["method"])(*args, **kw)
                res = {"ok": libhost_rpc.consume_sync(ret, "value")}
            except BaseException as e:  # noqa
                res = {"raised": exc_name(e), "msg": str(e)[:300], "trace": traceback.format_exc()[-600:]}
            runs.append(_summary(res, srv, start))
        first = dict(runs[0])
        first["runs"] = [{"ok": "ok" in x, "raised": x.get("raised"), "server": x["server"]} for x in runs]
        return first

    try:
        if not o.get("async"):
            ch = grpc.insecure_channel(f"127.0.0.1:{srv.port}")
            client = locate(o["client"])(transport=locate(o["transport"])(channel=ch))
            for call in o["calls"]:
                results.append(one_sync(client, call))
            ch.close()
        else:
            async def main():
                ch = grpc.aio.insecure_channel(f"127.0.0.1:{srv.port}")
                client = locate(o["client"])(transport=locate(o["transport"])(channel=ch))
                for call in o["calls"]:
                    try:
                        args, kw = build(call)
                    except BaseException as e:  # noqa
                        results.append({"build_error": exc_name(e), "msg": str(e)[:300], "trace": traceback.format_exc()[-600:], "server": [], "runs": []})
                        continue
                    runs = []
                    for _ in range(max(1, call.get("repeat", 1))):
                        start = len(srv.log)
                        try:
                            ret = getattr(client, call["method"])(*args, **kw)
                            for _k in range(3):
                                if asyncio.iscoroutine(ret) or hasattr(ret, "__await__"):
                                    ret = await ret
                            res = {"ok": await libhost_rpc.consume_async(ret, "value")}
                        except BaseException as e:  # noqa
                            res = {"raised": exc_name(e), "msg": str(e)[:300], "trace": traceback.format_exc()[-600:]}
                        runs.append(_summary(res, srv, start))
                    first = dict(runs[0])
                    first["runs"] = [{"ok": "ok" in x, "raised": x.get("raised"), "server": x["server"]} for x in runs]
                    results.append(first)
                await ch.close()
            asyncio.run(main())
    finally:
        srv.stop()
    return {"calls": results}


OPS = {"c05_session": op_c05_session}
