"""C06 plug-in for libhost_child (T3): the emitted ASYNC client over the emitted asyncio REST transport
(`Async<Service>RestTransport`, generated when `rest_async_io_enabled` is set) against the loopback HTTP server.
Same call format and result format as `rest_session` (libhost_rpc.op_rest_session).  Runs INSIDE the child.

op: {"op": "c06_rest_async_session", "client": "mod:AsyncClient", "transport": "mod:AsyncRestTransport", "calls": [call…]}
"""
import asyncio, traceback
import libhost_rpc as R


def op_c06_rest_async_session(o):
    from google.auth.aio.credentials import AnonymousCredentials
    srv = R.HttpLoopback(o.get("script"))
    results = []

    async def main():
        transport = R.locate(o["transport"])(host=f"127.0.0.1:{srv.port}", url_scheme="http", credentials=AnonymousCredentials())
        client = R.locate(o["client"])(transport=transport)
        try:
            for call in o["calls"]:
                start = len(srv.log)
                try:
                    args, kw = R.build_args(call)
                    ret = getattr(client, call["method"])(*args, **kw)
                    for _ in range(3):
                        if asyncio.iscoroutine(ret) or hasattr(ret, "__await__"):
                            ret = await ret
                    res = {"ok": True}
                except BaseException as e:  # noqa
                    res = {"raised": R.exc_name(e), "msg": str(e)[:300], "trace": traceback.format_exc()[-600:]}
                res["server"] = srv.log[start:]
                results.append(res)
        finally:
            try:
                await transport.close()
            except BaseException:  # noqa
                pass
    try:
        asyncio.run(main())
    finally:
        srv.stop()
    return {"calls": results}


OPS = {"c06_rest_async_session": op_c06_rest_async_session}
