"""C06 plug-in for libhost_child (T3).  Runs INSIDE the child.

`c06_session`: ONE emitted client (sync gRPC | asyncio gRPC | REST | asyncio REST) against one loopback server, a store
of CALLER-OWNED metadata objects (Python lists / tuples) that live for the whole session — passing object i twice
passes the SAME Python object twice — and a list of calls.  After every call the object that was passed is read back.

op: {"op": "c06_session", "kind": "grpc"|"grpc_asyncio"|"rest"|"rest_asyncio", "client": "mod:Cls", "transport": "mod:Cls",
     "objects": [{"kind": "list"|"tuple", "pairs": [[k, v], …]}, …],
     "calls": [call of libhost_rpc.build_args (request, mode, consume, stream_requests …) + {"metadata_obj": i | null}]}
     (`metadata_obj` null: the call passes no `metadata=` at all; `call_kwargs.metadata` is not used)
result: {"calls": [{"ok": … | "raised": …, "server": [records],
                    "metadata_after": null | {"type": "list"|"tuple"|…, "pairs": [[k, v], …], "same_object": bool}}]}

`c06_rest_async_session` (older): the async client over the asyncio REST transport, call format of `rest_session`.
"""
import asyncio, traceback
import libhost_rpc as R


def _objects(o):
    out = []
    for ob in o.get("objects") or []:
        pairs = [tuple(p) for p in ob["pairs"]]
        out.append(tuple(pairs) if ob["kind"] == "tuple" else list(pairs))
    return out


def _args(call, objs):
    c = dict(call)
    ck = dict(c.get("call_kwargs") or {})
    ck.pop("metadata", None)
    c["call_kwargs"] = ck
    args, kw = R.build_args(c)
    passed = None
    if call.get("metadata_obj") is not None:
        passed = objs[call["metadata_obj"]]
        kw["metadata"] = passed
    return args, kw, passed


def _after(call, objs, passed):
    if passed is None:
        return None
    now = objs[call["metadata_obj"]]
    try:
        pairs = [[str(k), v if isinstance(v, str) else repr(v)] for k, v in passed]
    except BaseException as e:  # noqa
        pairs = [["<unreadable>", R.exc_name(e)]]
    return {"type": type(passed).__name__, "pairs": pairs, "same_object": now is passed}


def _sync_calls(o, srv, client, results):
    objs = _objects(o)
    for call in o["calls"]:
        start = len(srv.log)
        passed = None
        try:
            args, kw, passed = _args(call, objs)
            ret = getattr(client, call["method"])(*args, **kw)
            res = {"ok": R.consume_sync(ret, call.get("consume", "value"))}
        except BaseException as e:  # noqa
            res = {"raised": R.exc_name(e), "msg": str(e)[:300], "trace": traceback.format_exc()[-600:]}
        res["server"] = list(srv.log[start:])
        res["metadata_after"] = _after(call, objs, passed)
        results.append(res)


async def _async_calls(o, srv, client, results):
    objs = _objects(o)
    for call in o["calls"]:
        start = len(srv.log)
        passed = None
        try:
            args, kw, passed = _args(call, objs)
            if "requests" in kw:
                items = list(kw["requests"])

                async def agen(items=items):
                    for it in items:
                        yield it
                kw["requests"] = agen()
            ret = getattr(client, call["method"])(*args, **kw)
            for _ in range(3):          # client-streaming async methods need a double await
                if asyncio.iscoroutine(ret) or hasattr(ret, "__await__"):
                    ret = await ret
            res = {"ok": await R.consume_async(ret, call.get("consume", "value"))}
        except BaseException as e:  # noqa
            res = {"raised": R.exc_name(e), "msg": str(e)[:300], "trace": traceback.format_exc()[-600:]}
        res["server"] = list(srv.log[start:])
        res["metadata_after"] = _after(call, objs, passed)
        results.append(res)


def op_c06_session(o):
    kind = o["kind"]
    results = []
    if kind == "grpc":
        import grpc
        srv = R.GrpcLoopback(None)
        try:
            ch = grpc.insecure_channel(f"127.0.0.1:{srv.port}")
            client = R.locate(o["client"])(transport=R.locate(o["transport"])(channel=ch))
            _sync_calls(o, srv, client, results)
            ch.close()
        finally:
            srv.stop()
    elif kind == "grpc_asyncio":
        import grpc
        srv = R.GrpcLoopback(None)
        try:
            async def main():
                ch = grpc.aio.insecure_channel(f"127.0.0.1:{srv.port}")
                client = R.locate(o["client"])(transport=R.locate(o["transport"])(channel=ch))
                await _async_calls(o, srv, client, results)
                await ch.close()
            asyncio.run(main())
        finally:
            srv.stop()
    elif kind == "rest":
        from google.auth.credentials import AnonymousCredentials
        srv = R.HttpLoopback(None)
        try:
            transport = R.locate(o["transport"])(host=f"127.0.0.1:{srv.port}", url_scheme="http", credentials=AnonymousCredentials())
            _sync_calls(o, srv, R.locate(o["client"])(transport=transport), results)
        finally:
            srv.stop()
    elif kind == "rest_asyncio":
        from google.auth.aio.credentials import AnonymousCredentials
        srv = R.HttpLoopback(None)
        try:
            async def main():
                transport = R.locate(o["transport"])(host=f"127.0.0.1:{srv.port}", url_scheme="http", credentials=AnonymousCredentials())
                try:
                    await _async_calls(o, srv, R.locate(o["client"])(transport=transport), results)
                finally:
                    try:
                        await transport.close()
                    except BaseException:  # noqa
                        pass
            asyncio.run(main())
        finally:
            srv.stop()
    else:
        raise ValueError(kind)
    return {"calls": results}


def op_c06_rest_async_session(o):
    from google.auth.aio.credentials import AnonymousCredentials
    srv = R.HttpLoopback(o.get("script"))
    results = []

    async def main():
        transport = R.locate(o["transport"])(host=f"127.0.0.1:{srv.port}", url_scheme="http", credentials=AnonymousCredentials())
        client = R.locate(o["client"])(transport=transport)
        try:
            for call in o["calls"]:
                start = len(srv.log)
                try:
                    args, kw = R.build_args(call)
                    ret = getattr(client, call["method"])(*args, **kw)
                    for _ in range(3):
                        if asyncio.iscoroutine(ret) or hasattr(ret, "__await__"):
                            ret = await ret
                    res = {"ok": True}
                except BaseException as e:  # noqa
                    res = {"raised": R.exc_name(e), "msg": str(e)[:300], "trace": traceback.format_exc()[-600:]}
                res["server"] = srv.log[start:]
                results.append(res)
        finally:
            try:
                await transport.close()
            except BaseException:  # noqa
                pass
    try:
        asyncio.run(main())
    finally:
        srv.stop()
    return {"calls": results}


OPS = {"c06_session": op_c06_session, "c06_rest_async_session": op_c06_rest_async_session}
