"""(C07) pagers used as OBJECTS: a program of generator operations on the object a client method returned.
Runs INSIDE the child interpreter (see libhost_child.py).

op `c07_session`: {"client", "transport", "async", "calls": [call…]}; a call is a `grpc_session` call plus
  "program": [["iter"] | ["next", i] | ["pages"] | ["nextpage", j] | ["attr"]]
Per call the result has: "pytype" (class name of what the method returned), "is_pager" (has `pages`),
"steps": [{"obs": …, "calls": number of requests the server has seen for this call so far}],
"request_before"/"request_after": the caller's own request object (instance mode) serialised before the
call and after the program, "server": the records of the loopback server."""
import asyncio, traceback

import libhost_rpc as R


def _obs_exc(e):
    return {"raised": R.exc_name(e), "msg": str(e)[:200]}


def _snapshot(kw):
    req = kw.get("request")
    if req is None:
        return None
    if isinstance(req, dict):
        return {"kind": "dict", "repr": repr(req)}
    return R.canon_msg(req)


def _run_sync(ret, program, count):
    its, gens, steps = [], [], []
    for op in program:
        try:
            if op[0] == "iter":
                its.append(iter(ret)); obs = "unit"
            elif op[0] == "pages":
                gens.append(ret.pages); obs = "unit"
            elif op[0] == "attr":
                obs = {"tok": ret.next_page_token}
            elif op[0] == "next":
                try:
                    obs = {"item": R.canon_msg(next(its[op[1]]))}
                except StopIteration:
                    obs = "stop"
            elif op[0] == "nextpage":
                try:
                    obs = {"page": R.canon_msg(next(gens[op[1]]))}
                except StopIteration:
                    obs = "stop"
            else:
                obs = "bad"
        except IndexError:
            obs = "bad"
        except BaseException as e:  # noqa
            obs = _obs_exc(e)
        steps.append({"obs": obs, "calls": count()})
    return steps


async def _run_async(ret, program, count):
    its, gens, steps = [], [], []
    for op in program:
        try:
            if op[0] == "iter":
                its.append(ret.__aiter__()); obs = "unit"
            elif op[0] == "pages":
                gens.append(ret.pages); obs = "unit"
            elif op[0] == "attr":
                obs = {"tok": ret.next_page_token}
            elif op[0] == "next":
                try:
                    obs = {"item": R.canon_msg(await its[op[1]].__anext__())}
                except StopAsyncIteration:
                    obs = "stop"
            elif op[0] == "nextpage":
                try:
                    obs = {"page": R.canon_msg(await gens[op[1]].__anext__())}
                except StopAsyncIteration:
                    obs = "stop"
            else:
                obs = "bad"
        except IndexError:
            obs = "bad"
        except BaseException as e:  # noqa
            obs = _obs_exc(e)
        steps.append({"obs": obs, "calls": count()})
    return steps


def _describe(ret):
    return {"pytype": type(ret).__name__, "is_pager": hasattr(type(ret), "pages"),
            "py": type(ret).__module__ + ":" + type(ret).__qualname__}


def op_c07_session(o):
    import grpc
    srv = R.GrpcLoopback(None)
    results = []

    def install(call):
        with srv.lock:
            for p, q in (call.get("script") or {}).items():
                srv.script[p] = list(q)

    try:
        if not o.get("async"):
            ch = grpc.insecure_channel(f"127.0.0.1:{srv.port}")
            client = R.locate(o["client"])(transport=R.locate(o["transport"])(channel=ch))
            for call in o["calls"]:
                start = len(srv.log)
                install(call)
                res = {}
                try:
                    args, kw = R.build_args(call)
                    res["request_before"] = _snapshot(kw)
                    ret = getattr(client, call["method"])(*args, **kw)
                    res.update(_describe(ret))
                    res["steps"] = _run_sync(ret, call.get("program", []), lambda: len(srv.log) - start)
                    res["request_after"] = _snapshot(kw)
                except BaseException as e:  # noqa
                    res.update({"raised": R.exc_name(e), "msg": str(e)[:300], "trace": traceback.format_exc()[-600:]})
                res["server"] = srv.log[start:]
                results.append(res)
            ch.close()
        else:
            async def main():
                ch = grpc.aio.insecure_channel(f"127.0.0.1:{srv.port}")
                client = R.locate(o["client"])(transport=R.locate(o["transport"])(channel=ch))
                for call in o["calls"]:
                    start = len(srv.log)
                    install(call)
                    res = {}
                    try:
                        args, kw = R.build_args(call)
                        res["request_before"] = _snapshot(kw)
                        ret = getattr(client, call["method"])(*args, **kw)
                        if asyncio.iscoroutine(ret) or hasattr(ret, "__await__"):
                            ret = await ret
                        res.update(_describe(ret))
                        res["steps"] = await _run_async(ret, call.get("program", []), lambda: len(srv.log) - start)
                        res["request_after"] = _snapshot(kw)
                    except BaseException as e:  # noqa
                        res.update({"raised": R.exc_name(e), "msg": str(e)[:300], "trace": traceback.format_exc()[-600:]})
                    res["server"] = srv.log[start:]
                    results.append(res)
                await ch.close()
            asyncio.run(main())
    finally:
        srv.stop()
    return {"calls": results}


OPS = {"c07_session": op_c07_session}
