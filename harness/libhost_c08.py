"""C08 plug-in for libhost_child (T3): LRO futures used as OBJECTS, as programs.  Runs INSIDE the child.

op c08_program_session:
  {"op": "c08_program_session", "kind": "grpc" | "grpc_asyncio" | "rest", "client": "mod:Cls", "transport": "mod:Cls",
   "groups": [[call, ...], ...]}
  call = {"method": snake name, "rpc_path": "/pkg.Svc/Rpc" (gRPC) | ":verbSuffix" (REST), "request": literal dict,
          "opname": operation name, "first": b64 Operation (gRPC) | JSON text (REST), "replies": [same encoding ...],
          "cmds": ["metadata" | "done" | "running" | "cancel" | "result" | "exception" ...]}
  All calls of a group are STARTED first, in order, with the SAME request dict object when their literals are equal;
  their programs are then run in REVERSE order (futures interleaved on one client / one operations client).
  The loopback server answers GetOperation BY OPERATION NAME, records CancelOperation, and never invents a reply.
  result per call: {"future": type name, "obs": [...], "polls_after": [n after each cmd], "get_names": [...],
                    "cancel_names": [...]} or {"start_raised": ...}

op c08_ops_table: {"transport": "mod:RestTransportCls"} -> the http-options table and path prefix of the REST operations client
"""
import asyncio, json, threading, traceback
from concurrent import futures
import libhost_rpc as R

GETOP = "/google.longrunning.Operations/GetOperation"
CANCELOP = "/google.longrunning.Operations/CancelOperation"


class State:
    def __init__(self):
        self.lock = threading.Lock()
        self.rpc = {}          # rpc path -> FIFO of first replies
        self.ops = {}          # operation name -> FIFO of GetOperation replies
        self.get_log = {}      # operation name -> number of GetOperation calls
        self.cancel_log = []   # operation names
        self.unknown = []      # anything the script did not foresee

    def add(self, call):
        with self.lock:
            self.rpc.setdefault(call["rpc_path"], []).append(call["first"])
            self.ops[call["opname"]] = list(call["replies"])
            self.get_log[call["opname"]] = 0


def grpc_server(st):
    import grpc
    from google.longrunning import operations_pb2
    from google.protobuf import empty_pb2

    class Handler(grpc.GenericRpcHandler):
        def service(self, details):
            path = details.method

            def behave(request_iterator, context):
                reqs = [r for r in request_iterator]
                with st.lock:
                    if path == GETOP:
                        name = operations_pb2.GetOperationRequest.FromString(reqs[0]).name
                        q = st.ops.get(name)
                        if q is None:
                            st.unknown.append(["get", name])
                        else:
                            st.get_log[name] += 1
                        if not q:
                            st.unknown.append(["get-exhausted", name])
                            context.abort(grpc.StatusCode.FAILED_PRECONDITION, "history exhausted")
                        yield R.unb64(q.pop(0))
                        return
                    if path == CANCELOP:
                        st.cancel_log.append(operations_pb2.CancelOperationRequest.FromString(reqs[0]).name)
                        yield empty_pb2.Empty().SerializeToString()
                        return
                    q = st.rpc.get(path)
                    if not q:
                        st.unknown.append(["rpc", path])
                        context.abort(grpc.StatusCode.UNIMPLEMENTED, "not scripted")
                    yield R.unb64(q.pop(0))
            return grpc.stream_stream_rpc_method_handler(behave)

    server = grpc.server(futures.ThreadPoolExecutor(max_workers=8))
    server.add_generic_rpc_handlers((Handler(),))
    port = server.add_insecure_port("127.0.0.1:0")
    server.start()
    return server, port


def http_server(st):
    from http.server import BaseHTTPRequestHandler, HTTPServer

    class H(BaseHTTPRequestHandler):
        protocol_version = "HTTP/1.0"

        def log_message(self, *a):
            pass

        def _send(self, status, text):
            data = text.encode()
            self.send_response(status)
            self.send_header("Content-Type", "application/json")
            self.send_header("Content-Length", str(len(data)))
            self.end_headers()
            self.wfile.write(data)

        def _do(self):
            n = int(self.headers.get("Content-Length") or 0)
            if n:
                self.rfile.read(n)
            path = self.path.partition("?")[0]
            with st.lock:
                if self.command == "GET":
                    name = next((k for k in st.ops if path.endswith("/" + k) or ("/" + k + ":") in path), None)
                    if name is None:
                        st.unknown.append(["get", path])
                        return self._send(404, "{}")
                    st.get_log[name] += 1
                    if not st.ops[name]:
                        st.unknown.append(["get-exhausted", name])
                        return self._send(412, "{}")
                    return self._send(200, st.ops[name].pop(0))
                if path.endswith(":cancel"):
                    name = next((k for k in st.ops if path.endswith("/" + k + ":cancel")), path)
                    st.cancel_log.append(name)
                    return self._send(200, "{}")
                key = next((k for k in st.rpc if path.endswith(k)), None)
                if key is None or not st.rpc[key]:
                    st.unknown.append(["rpc", path])
                    return self._send(404, "{}")
                return self._send(200, st.rpc[key].pop(0))
        do_GET = do_POST = do_PUT = do_PATCH = do_DELETE = _do

    httpd = HTTPServer(("127.0.0.1", 0), H)
    threading.Thread(target=httpd.serve_forever, daemon=True).start()
    return httpd, httpd.server_address[1]


def exc_obs(e):
    from google.api_core import exceptions as core_exceptions
    out = {"raised": type(e).__name__, "msg": str(e)[:200], "api_error": isinstance(e, core_exceptions.GoogleAPICallError)}
    try:
        out["grpc_code"] = getattr(getattr(e, "grpc_status_code", None), "name", None)
        out["http_code"] = getattr(e, "code", None) if isinstance(getattr(e, "code", None), int) else getattr(getattr(e, "code", None), "value", None)
        errs = getattr(e, "errors", None) or ()
        out["status_codes"] = [getattr(x, "code", None) for x in errs if hasattr(x, "code")]
        out["has_operation"] = getattr(getattr(e, "response", None), "DESCRIPTOR", None) is not None and \
            e.response.DESCRIPTOR.full_name == "google.longrunning.Operation"
    except BaseException:  # noqa
        pass
    return out


async def _maybe_await(x):
    if asyncio.iscoroutine(x) or hasattr(x, "__await__"):
        return await x
    return x


async def run_cmd(fut, cmd):
    try:
        if cmd == "metadata":
            return ["metadata", R.canon_msg(fut.metadata)]
        if cmd == "done":
            return ["bool", bool(await _maybe_await(fut.done()))]
        if cmd == "running":
            return ["bool", bool(await _maybe_await(fut.running()))]
        if cmd == "cancel":
            return ["bool", bool(await _maybe_await(fut.cancel()))]
        if cmd == "result":
            return ["result", R.canon_msg(await _maybe_await(fut.result(timeout=20)))]
        if cmd == "exception":
            e = await _maybe_await(fut.exception(timeout=20))
            return ["exception", None if e is None else exc_obs(e)]
        return ["unknown-cmd", cmd]
    except BaseException as e:  # noqa
        return [{"metadata": "metadata", "result": "result", "exception": "exception"}.get(cmd, "bool"), exc_obs(e)]


def op_c08_program_session(o):
    import grpc
    st = State()
    kind = o["kind"]
    trap = R.SleepTrap()
    trap.install()
    kinds = []
    out_groups = []

    async def main(client):
        for group in o["groups"]:
            started = []
            shared = {}
            for call in group:
                st.add(call)
                key = json.dumps(call["request"], sort_keys=True)
                req = shared.setdefault(key, call["request"])      # the SAME dict object for equal literals
                before = json.dumps(req, sort_keys=True)
                try:
                    fut = await _maybe_await(getattr(client, call["method"])(request=req))
                    started.append((call, fut, None, json.dumps(req, sort_keys=True) != before))
                except BaseException as e:  # noqa
                    started.append((call, None, exc_obs(e), False))
            res = [None] * len(started)
            for idx in reversed(range(len(started))):
                call, fut, err, mutated = started[idx]
                if err is not None:
                    res[idx] = {"start_raised": err, "trace": ""}
                    continue
                obs, polls_after = [], []
                for cmd in call["cmds"]:
                    obs.append(await run_cmd(fut, cmd))
                    polls_after.append(st.get_log[call["opname"]])
                res[idx] = {"future": type(fut).__name__, "obs": obs, "polls_after": polls_after,
                            "cancel_names": [n for n in st.cancel_log if n == call["opname"] or n.endswith("/" + call["opname"] + ":cancel")],
                            "request_mutated": mutated}
            out_groups.append(res)

    server = None
    try:
        if kind == "rest":
            from google.auth.credentials import AnonymousCredentials
            server, port = http_server(st)
            transport = R.locate(o["transport"])(host=f"127.0.0.1:{port}", url_scheme="http", credentials=AnonymousCredentials())
            client = R.locate(o["client"])(transport=transport)
            asyncio.run(main(client))
        elif kind == "grpc":
            server, port = grpc_server(st)
            ch = grpc.insecure_channel(f"127.0.0.1:{port}")
            R.instrument(ch, kinds)
            client = R.locate(o["client"])(transport=R.locate(o["transport"])(channel=ch))
            asyncio.run(main(client))
            ch.close()
        else:
            server, port = grpc_server(st)

            async def amain():
                ch = grpc.aio.insecure_channel(f"127.0.0.1:{port}")
                R.instrument(ch, kinds)
                client = R.locate(o["client"])(transport=R.locate(o["transport"])(channel=ch))
                await main(client)
                await ch.close()
            asyncio.run(amain())
    except BaseException as e:  # noqa
        return {"session_error": R.exc_name(e), "trace": traceback.format_exc()[-1500:], "groups": out_groups}
    finally:
        if server is not None:
            if kind == "rest":
                server.shutdown(); server.server_close()
            else:
                server.stop(0)
    return {"groups": out_groups, "unknown": st.unknown, "all_cancels": st.cancel_log, "get_log": st.get_log,
            "stub_paths": sorted({k[0] for k in kinds})}


def op_c08_ops_table(o):
    from google.auth.credentials import AnonymousCredentials
    cls = R.locate(o["transport"])
    if not isinstance(getattr(cls, "operations_client", None), property):
        return {"no_ops_client": True}
    t = cls(host="127.0.0.1:1", url_scheme="http", credentials=AnonymousCredentials())
    oc = t.operations_client
    ot = getattr(oc, "_transport", None) or getattr(oc, "transport", None)
    table = getattr(ot, "_http_options", None)
    return {"table": {k: [dict(r) for r in v] for k, v in (table or {}).items()}, "path_prefix": getattr(ot, "_path_prefix", None),
            "same_client_twice": t.operations_client is oc, "ops_client_type": type(oc).__name__}


OPS = {"c08_program_session": op_c08_program_session, "c08_ops_table": op_c08_ops_table}
