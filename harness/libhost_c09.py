"""C09 plug-in for libhost_child (T3): the `_wrapped_methods` table of ANY emitted transport, keyed by the
transport property name.  Runs INSIDE the child.

op: {"op": "c09_table", "transport": "mod:Cls", "kind": "grpc" | "grpc_asyncio" | "rest" | "rest_asyncio"}
result: {"wrapped": {property: {"timeout": t, "retry": None | {initial, maximum, multiplier, deadline, exceptions, pytype}}},
         "entries": n, "unmatched": k, "kind_attr": transport.kind}
"""
import asyncio
import libhost_rpc as R


def _table(transport):
    out = {}
    wm = transport._wrapped_methods
    seen = set()
    for n in dir(type(transport)):
        if n.startswith("_") or not isinstance(getattr(type(transport), n, None), property):
            continue
        try:
            v = getattr(transport, n)
            if v in wm:
                out[n] = R._retry_entry(wm[v])
                seen.add(id(wm[v]))
        except BaseException:  # noqa: properties such as operations_client may need credentials
            continue
    return {"wrapped": out, "entries": len(wm), "unmatched": sum(1 for w in wm.values() if id(w) not in seen),
            "kind_attr": getattr(transport, "kind", None)}


def op_c09_table(o):
    import grpc
    cls = R.locate(o["transport"])
    kind = o.get("kind", "grpc")
    if kind == "grpc":
        ch = grpc.insecure_channel("127.0.0.1:1")
        try:
            return _table(cls(channel=ch))
        finally:
            ch.close()
    if kind == "grpc_asyncio":
        async def main():
            ch = grpc.aio.insecure_channel("127.0.0.1:1")
            try:
                return _table(cls(channel=ch))
            finally:
                await ch.close()
        return asyncio.run(main())
    if kind == "rest":
        from google.auth.credentials import AnonymousCredentials
        return _table(cls(host="127.0.0.1:1", url_scheme="http", credentials=AnonymousCredentials()))
    if kind == "rest_asyncio":
        from google.auth.aio import credentials as aio_credentials

        async def main():
            return _table(cls(host="127.0.0.1:1", url_scheme="http", credentials=aio_credentials.AnonymousCredentials()))
        return asyncio.run(main())
    raise ValueError(kind)


OPS = {"c09_table": op_c09_table}
