"""C09 plug-in for libhost_child (T3): the `_wrapped_methods` table of ANY emitted transport, keyed by the
transport property name; and `c09_rest_session` (calls through the emitted sync REST client).  Runs INSIDE the child.

op: {"op": "c09_table", "transport": "mod:Cls", "kind": "grpc" | "grpc_asyncio" | "rest" | "rest_asyncio"}
result: {"wrapped": {property: {"timeout": t, "retry": None | {initial, maximum, multiplier, deadline, exceptions, pytype}}},
         "entries": n, "unmatched": k, "kind_attr": transport.kind}
"""
import asyncio
import libhost_rpc as R


def _table(transport):
    out = {}
    wm = transport._wrapped_methods
    seen = set()
    for n in dir(type(transport)):
        if n.startswith("_") or not isinstance(getattr(type(transport), n, None), property):
            continue
        try:
            v = getattr(transport, n)
            if v in wm:
                out[n] = R._retry_entry(wm[v])
                seen.add(id(wm[v]))
        except BaseException:  # noqa: properties such as operations_client may need credentials
            continue
    return {"wrapped": out, "entries": len(wm), "unmatched": sum(1 for w in wm.values() if id(w) not in seen),
            "kind_attr": getattr(transport, "kind", None)}


def op_c09_table(o):
    import grpc
    cls = R.locate(o["transport"])
    kind = o.get("kind", "grpc")
    if kind == "grpc":
        ch = grpc.insecure_channel("127.0.0.1:1")
        try:
            return _table(cls(channel=ch))
        finally:
            ch.close()
    if kind == "grpc_asyncio":
        async def main():
            ch = grpc.aio.insecure_channel("127.0.0.1:1")
            try:
                return _table(cls(channel=ch))
            finally:
                await ch.close()
        return asyncio.run(main())
    if kind == "rest":
        from google.auth.credentials import AnonymousCredentials
        return _table(cls(host="127.0.0.1:1", url_scheme="http", credentials=AnonymousCredentials()))
    if kind == "rest_asyncio":
        from google.auth.aio import credentials as aio_credentials

        async def main():
            return _table(cls(host="127.0.0.1:1", url_scheme="http", credentials=aio_credentials.AnonymousCredentials()))
        return asyncio.run(main())
    raise ValueError(kind)


def op_c09_rest_session(o):
    """(second deepening round) calls of the emitted SYNC REST client against the HTTP loopback with scripted status codes:
    api-core's sleeps trapped, virtual clock, jitter pinned (or random), the `timeout=` of every HTTP request recorded at
    the transport's session.
    {"client": "mod:Cls", "transport": "mod:Cls", "jitter": f | None, "calls": [build_args fields + "script": [{status, body}…]]}
    result per call: {"ok" | "raised", "server": [{path, verb}], "sleeps": […], "timeouts": [[path, t]…], "wall_s": s}"""
    import time
    import traceback
    from google.auth.credentials import AnonymousCredentials
    srv = R.HttpLoopback(None)
    trap = R.SleepTrap()
    trap.install(virtual_clock=True, jitter=o.get("jitter"))
    results = []
    try:
        transport = R.locate(o["transport"])(host=f"127.0.0.1:{srv.port}", url_scheme="http", credentials=AnonymousCredentials())
        client = R.locate(o["client"])(transport=transport)
        tmo = []
        sess = transport._session
        orig = sess.request

        def request(method, url, *a, **kw):
            tmo.append([url.split("?")[0], kw.get("timeout")])
            return orig(method, url, *a, **kw)
        sess.request = request
        for call in o["calls"]:
            start, s0, t0 = len(srv.log), len(trap.sleeps), len(tmo)
            w0 = time.monotonic()
            srv.script[:] = list(call.get("script") or [])
            try:
                args, kw = R.build_args(call)
                ret = getattr(client, call["method"])(*args, **kw)
                res = {"ok": R.consume_sync(ret, call.get("consume", "value"))}
            except BaseException as e:  # noqa
                res = {"raised": R.exc_name(e), "msg": str(e)[:300], "trace": traceback.format_exc()[-600:]}
            res["server"] = [{"path": x["path"], "verb": x["verb"], "time_remaining": None} for x in srv.log[start:]]
            res["sleeps"] = trap.sleeps[s0:]
            res["timeouts"] = tmo[t0:]
            res["wall_s"] = time.monotonic() - w0
            results.append(res)
    finally:
        srv.stop()
    return {"calls": results}


OPS = {"c09_table": op_c09_table, "c09_rest_session": op_c09_rest_session}
