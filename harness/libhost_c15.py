"""C15 plug-in of the library host: run the EMITTED keyword fix-up transformer (libcst) on source text."""
import importlib


def op_c15_fixup(o):
    """{"module": "scripts.fixup_x_keywords", "sources": [python source, …]}
    -> {"class": transformer class name, "outputs": [transformed source | {"raised", "msg"}]}"""
    import libcst as cst
    try:
        M = importlib.import_module(o["module"])
        T = next(v for k, v in vars(M).items() if isinstance(v, type) and k.endswith("CallTransformer"))
    except BaseException as e:  # noqa
        return {"raised": type(e).__name__, "msg": str(e)[:300]}
    outs = []
    for src in o["sources"]:
        try:
            outs.append(cst.parse_module(src).visit(T()).code)
        except BaseException as e:  # noqa
            outs.append({"raised": type(e).__name__, "msg": str(e)[:300]})
    return {"class": T.__name__, "outputs": outs}


OPS = {"c15_fixup": op_c15_fixup}
