"""C16 ops for libhost_child: the proto-plus classes an emitted `types` package really defines.  Runs INSIDE the child."""
import importlib
import inspect


def exc_name(e):
    return type(e).__name__


def _walk(cls, out, seen):
    import proto
    if id(cls) in seen:
        return
    seen.add(id(cls))
    if isinstance(cls, type) and issubclass(cls, proto.Message):
        ent = {"kind": "message", "full": cls._meta.full_name, "py": cls.__module__ + ":" + cls.__qualname__}
        try:
            inst = cls()
            ent["usable"] = isinstance(cls.serialize(inst), bytes)
        except BaseException as e:  # noqa
            ent["usable"] = False
            ent["error"] = exc_name(e) + ": " + str(e)[:120]
        out.append(ent)
        for v in list(vars(cls).values()):
            if isinstance(v, type) and (issubclass(v, proto.Message) or issubclass(v, proto.Enum)):
                _walk(v, out, seen)
    elif isinstance(cls, type) and issubclass(cls, proto.Enum):
        out.append({"kind": "enum", "full": cls._meta.full_name, "py": cls.__module__ + ":" + cls.__qualname__,
                    "usable": True, "values": sorted(m.name for m in cls)})


def op_proto_classes(o):
    """{"module": "pkg.types"} -> every proto.Message / proto.Enum class reachable from the module's __all__
    (nested classes included), with its proto full name and whether an empty instance serialises."""
    try:
        M = importlib.import_module(o["module"])
    except BaseException as e:  # noqa
        return {"raised": exc_name(e), "msg": str(e)[:300]}
    out, seen = [], set()
    for n in getattr(M, "__all__", []):
        try:
            _walk(getattr(M, n), out, seen)
        except BaseException as e:  # noqa
            out.append({"kind": "error", "name": n, "error": exc_name(e) + ": " + str(e)[:200]})
    return {"classes": out, "all": sorted(getattr(M, "__all__", []))}


def op_client_surface(o):
    """{"module": "pkg.services.x", "names": [class names]} -> public+private callables of each client class"""
    res = {}
    try:
        M = importlib.import_module(o["module"])
    except BaseException as e:  # noqa
        return {"raised": exc_name(e), "msg": str(e)[:300]}
    res["all"] = sorted(getattr(M, "__all__", []))
    res["classes"] = {}
    res["rpc_like"] = {}
    for n in res["all"]:
        cls = getattr(M, n, None)
        if isinstance(cls, type):
            res["classes"][n] = sorted(a for a in dir(cls) if not a.startswith("__") and callable(getattr(cls, a, None)))
            # attributes with the calling convention of an RPC entry point: (self, request, ..., retry, timeout, metadata)
            rl = []
            for a in res["classes"][n]:
                try:
                    ps = set(inspect.signature(getattr(cls, a)).parameters)
                except (TypeError, ValueError):
                    continue
                if {"request", "retry", "timeout", "metadata"} <= ps:
                    rl.append(a)
            res["rpc_like"][n] = rl
    return res


def op_package_exports(o):
    """{"package": "pkg"} -> for every name in the package's __all__ that is bound to a class: where that class is
    defined (module, __name__) — what `from pkg import X` really hands out"""
    try:
        M = importlib.import_module(o["package"])
    except BaseException as e:  # noqa
        return {"raised": exc_name(e), "msg": str(e)[:300]}
    out = {}
    for n in getattr(M, "__all__", []):
        v = getattr(M, n, None)
        if isinstance(v, type):
            out[n] = [v.__module__, v.__name__]
    return {"exports": out, "all": sorted(getattr(M, "__all__", []))}


OPS = {"proto_classes": op_proto_classes, "client_surface": op_client_surface, "package_exports": op_package_exports}
