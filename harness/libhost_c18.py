"""C18 sessions for libhost_child (T3): one emitted client (sync gRPC | asyncio gRPC | REST) against one
loopback server, a store of caller-owned request objects that live for the whole session (so that passing
object i twice passes the SAME Python object twice), and a list of calls.  Runs INSIDE the child.

op: {"op": "c18_session", "kind": "sync"|"asyncio"|"rest", "client": "mod:Cls", "transport": "mod:Cls",
     "objects": [{"py_request": "mod:Cls", "b64": …}],
     "calls": [{"method": snake_name, "mode": "inst"|"dict"|"kwargs", "obj": i, "kwargs": {param: str}}]}
result: {"calls": [{"ok": true | "raised": …, "server": [records], "after": canon of object i after the call}]}
"""
import asyncio, traceback
import libhost_rpc as R


def _prep(o):
    objs = []
    for ob in o["objects"]:
        cls = R.locate(ob["py_request"])
        objs.append((cls, R.unb64(ob["b64"]), R.make_instance(cls, R.unb64(ob["b64"]))))
    return objs


def _kw(call, objs):
    cls, data, inst = objs[call["obj"]]
    mode = call["mode"]
    if mode == "inst":
        return {"request": inst}
    if mode == "dict":
        return {"request": R.make_dict(cls, data)}      # a new dict per call
    if mode == "kwargs":
        return dict(call.get("kwargs") or {})
    raise ValueError(mode)


def _after(call, objs):
    return R.canon_msg(objs[call["obj"]][2])


def op_c18_session(o):
    kind = o["kind"]
    results = []
    if kind == "rest":
        from google.auth.credentials import AnonymousCredentials
        srv = R.HttpLoopback(None)
        try:
            transport = R.locate(o["transport"])(host=f"127.0.0.1:{srv.port}", url_scheme="http",
                                                credentials=AnonymousCredentials())
            client = R.locate(o["client"])(transport=transport)
            objs = _prep(o)
            for call in o["calls"]:
                start = len(srv.log)
                try:
                    getattr(client, call["method"])(**_kw(call, objs))
                    res = {"ok": True}
                except BaseException as e:  # noqa
                    res = {"raised": R.exc_name(e), "msg": str(e)[:300], "trace": traceback.format_exc()[-600:]}
                res["server"] = srv.log[start:]
                res["after"] = _after(call, objs)
                results.append(res)
        finally:
            srv.stop()
        return {"calls": results}
    import grpc
    srv = R.GrpcLoopback(None)
    try:
        if kind == "sync":
            ch = grpc.insecure_channel(f"127.0.0.1:{srv.port}")
            transport = R.locate(o["transport"])(channel=ch)
            client = R.locate(o["client"])(transport=transport)
            objs = _prep(o)
            for call in o["calls"]:
                start = len(srv.log)
                try:
                    getattr(client, call["method"])(**_kw(call, objs))
                    res = {"ok": True}
                except BaseException as e:  # noqa
                    res = {"raised": R.exc_name(e), "msg": str(e)[:300], "trace": traceback.format_exc()[-600:]}
                res["server"] = srv.log[start:]
                res["after"] = _after(call, objs)
                results.append(res)
            ch.close()
        elif kind == "asyncio":
            async def main():
                ch = grpc.aio.insecure_channel(f"127.0.0.1:{srv.port}")
                transport = R.locate(o["transport"])(channel=ch)
                client = R.locate(o["client"])(transport=transport)
                objs = _prep(o)
                for call in o["calls"]:
                    start = len(srv.log)
                    try:
                        ret = getattr(client, call["method"])(**_kw(call, objs))
                        for _ in range(3):
                            if asyncio.iscoroutine(ret) or hasattr(ret, "__await__"):
                                ret = await ret
                        res = {"ok": True}
                    except BaseException as e:  # noqa
                        res = {"raised": R.exc_name(e), "msg": str(e)[:300], "trace": traceback.format_exc()[-600:]}
                    res["server"] = srv.log[start:]
                    res["after"] = _after(call, objs)
                    results.append(res)
                await ch.close()
            asyncio.run(main())
        else:
            raise ValueError(kind)
    finally:
        srv.stop()
    return {"calls": results}


OPS = {"c18_session": op_c18_session}
