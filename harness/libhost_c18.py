"""C18 sessions for libhost_child (T3): emitted clients (sync gRPC | asyncio gRPC | REST | rest_asyncio) against one
loopback server, a store of caller-owned request objects that live for the whole session (so that passing
object i twice passes the SAME Python object twice, possibly to two different clients), and a list of calls.
Runs INSIDE the child.

op: {"op": "c18_session", "kind": "sync"|"asyncio"|"rest"|"rest_asyncio", "client": "mod:Cls", "transport": "mod:Cls",
     "clients": 1|2,
     "objects": [{"py_request": "mod:Cls", "values": {field: literal}}            # built as Cls(**values): what a caller writes
                 | {"py_request": "mod:Cls", "b64": …}],                          # (legacy) rebuilt from bytes
     "calls": [{"method": snake_name, "mode": "inst"|"dict"|"kwargs"|"none", "obj": i, "kwargs": {param: str},
                "client": 0|1, "consume": "value"|"pager",
                "script_grpc": {path: [behaviour…]}, "script_rest": [behaviour…]}]}
result: {"calls": [{"ok": true | "raised": …, "server": [records], "after": the caller's object i after the call}]}
"""
import asyncio, traceback
import libhost_rpc as R


def _prep(o):
    objs = []
    for ob in o["objects"]:
        cls = R.locate(ob["py_request"])
        if "values" in ob:
            objs.append((cls, dict(ob["values"]), cls(**ob["values"])))
        else:
            data = R.unb64(ob["b64"])
            objs.append((cls, R.make_dict(cls, data), R.make_instance(cls, data)))
    return objs


def _kw(call, objs):
    mode = call["mode"]
    if mode == "none":
        return {}
    if mode == "kwargs":
        return dict(call.get("kwargs") or {})
    cls, values, inst = objs[call["obj"]]
    if mode == "inst":
        return {"request": inst}
    if mode == "dict":
        return {"request": dict(values)}      # a new literal dict per call
    raise ValueError(mode)


def _after(call, objs):
    if call["mode"] in ("none",):
        return None
    cls, values, inst = objs[call["obj"]]
    try:
        if not hasattr(cls, "to_dict"):
            # a plain protobuf class (request message of another package: no proto-plus wrapper)
            from google.protobuf import json_format
            return json_format.MessageToDict(inst, preserving_proto_field_name=True, use_integers_for_enums=True)
        return cls.to_dict(inst, use_integers_for_enums=True)
    except BaseException as e:  # noqa
        return {"raised": R.exc_name(e)}


def _install_script(kind, srv, call):
    if kind in ("rest", "rest_asyncio"):
        if call.get("script_rest") is not None:
            srv.script[:] = list(call["script_rest"])
    elif call.get("script_grpc"):
        with srv.lock:
            for p, q in call["script_grpc"].items():
                srv.script[p] = list(q)


def _sync_calls(o, kind, srv, clients, results):
    objs = _prep(o)
    for call in o["calls"]:
        start = len(srv.log)
        _install_script(kind, srv, call)
        try:
            ret = getattr(clients[call.get("client", 0) % len(clients)], call["method"])(**_kw(call, objs))
            if call.get("consume") == "pager":
                for _ in ret:
                    pass
            res = {"ok": True}
        except BaseException as e:  # noqa
            res = {"raised": R.exc_name(e), "msg": str(e)[:300], "trace": traceback.format_exc()[-800:]}
        res["server"] = srv.log[start:]
        res["after"] = _after(call, objs)
        results.append(res)


async def _async_calls(o, kind, srv, clients, results):
    objs = _prep(o)
    for call in o["calls"]:
        start = len(srv.log)
        _install_script(kind, srv, call)
        try:
            ret = getattr(clients[call.get("client", 0) % len(clients)], call["method"])(**_kw(call, objs))
            for _ in range(3):
                if asyncio.iscoroutine(ret) or hasattr(ret, "__await__"):
                    ret = await ret
            if call.get("consume") == "pager":
                async for _ in ret:
                    pass
            res = {"ok": True}
        except BaseException as e:  # noqa
            res = {"raised": R.exc_name(e), "msg": str(e)[:300], "trace": traceback.format_exc()[-800:]}
        res["server"] = srv.log[start:]
        res["after"] = _after(call, objs)
        results.append(res)


def op_c18_session(o):
    kind = o["kind"]
    n = int(o.get("clients", 1))
    results = []
    if kind == "rest":
        from google.auth.credentials import AnonymousCredentials
        srv = R.HttpLoopback(None)
        try:
            clients = []
            for _ in range(n):
                transport = R.locate(o["transport"])(host=f"127.0.0.1:{srv.port}", url_scheme="http",
                                                    credentials=AnonymousCredentials())
                clients.append(R.locate(o["client"])(transport=transport))
            _sync_calls(o, kind, srv, clients, results)
        finally:
            srv.stop()
        return {"calls": results}
    if kind == "rest_asyncio":
        from google.auth.aio.credentials import AnonymousCredentials as AioAnonymousCredentials
        srv = R.HttpLoopback(None)
        try:
            async def main():
                clients, transports = [], []
                for _ in range(n):
                    transport = R.locate(o["transport"])(host=f"127.0.0.1:{srv.port}", url_scheme="http",
                                                        credentials=AioAnonymousCredentials())
                    transports.append(transport)
                    clients.append(R.locate(o["client"])(transport=transport))
                await _async_calls(o, kind, srv, clients, results)
                for t in transports:
                    try:
                        await t.close()
                    except BaseException:  # noqa
                        pass
            asyncio.run(main())
        finally:
            srv.stop()
        return {"calls": results}
    import grpc
    srv = R.GrpcLoopback(None)
    try:
        if kind == "sync":
            chans, clients = [], []
            for _ in range(n):
                ch = grpc.insecure_channel(f"127.0.0.1:{srv.port}")
                chans.append(ch)
                clients.append(R.locate(o["client"])(transport=R.locate(o["transport"])(channel=ch)))
            _sync_calls(o, kind, srv, clients, results)
            for ch in chans:
                ch.close()
        elif kind == "asyncio":
            async def main():
                chans, clients = [], []
                for _ in range(n):
                    ch = grpc.aio.insecure_channel(f"127.0.0.1:{srv.port}")
                    chans.append(ch)
                    clients.append(R.locate(o["client"])(transport=R.locate(o["transport"])(channel=ch)))
                await _async_calls(o, kind, srv, clients, results)
                for ch in chans:
                    await ch.close()
            asyncio.run(main())
        else:
            raise ValueError(kind)
    finally:
        srv.stop()
    return {"calls": results}


OPS = {"c18_session": op_c18_session}
