"""C19 op for libhost_child: every path helper observed FOUR ways — sync client class, sync client INSTANCE, async client
class, async client INSTANCE (clients built with anonymous credentials, no server) — each with positional and with keyword
arguments.  Runs INSIDE the child."""
import asyncio, importlib


def exc_name(e):
    return type(e).__name__


def _call(fn, *a, **kw):
    try:
        return {"value": fn(*a, **kw)}
    except BaseException as e:  # noqa
        return {"raised": exc_name(e), "msg": str(e)[:200]}


def _observe(recv, helpers):
    out = []
    for h in helpers:
        ent = {}
        for style in ("positional", "keyword"):
            try:
                build, parse = getattr(recv, h["name"] + "_path"), getattr(recv, "parse_" + h["name"] + "_path")
            except AttributeError as e:
                ent[style] = {"built": {"raised": "AttributeError", "msg": str(e)[:200]}, "parsed": None, "nonmatching": []}
                continue
            b = _call(build, *h["values"]) if style == "positional" else _call(build, **dict(zip(h["args"], h["values"])))
            p = None
            if "value" in b:
                p = _call(parse, b["value"]) if style == "positional" else _call(parse, path=b["value"])
            nm = [(_call(parse, s) if style == "positional" else _call(parse, path=s)) for s in h.get("nonmatching", [])]
            # rebuilding from what parse returned, the way a caller writes it: build(**parse(path))
            rb = _call(build, **p["value"]) if (p is not None and isinstance(p.get("value"), dict)) else None
            ent[style] = {"built": b, "parsed": p, "nonmatching": nm, "rebuilt": rb}
        out.append(ent)
    return out


def op_c19_helpers(o):
    """{"module", "client", "async_client", "helpers": [{"name", "args", "values", "nonmatching"}]} ->
    {"sync-class": [...], "sync-instance": [...], "async-class": [...], "async-instance": [...]} (aligned with helpers),
    or {"<receiver>": {"raised": ...}} when a client cannot be constructed."""
    M = importlib.import_module(o["module"])
    from google.auth.credentials import AnonymousCredentials
    C, A = getattr(M, o["client"]), getattr(M, o["async_client"])
    out = {"sync-class": _observe(C, o["helpers"]), "async-class": _observe(A, o["helpers"])}
    try:
        out["sync-instance"] = _observe(C(credentials=AnonymousCredentials()), o["helpers"])
    except BaseException as e:  # noqa
        out["sync-instance"] = {"raised": exc_name(e), "msg": str(e)[:300]}

    async def main():
        return _observe(A(credentials=AnonymousCredentials()), o["helpers"])
    try:
        out["async-instance"] = asyncio.run(main())
    except BaseException as e:  # noqa
        out["async-instance"] = {"raised": exc_name(e), "msg": str(e)[:300]}
    return out


OPS = {"c19_helpers": op_c19_helpers}
