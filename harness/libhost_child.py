"""Child: import an emitted package and execute an op script.  argv[1] = library root.
stdin = JSON list of ops; stdout ends with "\n@@RESULT@@" + JSON list of results."""
import importlib, inspect, json, pkgutil, sys, traceback

import os
root = sys.argv[1]
sys.path.insert(0, os.path.dirname(os.path.abspath(__file__)))
sys.path.insert(0, root)


def exc_name(e):
    return type(e).__name__


def op_import_all(o):
    mod = o["package"]
    out = {"modules": [], "errors": []}
    try:
        M = importlib.import_module(mod)
    except BaseException as e:  # noqa
        return {"modules": [], "errors": [[mod, exc_name(e), str(e)[:300]]]}
    out["modules"].append(mod)
    out["all"] = sorted(getattr(M, "__all__", []))

    def onerr(name):
        et, ev, _ = sys.exc_info()
        out["errors"].append([name, et.__name__ if et else "?", str(ev)[:300]])
    for m in pkgutil.walk_packages(M.__path__, mod + ".", onerror=onerr):
        try:
            importlib.import_module(m.name)
            out["modules"].append(m.name)
        except BaseException as e:  # noqa
            out["errors"].append([m.name, exc_name(e), str(e)[:300]])
    return out


def _resolve(o):
    M = importlib.import_module(o["module"])
    obj = M
    for part in o["attr"].split("."):
        obj = getattr(obj, part)
    return obj


def op_call(o):
    """call a plain callable (static method, function) with JSON args"""
    try:
        fn = _resolve(o)
        return {"value": fn(*o.get("args", []), **o.get("kwargs", {}))}
    except BaseException as e:  # noqa
        return {"raised": exc_name(e), "msg": str(e)[:300]}


def op_dir(o):
    try:
        obj = _resolve(o)
        return {"names": sorted(n for n in dir(obj) if not n.startswith("__"))}
    except BaseException as e:  # noqa
        return {"raised": exc_name(e), "msg": str(e)[:300]}


def op_signature(o):
    try:
        fn = _resolve(o)
        sig = inspect.signature(fn)
        return {"params": [[p.name, str(p.kind), None if p.default is inspect._empty else repr(p.default)]
                           for p in sig.parameters.values()], "doc": inspect.getdoc(fn),
                "coroutine": bool(inspect.iscoroutinefunction(fn))}
    except BaseException as e:  # noqa
        return {"raised": exc_name(e), "msg": str(e)[:300]}


def op_registry(o):
    try:
        cls = _resolve(o)
        reg = getattr(cls, "_transport_registry", None)
        keys = list(reg.keys()) if reg is not None else None
        default = None
        try:
            default = cls.get_transport_class().__name__
        except BaseException as e:  # noqa
            default = "raised:" + exc_name(e)
        by_label = {}
        for k in (keys or []):
            try:
                by_label[k] = cls.get_transport_class(k).__name__
            except BaseException as e:  # noqa
                by_label[k] = "raised:" + exc_name(e)
        return {"keys": keys, "default": default, "classes": by_label}
    except BaseException as e:  # noqa
        return {"raised": exc_name(e), "msg": str(e)[:300]}


OPS = {"import_all": op_import_all, "call": op_call, "dir": op_dir, "signature": op_signature,
       "registry": op_registry}

try:
    import libhost_rpc  # loopback gRPC / HTTP ops (same directory)
    OPS.update(libhost_rpc.OPS)
except ImportError:
    pass

try:
    import libhost_types  # C02: run-time descriptors of the emitted proto-plus classes + round trips
    OPS.update(libhost_types.OPS)
except ImportError:
    pass

try:
    import libhost_c16  # C16: classes defined by the emitted types package, client surfaces
    OPS.update(libhost_c16.OPS)
except ImportError:
    pass

try:
    import libhost_c18  # C18: sessions with caller-owned request objects that persist across calls
    OPS.update(libhost_c18.OPS)
except ImportError:
    pass

try:
    import libhost_c05  # C05: calls whose flattened arguments / requests are literals a caller writes; repeated with the same objects
    OPS.update(libhost_c05.OPS)
except ImportError:
    pass

try:
    import libhost_c09  # C09: `_wrapped_methods` table of any transport (incl. rest_asyncio), by property name
    OPS.update(libhost_c09.OPS)
except ImportError:
    pass

try:
    import libhost_c15  # C15: run the emitted keyword fix-up transformer on source text
    OPS.update(libhost_c15.OPS)
except ImportError:
    pass

try:
    import libhost_c08  # C08: LRO futures used as objects (programs of metadata/done/cancel/result), name-keyed GetOperation server
    OPS.update(libhost_c08.OPS)
except ImportError:
    pass

try:
    import libhost_c06  # C06: the emitted async client over the emitted asyncio REST transport, same call format as rest_session
    OPS.update(libhost_c06.OPS)
except ImportError:
    pass

try:
    import libhost_c07  # C07: pagers used as objects (programs over `pages` / `__iter__` generators), caller's request before/after
    OPS.update(libhost_c07.OPS)
except ImportError:
    pass

try:
    import libhost_c19  # C19: every path helper on the sync/async client CLASS and INSTANCE, positional and keyword arguments
    OPS.update(libhost_c19.OPS)
except ImportError:
    pass


def main():
    ops = json.loads(sys.stdin.read())
    results = []
    for o in ops:
        try:
            results.append(OPS[o["op"]](o))
        except BaseException as e:  # noqa
            results.append({"op_error": exc_name(e), "trace": traceback.format_exc()[-1500:]})
    sys.stdout.write("\n@@RESULT@@" + json.dumps(results, default=repr))


if __name__ == "__main__":
    main()
