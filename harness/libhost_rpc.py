"""Loopback gRPC / HTTP sessions for libhost_child (T3).  Runs INSIDE the child interpreter.

A *session* = one emitted client (sync gRPC | asyncio gRPC | REST) against one loopback server.
The server is scripted per RPC path and records what it saw (raw bytes, metadata, deadline); the
channel is instrumented to record which stub kind (arity) the emitted transport asked for.
All payloads cross the process boundary as base64 bytes + proto full names; decoding under the
INPUT descriptors happens in the parent."""
import asyncio, base64, importlib, json, threading, time, traceback
from concurrent import futures


def b64(b):
    return base64.b64encode(b).decode()


def unb64(s):
    return base64.b64decode(s)


def exc_name(e):
    return type(e).__name__


def locate(spec):
    mod, _, qual = spec.partition(":")
    obj = importlib.import_module(mod)
    for part in qual.split("."):
        obj = getattr(obj, part)
    return obj


# ------------------------------------------------------------------ message helpers

def is_protoplus(x):
    t = type(x)
    return hasattr(t, "pb") and hasattr(t, "serialize") and hasattr(t, "meta")


def canon_msg(x):
    if x is None:
        return {"kind": "none"}
    if is_protoplus(x):
        t = type(x)
        return {"kind": "message", "type": t.pb(x).DESCRIPTOR.full_name, "b64": b64(t.serialize(x)), "py": t.__module__ + ":" + t.__qualname__, "plus": True}
    if hasattr(x, "SerializeToString") and hasattr(x, "DESCRIPTOR"):
        return {"kind": "message", "type": x.DESCRIPTOR.full_name, "b64": b64(x.SerializeToString()), "py": type(x).__module__ + ":" + type(x).__qualname__, "plus": False}
    if isinstance(x, (str, int, float, bool)):
        return {"kind": "scalar", "value": x}
    if isinstance(x, bytes):
        return {"kind": "bytes", "b64": b64(x)}
    if isinstance(x, tuple) and len(x) == 2:     # map pager items
        return {"kind": "pair", "key": canon_msg(x[0]), "value": canon_msg(x[1])}
    return {"kind": "other", "repr": repr(x)[:200], "pytype": type(x).__name__}


def make_instance(cls, data):
    if hasattr(cls, "deserialize") and hasattr(cls, "meta"):
        return cls.deserialize(data)
    m = cls()
    m.ParseFromString(data)
    return m


def make_dict(cls, data):
    inst = make_instance(cls, data)
    if hasattr(cls, "to_dict") and hasattr(cls, "meta"):
        return cls.to_dict(inst, use_integers_for_enums=True, including_default_value_fields=False) \
            if _supports(cls.to_dict, "including_default_value_fields") else cls.to_dict(inst, use_integers_for_enums=True)
    # a plain protobuf request class (request of another package) is built with `Cls(**request)`: the dict a caller writes holds
    # native python values — the JSON mapping (64-bit integers as strings, bytes as base64) is not what a caller would pass
    return make_native_dict(cls, data)


def make_native_dict(cls, data):
    """(C03) the mapping a caller would write by hand: proto field names -> native python values
    (ints, bytes, enum numbers, nested dicts/lists); only fields that are present."""
    inst = make_instance(cls, data)
    pb = cls.pb(inst) if (hasattr(cls, "pb") and hasattr(cls, "meta")) else inst

    plus = pb is not inst

    def val(fd, v, in_map=False):
        if fd.message_type is not None:
            if in_map and not plus:      # protobuf constructors want message INSTANCES as map values
                c = type(v)()
                c.CopyFrom(v)
                return c
            return conv(v)
        return v

    def conv(m):
        out = {}
        for fd, v in m.ListFields():
            if fd.message_type is not None and fd.message_type.GetOptions().map_entry:
                vf = fd.message_type.fields_by_name["value"]
                out[fd.name] = {k: val(vf, x, True) for k, x in v.items()}
            elif fd.label == fd.LABEL_REPEATED:
                out[fd.name] = [val(fd, x) for x in v]
            else:
                out[fd.name] = val(fd, v)
        return out
    return conv(pb)


def _supports(fn, kw):
    import inspect
    try:
        return kw in inspect.signature(fn).parameters
    except (TypeError, ValueError):
        return False


def getpath(obj, path):
    for p in path.split("."):
        obj = getattr(obj, p)
    return obj

# ------------------------------------------------------------------ gRPC loopback server


class GrpcLoopback:
    def __init__(self, script):
        import grpc
        self.grpc = grpc
        self.script = {k: list(v) for k, v in (script or {}).items()}
        self.log = []
        self.lock = threading.Lock()
        outer = self

        class Handler(grpc.GenericRpcHandler):
            def service(self, details):
                path = details.method
                md = [[k, v if isinstance(v, str) else b64(v)] for k, v in (details.invocation_metadata or [])]

                def behave(request_iterator, context):
                    reqs = [r for r in request_iterator]
                    with outer.lock:
                        q = outer.script.get(path) or []
                        beh = q.pop(0) if q else {"code": "OK", "replies": None}
                        rec = {"path": path, "requests": [b64(r) for r in reqs], "metadata": md,
                               "time_remaining": context.time_remaining(), "behaviour": beh.get("tag")}
                        outer.log.append(rec)
                    code = beh.get("code", "OK")
                    if code != "OK":
                        context.abort(getattr(grpc.StatusCode, code), beh.get("details", "scripted"))
                    replies = beh.get("replies")
                    if replies is None:
                        replies = [""]          # one empty message
                    for r in replies:
                        yield unb64(r)
                return grpc.stream_stream_rpc_method_handler(behave)   # raw bytes both ways

        self.server = grpc.server(futures.ThreadPoolExecutor(max_workers=8))
        self.server.add_generic_rpc_handlers((Handler(),))
        self.port = self.server.add_insecure_port("127.0.0.1:0")
        self.server.start()

    def stop(self):
        self.server.stop(0)


def _record_timeouts(mc, path, sink):
    """(C09) make a grpc multicallable record the `timeout=` each invocation carries (client side, exact).  The object
    keeps its identity and its type's bases (api-core dispatches on isinstance(…, grpc.UnaryStreamMultiCallable)):
    its class is swapped for a layout-compatible subclass overriding __call__/with_call/future."""
    base = type(mc)

    def rec(a, kw):
        sink.append([path, kw["timeout"] if "timeout" in kw else (a[1] if len(a) > 1 else None)])

    def make(name):
        orig = getattr(base, name)

        def f(self, *a, **kw):
            rec(a, kw)
            return orig(self, *a, **kw)
        return f
    ns = {"__slots__": ()}
    for name in ("__call__", "with_call", "future"):
        if hasattr(base, name):
            ns[name] = make(name)
    try:
        mc.__class__ = type(base.__name__, (base,), ns)
    except TypeError:
        sink.append([path, "unrecordable:" + base.__name__])
    return mc


def instrument(channel, kinds, timeouts=None):
    """`timeouts` (C09, optional): a list; when given every multicallable appends `[path, timeout]` per invocation"""
    for kind in ("unary_unary", "unary_stream", "stream_unary", "stream_stream"):
        orig = getattr(channel, kind)

        def wrapper(path, *a, _orig=orig, _kind=kind, **kw):
            ser = kw.get("request_serializer", a[0] if len(a) > 0 else None)      # (C03) grpc._interceptor passes them positionally
            des = kw.get("response_deserializer", a[1] if len(a) > 1 else None)
            kinds.append([path if isinstance(path, str) else path.decode(), _kind,
                          getattr(ser, "__qualname__", repr(ser))[:80],
                          getattr(des, "__qualname__", repr(des))[:80]])
            mc = _orig(path, *a, **kw)
            if timeouts is not None:
                return _record_timeouts(mc, path if isinstance(path, str) else path.decode(), timeouts)
            return mc
        setattr(channel, kind, wrapper)

# ------------------------------------------------------------------ sleep interception (C09)


class SleepTrap:
    """records the sleeps api-core's retry asks for, without sleeping.
    (C09, additive) `install(virtual_clock=True)`: a trapped sleep ADVANCES a virtual clock that api-core's
    retry deadline (`time.monotonic` in retry_base / retry_unary / retry_unary_async) and
    `TimeToDeadlineTimeout`'s clock read, so cumulative back-off counts against deadlines exactly as real
    sleeping would.  `install(jitter=f)`: `random.uniform(a, b)` inside `exponential_sleep_generator`
    returns `a + f*(b-a)` (f = 1.0: every sleep is its upper bound)."""

    def __init__(self):
        self.sleeps = []
        self.offset = 0.0

    def install(self, virtual_clock=False, jitter=None):
        import google.api_core.retry.retry_unary as ru
        import google.api_core.retry.retry_unary_async as rua
        trap = self

        class _T:
            def __getattr__(self, n):
                return getattr(time, n)

            @staticmethod
            def sleep(s):
                trap.sleeps.append(s)
                if virtual_clock:
                    trap.offset += s

            @staticmethod
            def monotonic():
                return time.monotonic() + trap.offset
        ru.time = _T()

        class _A:
            def __getattr__(self, n):
                return getattr(asyncio, n)

            @staticmethod
            async def sleep(s):
                trap.sleeps.append(s)
                if virtual_clock:
                    trap.offset += s
        rua.asyncio = _A()
        # every clock api-core reads goes through THIS trap (offset stays 0.0 unless virtual_clock), so that
        # sessions with and without a virtual clock can follow each other in one interpreter
        import datetime
        import random as _random
        import google.api_core.retry.retry_base as rb
        from google.api_core import timeout as _timeout, datetime_helpers
        rb.time = _T()
        rua.time = _T()

        def vclock():
            return datetime_helpers.utcnow() + datetime.timedelta(seconds=trap.offset)
        _timeout.TimeToDeadlineTimeout.__init__.__defaults__ = (None, vclock)

        class _R:
            def __getattr__(self, n):
                return getattr(_random, n)

            @staticmethod
            def uniform(a, b):
                return _random.uniform(a, b) if jitter is None else a + jitter * (b - a)
        rb.random = _R()

# ------------------------------------------------------------------ calls


def build_args(call):
    """positional/keyword arguments for the emitted client method"""
    mode = call.get("mode", "request-instance")
    kw = {}
    args = []
    req_cls = locate(call["py_request"]) if call.get("py_request") else None
    if mode in ("request-instance", "mixed"):
        kw["request"] = make_instance(req_cls, unb64(call["request_b64"]))
    elif mode == "request-dict":
        kw["request"] = make_dict(req_cls, unb64(call["request_b64"]))
    elif mode == "request-native-dict":          # (C03)
        kw["request"] = make_native_dict(req_cls, unb64(call["request_b64"]))
    elif mode == "request-literal-dict":         # (C12) the dict a caller writes by hand, NOT derived from bytes through the generated class
        kw["request"] = call["request_literal"]  # (a wrongly bound field type cannot hide in unknown fields)
    elif mode == "request-tagged-literal":       # (C03) literal built by the PARENT under the input descriptors; tags carry what JSON cannot
        kw["request"] = untag_literal(call["request_literal"])
    elif mode == "request-none":
        pass
    if mode in ("kwargs", "mixed"):
        full = make_instance(req_cls, unb64(call["request_b64"]))
        for param, attrpath in call.get("kwargs", []):
            kw[param] = getpath(full, attrpath)
            if call.get("plain_containers"):       # (C05) what a caller writes: a list / dict, not the wrapper view
                import collections.abc as _abc
                v = kw[param]
                if isinstance(v, _abc.Mapping):
                    kw[param] = dict(v)
                elif isinstance(v, _abc.Sequence) and not isinstance(v, (str, bytes)):
                    kw[param] = list(v)
    if call.get("stream_requests") is not None:
        items = [make_instance(req_cls, unb64(b)) for b in call["stream_requests"]]
        kw.pop("request", None)
        kw["requests"] = iter(items)
    ck = call.get("call_kwargs", {})
    if "timeout" in ck:
        kw["timeout"] = ck["timeout"]
    if ck.get("retry") == "none":
        kw["retry"] = None
    elif isinstance(ck.get("retry"), dict):
        from google.api_core import retry as retries, exceptions as core_exceptions
        r = ck["retry"]
        pred = retries.if_exception_type(*[getattr(core_exceptions, n) for n in r.get("exceptions", [])])
        rcls = retries.AsyncRetry if r.get("async") else retries.Retry          # (C09) async clients need AsyncRetry
        kw["retry"] = rcls(predicate=pred, initial=r.get("initial", 0.1), maximum=r.get("maximum", 1.0),
                           multiplier=r.get("multiplier", 2.0), timeout=r.get("deadline", 10.0))
    if "metadata" in ck:
        kw["metadata"] = [tuple(x) for x in ck["metadata"]]
    if call.get("positional"):                   # (C03) `client.method(request)` instead of `client.method(request=request)`
        for name in ("request", "requests"):
            if name in kw:
                args.append(kw.pop(name))
                break
    return args, kw


def untag_literal(x):
    """(C03) {"@b": base64} -> bytes; {"@map": [[k, v], …]} -> dict with native (int/bool/str) keys;
    {"@pb": "module:Class", "b64": …} -> a protobuf message instance (map values of protobuf classes)"""
    if isinstance(x, dict):
        if set(x) == {"@b"}:
            return unb64(x["@b"])
        if set(x) == {"@map"}:
            return {untag_literal(k): untag_literal(v) for k, v in x["@map"]}
        if "@pb" in x:
            return make_instance(locate(x["@pb"]), unb64(x["b64"]))
        return {k: untag_literal(v) for k, v in x.items()}
    if isinstance(x, list):
        return [untag_literal(v) for v in x]
    return x


def consume_sync(ret, how):
    if how == "auto":        # (C03) whatever came back: None, a message, or an iterable of messages
        if ret is None or is_protoplus(ret) or hasattr(ret, "SerializeToString"):
            return canon_msg(ret)
        if hasattr(ret, "__iter__") or hasattr(ret, "__next__"):
            return {"kind": "stream", "items": [canon_msg(x) for x in ret]}
        return canon_msg(ret)
    if how == "value":
        return canon_msg(ret)
    if how == "stream":
        return {"kind": "stream", "items": [canon_msg(x) for x in ret]}
    if how == "pager":
        items = [canon_msg(x) for x in ret]
        attrs = {}
        for a in ("next_page_token",):
            try:
                attrs[a] = getattr(ret, a)
            except BaseException as e:  # noqa
                attrs[a] = "raised:" + exc_name(e)
        return {"kind": "pager", "items": items, "attrs": attrs, "pytype": type(ret).__name__,
                "last": canon_msg(getattr(ret, "_response", None))}
    if how == "pages":
        pages = [canon_msg(p) for p in ret.pages]
        return {"kind": "pages", "pages": pages, "pytype": type(ret).__name__}
    if how == "lro":
        out = {"kind": "lro", "pytype": type(ret).__name__}
        try:
            out["metadata_before"] = canon_msg(ret.metadata)
        except BaseException as e:  # noqa
            out["metadata_before"] = {"raised": exc_name(e)}
        try:
            out["result"] = canon_msg(ret.result(timeout=20))
        except BaseException as e:  # noqa
            out["result"] = {"raised": exc_name(e), "msg": str(e)[:200]}
        try:
            out["metadata"] = canon_msg(ret.metadata)
        except BaseException as e:  # noqa
            out["metadata"] = {"raised": exc_name(e)}
        return out
    raise ValueError(how)


async def consume_async(ret, how):
    if how == "auto":        # (C03)
        if ret is None or is_protoplus(ret) or hasattr(ret, "SerializeToString"):
            return canon_msg(ret)
        if hasattr(ret, "__aiter__"):
            return {"kind": "stream", "items": [canon_msg(x) async for x in ret]}
        return canon_msg(ret)
    if how == "value":
        return canon_msg(ret)
    if how == "stream":
        return {"kind": "stream", "items": [canon_msg(x) async for x in ret]}
    if how == "pager":
        items = [canon_msg(x) async for x in ret]
        attrs = {}
        try:
            attrs["next_page_token"] = ret.next_page_token
        except BaseException as e:  # noqa
            attrs["next_page_token"] = "raised:" + exc_name(e)
        return {"kind": "pager", "items": items, "attrs": attrs, "pytype": type(ret).__name__,
                "last": canon_msg(getattr(ret, "_response", None))}
    if how == "pages":
        pages = [canon_msg(p) async for p in ret.pages]
        return {"kind": "pages", "pages": pages, "pytype": type(ret).__name__}
    if how == "lro":
        out = {"kind": "lro", "pytype": type(ret).__name__}
        try:
            out["result"] = canon_msg(await ret.result(timeout=20))
        except BaseException as e:  # noqa
            out["result"] = {"raised": exc_name(e), "msg": str(e)[:200]}
        try:
            out["metadata"] = canon_msg(ret.metadata)
        except BaseException as e:  # noqa
            out["metadata"] = {"raised": exc_name(e)}
        return out
    raise ValueError(how)


def _slice(log, start):
    return log[start:]


def _debug_loggers(o):
    """(C03, additive) runtime configuration of the caller's process: the named loggers (e.g. the emitted library's top-level
    package) are enabled for DEBUG before the client is created; records go to a NullHandler and do not propagate"""
    import logging
    for name in o.get("debug_loggers") or []:
        lg = logging.getLogger(name)
        if not any(isinstance(h, logging.NullHandler) for h in lg.handlers):
            lg.addHandler(logging.NullHandler())
        lg.propagate = False
        lg.setLevel(logging.DEBUG)


def op_grpc_session(o):
    """{"client": "pkg:Client", "transport": "pkg.services.x.transports:XGrpcTransport", "async": false,
        "script": {path: [behaviour…]}, "calls": [...], "trap_sleep": bool}"""
    import grpc
    _debug_loggers(o)
    srv = GrpcLoopback(o.get("script"))
    kinds = []
    tmo = [] if o.get("record_timeouts") else None      # (C09) client-side per-invocation timeouts
    trap = SleepTrap()
    if o.get("trap_sleep"):
        trap.install(virtual_clock=bool(o.get("virtual_clock")), jitter=o.get("jitter"))     # (C09) optional extras
    results = []
    try:
        if not o.get("async"):
            ch = grpc.insecure_channel(f"127.0.0.1:{srv.port}")
            instrument(ch, kinds, tmo)
            transport = locate(o["transport"])(channel=ch)
            client = locate(o["client"])(transport=transport)
            for call in o["calls"]:
                start, k0, s0 = len(srv.log), len(kinds), len(trap.sleeps)
                t0_ = len(tmo) if tmo is not None else 0
                w0_ = time.monotonic()          # (C09) real time the call took
                if call.get("script"):
                    with srv.lock:
                        for p, q in call["script"].items():
                            srv.script[p] = list(q)      # a call's script replaces what earlier calls left over
                try:
                    args, kw = build_args(call)
                    rb = bool(kw["request"]) if call.get("probe_bool") and kw.get("request") is not None else None   # (C03)
                    ret = getattr(client, call["method"])(*args, **kw)
                    res = {"ok": consume_sync(ret, call.get("consume", "value"))}
                    if rb is not None:
                        res["request_bool"] = rb
                    if call.get("again_same_args"):      # (C07) a second call with the SAME argument objects (programs, not single calls)
                        mid = len(srv.log)
                        if call.get("script"):
                            with srv.lock:
                                for p, q in call["script"].items():
                                    srv.script[p] = list(q)
                        try:
                            ret2 = getattr(client, call["method"])(*args, **kw)
                            res["again"] = {"ok": consume_sync(ret2, call.get("consume", "value"))}
                        except BaseException as e:  # noqa
                            res["again"] = {"raised": exc_name(e), "msg": str(e)[:300]}
                        res["again"]["server"] = _slice(srv.log, mid)
                        res["server_first"] = srv.log[start:mid]
                except BaseException as e:  # noqa
                    res = {"raised": exc_name(e), "msg": str(e)[:300], "trace": traceback.format_exc()[-600:]}
                res["server"] = res.pop("server_first", None) or _slice(srv.log, start)
                res["stubs"] = kinds[k0:]
                res["sleeps"] = trap.sleeps[s0:]
                if tmo is not None:
                    res["timeouts"] = tmo[t0_:]
                res["wall_s"] = time.monotonic() - w0_
                results.append(res)
            ch.close()
        else:
            async def main():
                ch = grpc.aio.insecure_channel(f"127.0.0.1:{srv.port}")
                instrument(ch, kinds, tmo)
                transport = locate(o["transport"])(channel=ch)
                client = locate(o["client"])(transport=transport)
                for call in o["calls"]:
                    start, k0, s0 = len(srv.log), len(kinds), len(trap.sleeps)
                    t0_ = len(tmo) if tmo is not None else 0
                    w0_ = time.monotonic()          # (C09) real time the call took
                    if call.get("script"):
                        with srv.lock:
                            for p, q in call["script"].items():
                                srv.script[p] = list(q)      # a call's script replaces what earlier calls left over
                    try:
                        args, kw = build_args(call)
                        if "requests" in kw:
                            items = list(kw["requests"])

                            async def agen(items=items):
                                for it in items:
                                    yield it
                            kw["requests"] = agen()
                        rb = bool(kw["request"]) if call.get("probe_bool") and kw.get("request") is not None else None   # (C03)
                        ret = getattr(client, call["method"])(*args, **kw)
                        for _ in range(3):      # client-streaming async methods need a double await
                            if asyncio.iscoroutine(ret) or hasattr(ret, "__await__"):
                                ret = await ret
                        res = {"ok": await consume_async(ret, call.get("consume", "value"))}
                        if rb is not None:
                            res["request_bool"] = rb
                        if call.get("again_same_args") and "requests" not in kw:      # (C07)
                            mid = len(srv.log)
                            if call.get("script"):
                                with srv.lock:
                                    for p, q in call["script"].items():
                                        srv.script[p] = list(q)
                            try:
                                ret2 = getattr(client, call["method"])(*args, **kw)
                                for _ in range(3):
                                    if asyncio.iscoroutine(ret2) or hasattr(ret2, "__await__"):
                                        ret2 = await ret2
                                res["again"] = {"ok": await consume_async(ret2, call.get("consume", "value"))}
                            except BaseException as e:  # noqa
                                res["again"] = {"raised": exc_name(e), "msg": str(e)[:300]}
                            res["again"]["server"] = _slice(srv.log, mid)
                            res["server_first"] = srv.log[start:mid]
                    except BaseException as e:  # noqa
                        res = {"raised": exc_name(e), "msg": str(e)[:300], "trace": traceback.format_exc()[-600:]}
                    res["server"] = res.pop("server_first", None) or _slice(srv.log, start)
                    res["stubs"] = kinds[k0:]
                    res["sleeps"] = trap.sleeps[s0:]
                    if tmo is not None:
                        res["timeouts"] = tmo[t0_:]
                    res["wall_s"] = time.monotonic() - w0_
                    results.append(res)
                await ch.close()
            asyncio.run(main())
    finally:
        srv.stop()
    return {"calls": results, "wrapped": None, "stubs_all": kinds}

def op_grpc_multi_session(o):
    """(C03) SEVERAL clients of one service in ONE interpreter, each bound to its own loopback server/channel.
    {"client": "pkg:Client", "transport": "...:XGrpcTransport", "async": bool, "servers": ["A", "B"],
     "steps": [{"do": "create", "name": "a", "server": "A"},
               {"do": "call", "client": "a", "script": {"A": {path: [beh…]}, "B": {…}}, …call fields of build_args…},
               {"do": "close", "name": "a"}]}
    Every step result of a call carries the records EACH server logged during that call."""
    import grpc
    _debug_loggers(o)
    servers = {n: GrpcLoopback(None) for n in o["servers"]}
    clients = {}        # name -> (client, transport, channel)
    results = []
    is_async = bool(o.get("async"))

    def install(call):
        for sn, scr in (call.get("script") or {}).items():
            with servers[sn].lock:
                for p, q in scr.items():
                    servers[sn].script[p] = list(q)

    async def run():
        for st in o["steps"]:
            do = st["do"]
            if do == "create":
                try:
                    if st.get("channel_of"):          # a client (possibly of ANOTHER service of the API) on an existing channel
                        ch = clients[st["channel_of"]][2]
                    else:
                        port = servers[st["server"]].port
                        ch = grpc.aio.insecure_channel(f"127.0.0.1:{port}") if is_async else grpc.insecure_channel(f"127.0.0.1:{port}")
                    transport = locate(st.get("transport_cls") or o["transport"])(channel=ch)
                    clients[st["name"]] = (locate(st.get("client_cls") or o["client"])(transport=transport), transport, ch)
                    results.append({"created": st["name"]})
                except BaseException as e:  # noqa
                    results.append({"raised": exc_name(e), "msg": str(e)[:300], "trace": traceback.format_exc()[-600:]})
            elif do == "close":
                try:
                    client, transport, ch = clients.pop(st["name"])
                    r = transport.close()
                    if asyncio.iscoroutine(r) or hasattr(r, "__await__"):
                        await r
                    results.append({"closed": st["name"]})
                except BaseException as e:  # noqa
                    results.append({"raised": exc_name(e), "msg": str(e)[:300], "trace": traceback.format_exc()[-600:]})
            elif do == "call":
                starts = {n: len(sv.log) for n, sv in servers.items()}
                install(st)
                try:
                    client = clients[st["client"]][0]
                    args, kw = build_args(st)
                    if is_async:
                        if "requests" in kw:
                            items = list(kw["requests"])

                            async def agen(items=items):
                                for it in items:
                                    yield it
                            kw["requests"] = agen()
                        if st.get("with_ctx"):        # `async with client as c: await c.method(...)`, leaving the block judged apart
                            c = await client.__aenter__()
                            try:
                                ret = getattr(c, st["method"])(*args, **kw)
                                for _ in range(3):
                                    if asyncio.iscoroutine(ret) or hasattr(ret, "__await__"):
                                        ret = await ret
                                res = {"ok": await consume_async(ret, st.get("consume", "auto"))}
                            finally:
                                try:
                                    await client.__aexit__(None, None, None)
                                    exit_raised = None
                                except BaseException as e:  # noqa
                                    exit_raised = [exc_name(e), str(e)[:200]]
                            res["exit_raised"] = exit_raised
                        else:
                            ret = getattr(client, st["method"])(*args, **kw)
                            for _ in range(3):
                                if asyncio.iscoroutine(ret) or hasattr(ret, "__await__"):
                                    ret = await ret
                            res = {"ok": await consume_async(ret, st.get("consume", "auto"))}
                    elif st.get("with_ctx"):          # `with client as c: c.method(...)`, leaving the block judged apart
                        c = client.__enter__()
                        try:
                            ret = getattr(c, st["method"])(*args, **kw)
                            res = {"ok": consume_sync(ret, st.get("consume", "auto"))}
                        finally:
                            try:
                                client.__exit__(None, None, None)
                                exit_raised = None
                            except BaseException as e:  # noqa
                                exit_raised = [exc_name(e), str(e)[:200]]
                        res["exit_raised"] = exit_raised
                    else:
                        ret = getattr(client, st["method"])(*args, **kw)
                        res = {"ok": consume_sync(ret, st.get("consume", "auto"))}
                except BaseException as e:  # noqa
                    res = {"raised": exc_name(e), "msg": str(e)[:300], "trace": traceback.format_exc()[-600:]}
                res["servers"] = {n: _slice(sv.log, starts[n]) for n, sv in servers.items()}
                results.append(res)
        for name, (client, transport, ch) in list(clients.items()):
            try:
                r = ch.close()
                if asyncio.iscoroutine(r) or hasattr(r, "__await__"):
                    await r
            except BaseException:  # noqa
                pass
    try:
        asyncio.run(run())
    finally:
        for sv in servers.values():
            sv.stop()
    return {"steps": results}

# ------------------------------------------------------------------ REST loopback


class HttpLoopback:
    def __init__(self, script):
        from http.server import BaseHTTPRequestHandler, HTTPServer
        self.script = list(script or [])
        self.log = []
        outer = self

        class H(BaseHTTPRequestHandler):
            protocol_version = "HTTP/1.0"

            def log_message(self, *a):
                pass

            def _do(self):
                n = int(self.headers.get("Content-Length") or 0)
                body = self.rfile.read(n) if n else b""
                path, _, query = self.path.partition("?")
                beh = outer.script.pop(0) if outer.script else {"status": 200, "body": "{}"}
                outer.log.append({"verb": self.command, "path": path, "query": query, "body": body.decode("utf-8", "replace"),
                                  "headers": [[k, v] for k, v in self.headers.items()], "behaviour": beh.get("tag")})
                data = beh.get("body", "{}").encode()
                self.send_response(beh.get("status", 200))
                self.send_header("Content-Type", "application/json")
                self.send_header("Content-Length", str(len(data)))
                self.end_headers()
                self.wfile.write(data)
            do_GET = do_POST = do_PUT = do_PATCH = do_DELETE = _do

        self.httpd = HTTPServer(("127.0.0.1", 0), H)
        self.port = self.httpd.server_address[1]
        self.thread = threading.Thread(target=self.httpd.serve_forever, daemon=True)
        self.thread.start()

    def stop(self):
        self.httpd.shutdown()
        self.httpd.server_close()


def op_rest_session(o):
    from google.auth.credentials import AnonymousCredentials
    srv = HttpLoopback(o.get("script"))
    trap = SleepTrap()
    if o.get("trap_sleep"):
        trap.install()
    results = []
    try:
        transport = locate(o["transport"])(host=f"127.0.0.1:{srv.port}", url_scheme="http", credentials=AnonymousCredentials())
        client = locate(o["client"])(transport=transport)
        for call in o["calls"]:
            start, s0 = len(srv.log), len(trap.sleeps)
            if call.get("script"):
                srv.script[:] = list(call["script"])
            try:
                args, kw = build_args(call)
                ret = getattr(client, call["method"])(*args, **kw)
                res = {"ok": consume_sync(ret, call.get("consume", "value"))}
            except BaseException as e:  # noqa
                res = {"raised": exc_name(e), "msg": str(e)[:300], "trace": traceback.format_exc()[-600:]}
            res["server"] = srv.log[start:]
            res["sleeps"] = trap.sleeps[s0:]
            results.append(res)
    finally:
        srv.stop()
    return {"calls": results}


def op_wrapped(o):
    """introspect default retry/timeout of the wrapped-method table of a transport (C09)"""
    import grpc
    ch = grpc.insecure_channel("127.0.0.1:1")
    transport = locate(o["transport"])(channel=ch)
    out = {}
    for fn, wrapped in transport._wrapped_methods.items():
        name = getattr(fn, "__name__", None) or repr(fn)
        r = getattr(wrapped, "_retry", None)
        t = getattr(wrapped, "_timeout", None)
        ent = {"timeout": getattr(t, "_timeout", t) if t is not None else None}
        if r is not None:
            pred = r._predicate
            excs = []
            for cell in (pred.__closure__ or []):
                v = cell.cell_contents
                if isinstance(v, tuple):
                    excs = sorted(x.__name__ for x in v)
            ent["retry"] = {"initial": r._initial, "maximum": r._maximum, "multiplier": r._multiplier,
                            "deadline": getattr(r, "_timeout", getattr(r, "_deadline", None)), "exceptions": excs}
        else:
            ent["retry"] = None
        out[name] = ent
    ch.close()
    return {"wrapped": out}


def _retry_entry(wrapped):
    r = getattr(wrapped, "_retry", None)
    t = getattr(wrapped, "_timeout", None)
    ent = {"timeout": getattr(t, "_timeout", t) if t is not None else None, "retry": None}
    if r is not None:
        excs = None
        for cell in (getattr(r._predicate, "__closure__", None) or []):
            v = cell.cell_contents
            if isinstance(v, tuple):
                excs = sorted(x.__name__ for x in v)
        ent["retry"] = {"initial": r._initial, "maximum": r._maximum, "multiplier": r._multiplier,
                        "deadline": r._timeout, "exceptions": excs, "pytype": type(r).__name__}
    return ent


def op_wrapped_by_name(o):
    """(C09) like `wrapped`, but keyed by the transport PROPERTY name (snake-case rpc name): every property of the
    transport class whose value is a key of `_wrapped_methods` is reported.  Works for the sync gRPC transport,
    the asyncio one (built inside an event loop on a grpc.aio channel) and REST."""
    import grpc
    cls = locate(o["transport"])

    def table(transport):
        out, unmatched = {}, 0
        props = [n for n in dir(type(transport)) if not n.startswith("_") and isinstance(getattr(type(transport), n, None), property)]
        wm = transport._wrapped_methods
        seen = set()
        for n in props:
            try:
                v = getattr(transport, n)
                if v in wm:
                    out[n] = _retry_entry(wm[v])
                    seen.add(id(wm[v]))
            except BaseException:  # noqa: properties like operations_client may need credentials
                continue
        unmatched = sum(1 for w in wm.values() if id(w) not in seen)
        return {"wrapped": out, "entries": len(wm), "unmatched": unmatched}
    kind = o.get("kind", "grpc")
    if kind == "grpc":
        ch = grpc.insecure_channel("127.0.0.1:1")
        try:
            return table(cls(channel=ch))
        finally:
            ch.close()
    if kind == "grpc_asyncio":
        async def main():
            ch = grpc.aio.insecure_channel("127.0.0.1:1")
            try:
                return table(cls(channel=ch))
            finally:
                await ch.close()
        return asyncio.run(main())
    if kind == "rest":
        from google.auth.credentials import AnonymousCredentials
        return table(cls(host="127.0.0.1:1", url_scheme="http", credentials=AnonymousCredentials()))
    raise ValueError(kind)


OPS = {"grpc_multi_session": op_grpc_multi_session, "wrapped_by_name": op_wrapped_by_name, "grpc_session": op_grpc_session, "rest_session": op_rest_session, "wrapped": op_wrapped}

try:  # C14: sample execution ops live in their own file (additive hook)
    import libhost_samples
    OPS.update(libhost_samples.OPS)
except ImportError:
    pass
