"""Loopback gRPC / HTTP sessions for libhost_child (T3).  Runs INSIDE the child interpreter.

A *session* = one emitted client (sync gRPC | asyncio gRPC | REST) against one loopback server.
The server is scripted per RPC path and records what it saw (raw bytes, metadata, deadline); the
channel is instrumented to record which stub kind (arity) the emitted transport asked for.
All payloads cross the process boundary as base64 bytes + proto full names; decoding under the
INPUT descriptors happens in the parent."""
import asyncio, base64, importlib, json, threading, time, traceback
from concurrent import futures


def b64(b):
    return base64.b64encode(b).decode()


def unb64(s):
    return base64.b64decode(s)


def exc_name(e):
    return type(e).__name__


def locate(spec):
    mod, _, qual = spec.partition(":")
    obj = importlib.import_module(mod)
    for part in qual.split("."):
        obj = getattr(obj, part)
    return obj


# ------------------------------------------------------------------ message helpers

def is_protoplus(x):
    t = type(x)
    return hasattr(t, "pb") and hasattr(t, "serialize") and hasattr(t, "meta")


def canon_msg(x):
    if x is None:
        return {"kind": "none"}
    if is_protoplus(x):
        t = type(x)
        return {"kind": "message", "type": t.pb(x).DESCRIPTOR.full_name, "b64": b64(t.serialize(x)), "py": t.__module__ + ":" + t.__qualname__, "plus": True}
    if hasattr(x, "SerializeToString") and hasattr(x, "DESCRIPTOR"):
        return {"kind": "message", "type": x.DESCRIPTOR.full_name, "b64": b64(x.SerializeToString()), "py": type(x).__module__ + ":" + type(x).__qualname__, "plus": False}
    if isinstance(x, (str, int, float, bool)):
        return {"kind": "scalar", "value": x}
    if isinstance(x, bytes):
        return {"kind": "bytes", "b64": b64(x)}
    if isinstance(x, tuple) and len(x) == 2:     # map pager items
        return {"kind": "pair", "key": canon_msg(x[0]), "value": canon_msg(x[1])}
    return {"kind": "other", "repr": repr(x)[:200], "pytype": type(x).__name__}


def make_instance(cls, data):
    if hasattr(cls, "deserialize") and hasattr(cls, "meta"):
        return cls.deserialize(data)
    m = cls()
    m.ParseFromString(data)
    return m


def make_dict(cls, data):
    inst = make_instance(cls, data)
    if hasattr(cls, "to_dict") and hasattr(cls, "meta"):
        return cls.to_dict(inst, use_integers_for_enums=True, including_default_value_fields=False) \
            if _supports(cls.to_dict, "including_default_value_fields") else cls.to_dict(inst, use_integers_for_enums=True)
    from google.protobuf import json_format
    return json_format.MessageToDict(inst, preserving_proto_field_name=True)


def _supports(fn, kw):
    import inspect
    try:
        return kw in inspect.signature(fn).parameters
    except (TypeError, ValueError):
        return False


def getpath(obj, path):
    for p in path.split("."):
        obj = getattr(obj, p)
    return obj

# ------------------------------------------------------------------ gRPC loopback server


class GrpcLoopback:
    def __init__(self, script):
        import grpc
        self.grpc = grpc
        self.script = {k: list(v) for k, v in (script or {}).items()}
        self.log = []
        self.lock = threading.Lock()
        outer = self

        class Handler(grpc.GenericRpcHandler):
            def service(self, details):
                path = details.method
                md = [[k, v if isinstance(v, str) else b64(v)] for k, v in (details.invocation_metadata or [])]

                def behave(request_iterator, context):
                    reqs = [r for r in request_iterator]
                    with outer.lock:
                        q = outer.script.get(path) or []
                        beh = q.pop(0) if q else {"code": "OK", "replies": None}
                        rec = {"path": path, "requests": [b64(r) for r in reqs], "metadata": md,
                               "time_remaining": context.time_remaining(), "behaviour": beh.get("tag")}
                        outer.log.append(rec)
                    code = beh.get("code", "OK")
                    if code != "OK":
                        context.abort(getattr(grpc.StatusCode, code), beh.get("details", "scripted"))
                    replies = beh.get("replies")
                    if replies is None:
                        replies = [""]          # one empty message
                    for r in replies:
                        yield unb64(r)
                return grpc.stream_stream_rpc_method_handler(behave)   # raw bytes both ways

        self.server = grpc.server(futures.ThreadPoolExecutor(max_workers=8))
        self.server.add_generic_rpc_handlers((Handler(),))
        self.port = self.server.add_insecure_port("127.0.0.1:0")
        self.server.start()

    def stop(self):
        self.server.stop(0)


def instrument(channel, kinds):
    for kind in ("unary_unary", "unary_stream", "stream_unary", "stream_stream"):
        orig = getattr(channel, kind)

        def wrapper(path, *a, _orig=orig, _kind=kind, **kw):
            kinds.append([path if isinstance(path, str) else path.decode(), _kind,
                          getattr(kw.get("request_serializer"), "__qualname__", repr(kw.get("request_serializer")))[:80],
                          getattr(kw.get("response_deserializer"), "__qualname__", repr(kw.get("response_deserializer")))[:80]])
            return _orig(path, *a, **kw)
        setattr(channel, kind, wrapper)

# ------------------------------------------------------------------ sleep interception (C09)


class SleepTrap:
    def __init__(self):
        self.sleeps = []

    def install(self):
        import google.api_core.retry.retry_unary as ru
        import google.api_core.retry.retry_unary_async as rua
        trap = self

        class _T:
            def __getattr__(self, n):
                return getattr(time, n)

            @staticmethod
            def sleep(s):
                trap.sleeps.append(s)
        ru.time = _T()

        class _A:
            def __getattr__(self, n):
                return getattr(asyncio, n)

            @staticmethod
            async def sleep(s):
                trap.sleeps.append(s)
        rua.asyncio = _A()

# ------------------------------------------------------------------ calls


def build_args(call):
    """positional/keyword arguments for the emitted client method"""
    mode = call.get("mode", "request-instance")
    kw = {}
    args = []
    req_cls = locate(call["py_request"]) if call.get("py_request") else None
    if mode in ("request-instance", "mixed"):
        kw["request"] = make_instance(req_cls, unb64(call["request_b64"]))
    elif mode == "request-dict":
        kw["request"] = make_dict(req_cls, unb64(call["request_b64"]))
    elif mode == "request-none":
        pass
    if mode in ("kwargs", "mixed"):
        full = make_instance(req_cls, unb64(call["request_b64"]))
        for param, attrpath in call.get("kwargs", []):
            kw[param] = getpath(full, attrpath)
    if call.get("stream_requests") is not None:
        items = [make_instance(req_cls, unb64(b)) for b in call["stream_requests"]]
        kw.pop("request", None)
        kw["requests"] = iter(items)
    ck = call.get("call_kwargs", {})
    if "timeout" in ck:
        kw["timeout"] = ck["timeout"]
    if ck.get("retry") == "none":
        kw["retry"] = None
    elif isinstance(ck.get("retry"), dict):
        from google.api_core import retry as retries, exceptions as core_exceptions
        r = ck["retry"]
        pred = retries.if_exception_type(*[getattr(core_exceptions, n) for n in r.get("exceptions", [])])
        kw["retry"] = retries.Retry(predicate=pred, initial=r.get("initial", 0.1), maximum=r.get("maximum", 1.0),
                                    multiplier=r.get("multiplier", 2.0), timeout=r.get("deadline", 10.0))
    if "metadata" in ck:
        kw["metadata"] = [tuple(x) for x in ck["metadata"]]
    return args, kw


def consume_sync(ret, how):
    if how == "value":
        return canon_msg(ret)
    if how == "stream":
        return {"kind": "stream", "items": [canon_msg(x) for x in ret]}
    if how == "pager":
        items = [canon_msg(x) for x in ret]
        attrs = {}
        for a in ("next_page_token",):
            try:
                attrs[a] = getattr(ret, a)
            except BaseException as e:  # noqa
                attrs[a] = "raised:" + exc_name(e)
        return {"kind": "pager", "items": items, "attrs": attrs, "pytype": type(ret).__name__,
                "last": canon_msg(getattr(ret, "_response", None))}
    if how == "pages":
        pages = [canon_msg(p) for p in ret.pages]
        return {"kind": "pages", "pages": pages, "pytype": type(ret).__name__}
    if how == "lro":
        out = {"kind": "lro", "pytype": type(ret).__name__}
        try:
            out["metadata_before"] = canon_msg(ret.metadata)
        except BaseException as e:  # noqa
            out["metadata_before"] = {"raised": exc_name(e)}
        try:
            out["result"] = canon_msg(ret.result(timeout=20))
        except BaseException as e:  # noqa
            out["result"] = {"raised": exc_name(e), "msg": str(e)[:200]}
        try:
            out["metadata"] = canon_msg(ret.metadata)
        except BaseException as e:  # noqa
            out["metadata"] = {"raised": exc_name(e)}
        return out
    raise ValueError(how)


async def consume_async(ret, how):
    if how == "value":
        return canon_msg(ret)
    if how == "stream":
        return {"kind": "stream", "items": [canon_msg(x) async for x in ret]}
    if how == "pager":
        items = [canon_msg(x) async for x in ret]
        attrs = {}
        try:
            attrs["next_page_token"] = ret.next_page_token
        except BaseException as e:  # noqa
            attrs["next_page_token"] = "raised:" + exc_name(e)
        return {"kind": "pager", "items": items, "attrs": attrs, "pytype": type(ret).__name__,
                "last": canon_msg(getattr(ret, "_response", None))}
    if how == "pages":
        pages = [canon_msg(p) async for p in ret.pages]
        return {"kind": "pages", "pages": pages, "pytype": type(ret).__name__}
    if how == "lro":
        out = {"kind": "lro", "pytype": type(ret).__name__}
        try:
            out["result"] = canon_msg(await ret.result(timeout=20))
        except BaseException as e:  # noqa
            out["result"] = {"raised": exc_name(e), "msg": str(e)[:200]}
        try:
            out["metadata"] = canon_msg(ret.metadata)
        except BaseException as e:  # noqa
            out["metadata"] = {"raised": exc_name(e)}
        return out
    raise ValueError(how)


def _slice(log, start):
    return log[start:]


def op_grpc_session(o):
    """{"client": "pkg:Client", "transport": "pkg.services.x.transports:XGrpcTransport", "async": false,
        "script": {path: [behaviour…]}, "calls": [...], "trap_sleep": bool}"""
    import grpc
    srv = GrpcLoopback(o.get("script"))
    kinds = []
    trap = SleepTrap()
    if o.get("trap_sleep"):
        trap.install()
    results = []
    try:
        if not o.get("async"):
            ch = grpc.insecure_channel(f"127.0.0.1:{srv.port}")
            instrument(ch, kinds)
            transport = locate(o["transport"])(channel=ch)
            client = locate(o["client"])(transport=transport)
            for call in o["calls"]:
                start, k0, s0 = len(srv.log), len(kinds), len(trap.sleeps)
                if call.get("script"):
                    with srv.lock:
                        for p, q in call["script"].items():
                            srv.script[p] = list(q)      # a call's script replaces what earlier calls left over
                try:
                    args, kw = build_args(call)
                    ret = getattr(client, call["method"])(*args, **kw)
                    res = {"ok": consume_sync(ret, call.get("consume", "value"))}
                except BaseException as e:  # noqa
                    res = {"raised": exc_name(e), "msg": str(e)[:300], "trace": traceback.format_exc()[-600:]}
                res["server"] = _slice(srv.log, start)
                res["stubs"] = kinds[k0:]
                res["sleeps"] = trap.sleeps[s0:]
                results.append(res)
            ch.close()
        else:
            async def main():
                ch = grpc.aio.insecure_channel(f"127.0.0.1:{srv.port}")
                instrument(ch, kinds)
                transport = locate(o["transport"])(channel=ch)
                client = locate(o["client"])(transport=transport)
                for call in o["calls"]:
                    start, k0, s0 = len(srv.log), len(kinds), len(trap.sleeps)
                    if call.get("script"):
                        with srv.lock:
                            for p, q in call["script"].items():
                                srv.script[p] = list(q)      # a call's script replaces what earlier calls left over
                    try:
                        args, kw = build_args(call)
                        if "requests" in kw:
                            items = list(kw["requests"])

                            async def agen(items=items):
                                for it in items:
                                    yield it
                            kw["requests"] = agen()
                        ret = getattr(client, call["method"])(*args, **kw)
                        for _ in range(3):      # client-streaming async methods need a double await
                            if asyncio.iscoroutine(ret) or hasattr(ret, "__await__"):
                                ret = await ret
                        res = {"ok": await consume_async(ret, call.get("consume", "value"))}
                    except BaseException as e:  # noqa
                        res = {"raised": exc_name(e), "msg": str(e)[:300], "trace": traceback.format_exc()[-600:]}
                    res["server"] = _slice(srv.log, start)
                    res["stubs"] = kinds[k0:]
                    res["sleeps"] = trap.sleeps[s0:]
                    results.append(res)
                await ch.close()
            asyncio.run(main())
    finally:
        srv.stop()
    return {"calls": results, "wrapped": None}

# ------------------------------------------------------------------ REST loopback


class HttpLoopback:
    def __init__(self, script):
        from http.server import BaseHTTPRequestHandler, HTTPServer
        self.script = list(script or [])
        self.log = []
        outer = self

        class H(BaseHTTPRequestHandler):
            protocol_version = "HTTP/1.0"

            def log_message(self, *a):
                pass

            def _do(self):
                n = int(self.headers.get("Content-Length") or 0)
                body = self.rfile.read(n) if n else b""
                path, _, query = self.path.partition("?")
                beh = outer.script.pop(0) if outer.script else {"status": 200, "body": "{}"}
                outer.log.append({"verb": self.command, "path": path, "query": query, "body": body.decode("utf-8", "replace"),
                                  "headers": [[k, v] for k, v in self.headers.items()], "behaviour": beh.get("tag")})
                data = beh.get("body", "{}").encode()
                self.send_response(beh.get("status", 200))
                self.send_header("Content-Type", "application/json")
                self.send_header("Content-Length", str(len(data)))
                self.end_headers()
                self.wfile.write(data)
            do_GET = do_POST = do_PUT = do_PATCH = do_DELETE = _do

        self.httpd = HTTPServer(("127.0.0.1", 0), H)
        self.port = self.httpd.server_address[1]
        self.thread = threading.Thread(target=self.httpd.serve_forever, daemon=True)
        self.thread.start()

    def stop(self):
        self.httpd.shutdown()
        self.httpd.server_close()


def op_rest_session(o):
    from google.auth.credentials import AnonymousCredentials
    srv = HttpLoopback(o.get("script"))
    trap = SleepTrap()
    if o.get("trap_sleep"):
        trap.install()
    results = []
    try:
        transport = locate(o["transport"])(host=f"127.0.0.1:{srv.port}", url_scheme="http", credentials=AnonymousCredentials())
        client = locate(o["client"])(transport=transport)
        for call in o["calls"]:
            start, s0 = len(srv.log), len(trap.sleeps)
            if call.get("script"):
                srv.script[:] = list(call["script"])
            try:
                args, kw = build_args(call)
                ret = getattr(client, call["method"])(*args, **kw)
                res = {"ok": consume_sync(ret, call.get("consume", "value"))}
            except BaseException as e:  # noqa
                res = {"raised": exc_name(e), "msg": str(e)[:300], "trace": traceback.format_exc()[-600:]}
            res["server"] = srv.log[start:]
            res["sleeps"] = trap.sleeps[s0:]
            results.append(res)
    finally:
        srv.stop()
    return {"calls": results}


def op_wrapped(o):
    """introspect default retry/timeout of the wrapped-method table of a transport (C09)"""
    import grpc
    ch = grpc.insecure_channel("127.0.0.1:1")
    transport = locate(o["transport"])(channel=ch)
    out = {}
    for fn, wrapped in transport._wrapped_methods.items():
        name = getattr(fn, "__name__", None) or repr(fn)
        r = getattr(wrapped, "_retry", None)
        t = getattr(wrapped, "_timeout", None)
        ent = {"timeout": getattr(t, "_timeout", t) if t is not None else None}
        if r is not None:
            pred = r._predicate
            excs = []
            for cell in (pred.__closure__ or []):
                v = cell.cell_contents
                if isinstance(v, tuple):
                    excs = sorted(x.__name__ for x in v)
            ent["retry"] = {"initial": r._initial, "maximum": r._maximum, "multiplier": r._multiplier,
                            "deadline": getattr(r, "_timeout", getattr(r, "_deadline", None)), "exceptions": excs}
        else:
            ent["retry"] = None
        out[name] = ent
    ch.close()
    return {"wrapped": out}


OPS = {"grpc_session": op_grpc_session, "rest_session": op_rest_session, "wrapped": op_wrapped}
