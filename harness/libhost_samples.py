"""C14 — execute emitted samples (samples/generated_samples/*.py) against loopback servers.
Runs INSIDE the libhost child interpreter (imported by libhost_rpc; op `sample_session`).

`Client()` inside a sample takes default credentials and the default endpoint.  Both are external to
the emitted code, so they are stubbed here:
  * google.auth.default                          -> (AnonymousCredentials(), "proj")
  * google.api_core.grpc_helpers.create_channel        -> grpc.insecure_channel(127.0.0.1:port)
  * google.api_core.grpc_helpers_async.create_channel  -> grpc.aio.insecure_channel(127.0.0.1:port)
  * REST transport (optional): its __init__ is wrapped so that host=127.0.0.1:port, url_scheme=http.
The servers are the scripted loopback servers of libhost_rpc; what they saw is returned raw (base64),
decoding under the INPUT descriptors happens in the parent.
"""
import asyncio, contextlib, importlib, importlib.util, inspect, io, os, sys, traceback


def _rpc():
    import libhost_rpc
    return libhost_rpc


def op_sample_session(o):
    """{"dir": "samples/generated_samples", "samples": [{"file", "function", "async"}],
        "script": {grpc path: [behaviour, …]}, "rest": {"transports": ["mod:Cls", …], "script": [behaviour…]} | None}
    returns {"samples": [{"ok": {...}} | {"raised", "msg", "phase"}  + "server": [...], "stdout": str]}"""
    R = _rpc()
    import grpc
    import google.auth
    from google.auth.credentials import AnonymousCredentials
    from google.api_core import grpc_helpers, grpc_helpers_async

    srv = R.GrpcLoopback(o.get("script"))
    addr = f"127.0.0.1:{srv.port}"
    created = {"sync": 0, "async": 0, "rest": 0}

    def fake_default(*a, **kw):
        return AnonymousCredentials(), "proj"

    def fake_create_channel(*a, **kw):
        created["sync"] += 1
        return grpc.insecure_channel(addr)

    def fake_create_channel_async(*a, **kw):
        created["async"] += 1
        return grpc.aio.insecure_channel(addr)

    google.auth.default = fake_default
    grpc_helpers.create_channel = fake_create_channel
    grpc_helpers_async.create_channel = fake_create_channel_async

    http = None
    rest = o.get("rest")
    if rest:
        http = R.HttpLoopback(rest.get("script"))
        try:
            for tname in (rest.get("transports") or [rest["transport"]]):
                T = R.locate(tname)
                orig_init = T.__init__

                def init(self, *a, _orig=orig_init, **kw):
                    created["rest"] += 1
                    kw["host"] = f"127.0.0.1:{http.port}"
                    kw["url_scheme"] = "http"
                    kw["credentials"] = AnonymousCredentials()
                    return _orig(self, **kw)
                T.__init__ = init
        except BaseException as e:  # noqa
            http.stop()
            srv.stop()
            return {"setup_error": R.exc_name(e), "msg": str(e)[:300]}

    sdir = os.path.join(os.getcwd(), o.get("dir", "samples/generated_samples"))
    out = []
    try:
        for k, s in enumerate(o["samples"]):
            res = {}
            start = len(srv.log)
            hstart = len(http.log) if http else 0
            if s.get("script"):
                with srv.lock:
                    for p, q in s["script"].items():
                        srv.script[p] = list(q)
            if http is not None and s.get("rest_script") is not None:
                http.script[:] = list(s["rest_script"])
            buf = io.StringIO()
            phase = "import"
            try:
                path = os.path.join(sdir, s["file"])
                spec = importlib.util.spec_from_file_location(f"_verif_sample_{k}", path)
                mod = importlib.util.module_from_spec(spec)
                with contextlib.redirect_stdout(buf):
                    spec.loader.exec_module(mod)
                    phase = "lookup"
                    fn = getattr(mod, s["function"])
                    res["is_coroutine_function"] = inspect.iscoroutinefunction(fn)
                    res["params"] = [p.name for p in inspect.signature(fn).parameters.values()]
                    phase = "run"
                    if inspect.iscoroutinefunction(fn):
                        asyncio.run(fn())
                    else:
                        fn()
                res["ok"] = True
            except BaseException as e:  # noqa
                res.update({"raised": R.exc_name(e), "msg": str(e)[:300], "phase": phase,
                            "trace": traceback.format_exc()[-900:]})
            res["stdout"] = buf.getvalue()[-2000:]
            res["server"] = srv.log[start:]
            res["http"] = http.log[hstart:] if http else []
            out.append(res)
    finally:
        srv.stop()
        if http:
            http.stop()
    return {"samples": out, "channels": created}


def _resolve_dotted(name):
    """import the longest importable module prefix of a dotted name, getattr the rest"""
    parts = name.split(".")
    for k in range(len(parts), 0, -1):
        try:
            obj = importlib.import_module(".".join(parts[:k]))
        except ImportError:
            continue
        for p in parts[k:]:
            obj = getattr(obj, p)
        return obj
    raise ImportError(name)


def _leaf(ann):
    """innermost class of a return annotation: Awaitable[AsyncIterable[X]] -> X, Optional[X] -> X"""
    seen = 0
    while getattr(ann, "__args__", None) and seen < 6:
        args = [a for a in ann.__args__ if a is not type(None)]
        if not args:
            break
        ann = args[0]
        seen += 1
    return ann


STREAM_ORIGINS = {"Iterable", "AsyncIterable", "Iterator", "AsyncIterator", "Generator", "AsyncGenerator"}


def _shape(ann):
    """names of the generic wrappers of an annotation, outermost first, following the same path as `_leaf`
    (Optional/Union contribute nothing): Awaitable[AsyncIterable[X]] -> ["Awaitable", "AsyncIterable"],
    Optional[Iterator[X]] -> ["Iterator"], Optional[Union[X, dict]] -> [], X -> []"""
    import typing
    out, seen = [], 0
    while getattr(ann, "__args__", None) and seen < 6:
        origin = typing.get_origin(ann)
        if origin is not None and origin is not typing.Union and getattr(origin, "__name__", "") not in ("Union", "UnionType"):
            out.append(getattr(origin, "__name__", repr(origin)))
        args = [a for a in ann.__args__ if a is not type(None)]
        if not args:
            break
        ann = args[0]
        seen += 1
    return out


def _qual(x):
    if x is None or x is type(None) or x is inspect.Signature.empty:
        return None
    return f"{getattr(x, '__module__', '?')}.{getattr(x, '__qualname__', repr(x))}"


def op_client_method_info(o):
    """{"items": [{"client": dotted full name, "method": short name, "result_type": str|None,
                   "param_types": {name: dotted type string}}]}
    -> per item what the IMPORTED client says: class found, method found, sync/async, parameter names,
       raw __doc__, leaf class of the return annotation vs the class `result_type` names."""
    out = []
    for it in o["items"]:
        r = {}
        try:
            cls = _resolve_dotted(it["client"])
            r["client_ok"] = inspect.isclass(cls)
            r["client_name"] = getattr(cls, "__name__", None)
        except BaseException as e:  # noqa
            r.update({"client_ok": False, "error": f"{type(e).__name__}: {e}"[:300]})
            out.append(r)
            continue
        fn = getattr(cls, it["method"], None)
        r["method_ok"] = callable(fn)
        if not callable(fn):
            out.append(r)
            continue
        r["kind"] = "async" if inspect.iscoroutinefunction(fn) else "sync"
        r["doc"] = fn.__doc__
        try:
            sig = inspect.signature(fn)
            r["params"] = [p.name for p in sig.parameters.values() if p.name != "self"]
            leaf = _leaf(sig.return_annotation)
            r["ret_leaf"] = _qual(leaf)
            r["ret_is_none"] = sig.return_annotation is None or sig.return_annotation is type(None)
            r["ret_shape"] = _shape(sig.return_annotation)
            r["ret_stream"] = any(w in STREAM_ORIGINS for w in r["ret_shape"])
        except BaseException as e:  # noqa
            r["sig_error"] = f"{type(e).__name__}: {e}"[:300]
            out.append(r)
            continue
        rt = it.get("result_type")
        if rt:
            inner = rt
            while "[" in inner and inner.endswith("]"):
                inner = inner[inner.index("[") + 1:-1]
            try:
                obj = _resolve_dotted(inner)
                r["result_leaf"] = _qual(obj)
                r["result_same"] = obj is leaf
            except BaseException as e:  # noqa
                r["result_leaf"] = None
                r["result_error"] = f"{type(e).__name__}: {e}"[:300]
                r["result_same"] = False
        types_ok, types_same, shapes = {}, {}, {}
        for pn, pt in (it.get("param_types") or {}).items():
            inner = pt
            while "[" in inner and inner.endswith("]"):
                inner = inner[inner.index("[") + 1:-1]
            try:
                pobj = _resolve_dotted(inner)
                types_ok[pn] = inspect.isclass(pobj)
            except BaseException as e:  # noqa
                pobj = None
                types_ok[pn] = False
            # what the imported client's signature says about the same parameter
            par = sig.parameters.get(pn)
            if par is not None and par.annotation is not inspect.Signature.empty:
                shapes[pn] = _shape(par.annotation)
                types_same[pn] = pobj is not None and _leaf(par.annotation) is pobj
        r["param_types_ok"] = types_ok
        r["param_types_same"] = types_same
        r["param_shapes"] = shapes
        out.append(r)
    return {"items": out}


OPS = {"sample_session": op_sample_session, "client_method_info": op_client_method_info}
