"""Child-side op `types_session` (C02): walk the emitted types modules of a package and report the
RUN-TIME descriptors of every proto-plus class, plus two-way round trips for given valuations.

op = {"op": "types_session", "package": "acme.lib_v1",
      "roundtrips": [{"full": "acme.lib.v1.A", "b64": <bytes under the INPUT descriptor>, "json": <lowerCamel JSON text>}]}

result = {"import_error": None | {"type", "msg", "module", "line", "text"},
          "modules": [python module names under <package>.types],
          "messages": {full_name: {"module", "qualname", "desc": b64(DescriptorProto), "file": run-time file name,
                                   "attrs": [python attribute names of the fields]}},
          "enums": {full_name: {"module", "qualname", "desc": b64(EnumDescriptorProto)}},
          "manifests": {module: [names]},
          "headers": {module: {"package", "marshal"}}   (the arguments of `__protobuf__ = proto.module(...)` as proto-plus keeps them),
          "roundtrips": [{"bytes_out": b64, "json_out": text, "from_json_out": b64} | {"raised", "msg", "stage"}],
          "shadowed_class_api_values": {full_name: {name: the str it evaluates to}},
          "shadowed_class_api": {full_name: [names of pb/serialize/deserialize/to_json/... that are no longer the class-level API]},
          "types_all": {types package: {"all": [...], "missing": [names of __all__ that are not attributes]}}}

A round trip may carry "literal": the valuation as a *literal a caller would write* (tagged JSON, see `_lit`), keyed by
the expected python attribute names; the class is then also built with `Class(literal)` and attribute by attribute with
`setattr`, so that a field bound to a wrong type cannot hide in the unknown-field set of re-parsed bytes.
Extra op fields: "types_packages": further python packages holding types modules (sub-packages).
"""
import base64, importlib, pkgutil, sys, traceback


def _b64(b):
    return base64.b64encode(b).decode()


def _import_error(e, root):
    tb = traceback.extract_tb(e.__traceback__)
    where = None
    for fr in reversed(tb):
        if fr.filename.startswith(root):
            where = fr
            break
    return {"type": type(e).__name__, "msg": str(e)[:400],
            "module": (where.filename[len(root):].lstrip("/") if where else None),
            "line": where.lineno if where else None, "text": (where.line if where else None)}


def _lit(v):
    """tagged JSON -> python literal: {"s"|"i"|"f"|"b": scalar} {"b64": bytes} {"msg": {attr: lit}} {"list": [...]}
    {"map": [[k, v]...]} {"pb": [full name, b64]} (an instance of an installed *_pb2 class)"""
    (tag, val), = v.items()
    if tag in ("s", "i", "f", "b"):
        return val
    if tag == "b64":
        return base64.b64decode(val)
    if tag == "msg":
        return {k: _lit(x) for k, x in val.items()}
    if tag == "list":
        return [_lit(x) for x in val]
    if tag == "map":
        return {_lit(k): _lit(x) for k, x in val}
    if tag == "pb":
        from google.protobuf import symbol_database
        m = symbol_database.Default().GetSymbol(val[0])()
        m.ParseFromString(base64.b64decode(val[1]))
        return m
    raise ValueError(tag)


# class-level API of proto-plus messages (methods / property of proto.message.MessageMeta)
CLASS_API = ("pb", "serialize", "deserialize", "to_json", "from_json", "to_dict", "wrap", "copy_from", "meta")


def _api(cls, name):
    """`cls.<name>` of the proto-plus class-level API; when the class attribute has been replaced by something that is not
    callable (reported under "shadowed_class_api"), the metaclass's own function, so that the session can go on"""
    f = getattr(cls, name)
    if callable(f):
        return f
    import functools
    import proto.message
    return functools.partial(getattr(proto.message.MessageMeta, name), cls)


def op_types_session(o):
    import proto
    from google.protobuf import descriptor_pb2
    root = sys.argv[1] if len(sys.argv) > 1 else ""
    pkg = o["package"]
    out = {"import_error": None, "modules": [], "messages": {}, "enums": {}, "manifests": {}, "roundtrips": []}
    try:
        importlib.import_module(pkg)
        T = importlib.import_module(pkg + ".types")
    except BaseException as e:  # noqa: anything the emitted code raises is an observation
        out["import_error"] = _import_error(e, root)
        return out
    classes = {}

    def walk(cls, modname):
        if isinstance(cls, type) and issubclass(cls, proto.Message) and cls is not proto.Message:
            full = cls._meta.full_name
            if full in classes:
                return
            classes[full] = cls
            d = descriptor_pb2.DescriptorProto()
            pbcls = cls._meta.pb          # what `cls.pb()` returns (read directly: a field may be called `pb` or `meta`)
            lost_api = [n for n in CLASS_API if isinstance(getattr(cls, n, None), str)]
            if lost_api:
                out.setdefault("shadowed_class_api", {})[full] = lost_api
                out.setdefault("shadowed_class_api_values", {})[full] = {n: getattr(cls, n) for n in lost_api}
            rec = {"module": modname, "qualname": cls.__qualname__, "attrs": list(cls._meta.fields.keys())}
            if pbcls is None:
                rec["desc"] = None
                rec["file"] = None
            else:
                cls()._pb.DESCRIPTOR.CopyToProto(d)
                rec["desc"] = _b64(d.SerializeToString())
                rec["file"] = pbcls.DESCRIPTOR.file.name
            out["messages"][full] = rec
            for v in list(vars(cls).values()):
                walk(v, modname)
        elif isinstance(cls, type) and issubclass(cls, proto.Enum) and cls is not proto.Enum:
            full = cls._meta.full_name
            d = descriptor_pb2.EnumDescriptorProto()
            cls._meta.pb.CopyToProto(d)
            out["enums"][full] = {"module": modname, "qualname": cls.__qualname__, "desc": _b64(d.SerializeToString()),
                                  "members": [[k, int(v.value)] for k, v in cls.__members__.items()]}

    tpkgs = [(pkg + ".types", T)]
    for extra in o.get("types_packages", []):
        try:
            tpkgs.append((extra, importlib.import_module(extra)))
        except BaseException as e:  # noqa
            out["import_error"] = _import_error(e, root)
            return out
    out["types_all"] = {}
    for tname, TP in tpkgs:
        names = list(getattr(TP, "__all__", []))
        out["types_all"][tname] = {"all": sorted(names), "missing": [n for n in names if not hasattr(TP, n)]}
    mods = [m for tname, TP in tpkgs for m in pkgutil.iter_modules(TP.__path__, tname + ".")]
    for m in mods:
        try:
            M = importlib.import_module(m.name)
        except BaseException as e:  # noqa
            out["import_error"] = _import_error(e, root)
            return out
        out["modules"].append(m.name)
        man = getattr(M, "__protobuf__", None)
        out["manifests"][m.name] = sorted(getattr(man, "manifest", []) or [])
        out.setdefault("headers", {})[m.name] = {"package": getattr(man, "package", None), "marshal": getattr(man, "marshal", None)}
        for v in list(vars(M).values()):
            if isinstance(v, type) and getattr(v, "__module__", None) == m.name:
                walk(v, m.name)
    for rt in o.get("roundtrips", []):
        stage = "lookup"
        try:
            cls = classes[rt["full"]]
            stage = "deserialize"
            ser, to_json = _api(cls, "serialize"), _api(cls, "to_json")
            obj = _api(cls, "deserialize")(base64.b64decode(rt["b64"]))
            stage = "serialize"
            res = {"bytes_out": _b64(ser(obj))}
            stage = "to_json"
            res["json_out"] = to_json(obj)
            stage = "from_json"
            obj2 = _api(cls, "from_json")(rt["json"])
            stage = "serialize2"
            res["from_json_out"] = _b64(ser(obj2))
            stage = "eq"
            res["eq"] = bool(obj == obj2)
            if "literal" in rt:
                stage = "literal"
                lit = _lit({"msg": rt["literal"]})
                stage = "ctor"
                obj3 = cls(lit)
                res["ctor_out"] = _b64(ser(obj3))
                stage = "ctor_to_json"
                res["ctor_json"] = to_json(obj3)
                stage = "setattr"
                obj4 = cls()
                for k, v in lit.items():
                    setattr(obj4, k, v)
                stage = "getattr"
                for k in lit:
                    getattr(obj4, k)
                res["setattr_out"] = _b64(ser(obj4))
                stage = "ctor_kwargs"
                obj5 = cls(**lit)
                res["kwargs_out"] = _b64(ser(obj5))
            out["roundtrips"].append(res)
        except BaseException as e:  # noqa
            out["roundtrips"].append({"raised": type(e).__name__, "msg": str(e)[:300], "stage": stage})
    return out


OPS = {"types_session": op_types_session}
