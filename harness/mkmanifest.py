"""Regenerate /verif/MANIFEST.json from the table below (kept valid at all times)."""
import json, os
ROOT = os.path.dirname(os.path.dirname(os.path.abspath(__file__)))
PROPS = [json.loads(l)["id"] for l in open(os.path.join(ROOT, "properties.jsonl"))]

NOTE = ("Trusted: Lean 4.33 kernel (axioms propext/Classical.choice/Quot.sound only, audited per theorem; no sorry/axiom/"
        "native_decide); harness/translate.py (T1: tables, regexes via CPython's parser, template lists) and harness/pyfun2lean.py with "
        "lean/GapicModel/PyRt.lean (T1-f: small pure functions of /repo translated to Lean from the current source on every run; bridge "
        "lemmas Generated = Pinned by rfl; the run-time library and every translation are compared with CPython / the real function on "
        "every run); harness/srcpin.py (T1-s: the anchored Python functions the hand-written model mirrors are digested on every run and "
        "compared with the digests recorded when the model was validated; a changed function is a broken obligation); "
        "the correspondence harness (descriptor builder standing in for protoc, "
        "loopback servers, canonicalisation, oracles). The rest of the model is hand-written (link theorems `*_is_translated` tie it to the "
        "translated functions where they exist): its agreement with /repo is as strong as "
        "the bridge lemmas + T2/T3 differential runs on the inputs of the run. Runtime shell (CPython, re, protobuf, grpcio, "
        "api-core, jinja2) is modelled, not verified; pandoc is replaced by a stand-in. ")

def load_claims():
    import importlib, sys
    sys.path.insert(0, os.path.join(ROOT, "harness"))
    claims = {}
    for p in PROPS:
        path = os.path.join(ROOT, "harness", "props", p.lower() + ".py")
        if not os.path.exists(path):
            continue
        mod = importlib.import_module("props." + p.lower())
        if getattr(mod, "CLAIM", None):
            claims[p] = mod.CLAIM
    return claims


NOT_APPLICABLE = {}     # property id -> reason, for properties deliberately not claimed


def regen_lean():
    """GapicModel.lean (library root) and GapicModel/Driver.lean (main) from the files present."""
    lean = os.path.join(ROOT, "lean")
    props = sorted(f[:-5] for f in os.listdir(os.path.join(lean, "GapicModel", "Props")) if f.endswith(".lean"))
    drivers = sorted(f[:-5] for f in os.listdir(os.path.join(lean, "GapicModel", "Driver")) if f.endswith(".lean") and f != "Base.lean")
    root = ["import GapicModel.Regex.Syntax", "import GapicModel.Regex.Match", "import GapicModel.Lemmas.Regex",
            "import GapicModel.Bridge.All", "import GapicModel.Bridge.Funcs", "import GapicModel.Driver"] + [f"import GapicModel.Props.{p}" for p in props]
    _write(os.path.join(lean, "GapicModel.lean"), "\n".join(root) + "\n")
    main = open(os.path.join(lean, "GapicModel", "Driver.lean")).read()
    head = "import GapicModel.Driver.Base\n" + "".join(f"import GapicModel.Driver.{d}\n" for d in drivers)
    body = main[main.index("/-\nJSON-lines driver"):]
    import re as _re
    body = _re.sub(r"\[\(\"regex\", opRegex\)\][^\n]*", '[("regex", opRegex)]' + "".join(f" ++ ops{d}" for d in drivers), body)
    _write(os.path.join(lean, "GapicModel", "Driver.lean"), head + body)


def _write(path, text):
    if not os.path.exists(path) or open(path).read() != text:
        open(path, "w").write(text)


def main():
    CLAIMS = load_claims()
    regen_lean()
    checks = []
    for p in PROPS:
        if p not in CLAIMS:
            continue
        c = CLAIMS[p]
        checks.append({
            "property_id": p,
            "quick_cmd": f"/venv/bin/python harness/check.py {p} --tier quick",
            "thorough_cmd": f"/venv/bin/python harness/check.py {p} --tier thorough",
            "evidence_file": f"/verif/evidence/{p}.json",
            "replay_cmd_template": f"/venv/bin/python harness/check.py {p} --replay {{path}}",
            "engine": "lean4-gapicmodel",
            "level_claimed": {"category": "proof", "text": c["text"], "design_ref": "DESIGN.md §" + c["design"]},
            "level_note": NOTE + c.get("note", ""),
            "technique": c["technique"],
        })
    m = {
        "version": 1,
        "setup_cmd": "/venv/bin/python harness/translate.py && cd lean && lake build GapicModel driver",
        "hooks": {"guard": "GAPIC_GENERATOR_PYTHON_VERIF",
                  "enable": "no source hooks: checks import /repo's working tree directly (editable install in /venv); the guard variable is set by check.py and read by nothing in /repo",
                  "baseline_off_cmd": "cd /repo && /venv/bin/python -m pytest -ra -q -p no:cacheprovider --timeout=900 --continue-on-collection-errors",
                  "source_commits": [], "add_only": True},
        "engines": [{"name": "lean4-gapicmodel", "path": "lean/", "serves_properties": sorted(CLAIMS),
                     "kind_free_text": "Lean 4 model + theorems (lake project, no Mathlib in models), JSON-lines driver, Python correspondence harness"}],
        "checks": checks,
        "not_applicable": [{"property_id": p, "reason": NOT_APPLICABLE.get(p, "check not built yet (build in progress; see DESIGN.md section 7)")}
                           for p in PROPS if p not in CLAIMS],
        "notes": "fix: commits in /repo are listed in known_findings.json under \"fixed\".",
    }
    json.dump(m, open(os.path.join(ROOT, "MANIFEST.json"), "w"), indent=1)


if __name__ == "__main__":
    main()
