"""Regenerate /verif/MANIFEST.json from the table below (kept valid at all times)."""
import json, os
ROOT = os.path.dirname(os.path.dirname(os.path.abspath(__file__)))
PROPS = [json.loads(l)["id"] for l in open(os.path.join(ROOT, "properties.jsonl"))]

NOTE = ("Trusted: Lean 4.33 kernel (axioms propext/Classical.choice/Quot.sound only, audited per theorem; no sorry/axiom/"
        "native_decide); harness/translate.py (T1); the correspondence harness (descriptor builder standing in for protoc, "
        "loopback servers, canonicalisation, oracles). The model is hand-written: its agreement with /repo is as strong as "
        "T1 bridge lemmas + T2/T3 differential runs on the inputs of the run. Runtime shell (CPython, re, protobuf, grpcio, "
        "api-core, jinja2) is modelled, not verified; pandoc is replaced by a stand-in. ")

CLAIMS = {
    "C07": dict(
        text="Lean 4 proof, by induction over ALL server page histories, that the pager model yields the items of the pages up "
             "to and including the first empty token exactly once and in order, sends exactly the received tokens, leaves every "
             "other request field and call option unchanged, stops at the first empty token, and exposes the last page; and an "
             "iff-characterisation of paged_result_field (incl. the max_results precedence). Tie: T2 the real "
             "Method.paged_result_field vs the model on generated shapes; T3 the emitted sync and asyncio pagers against a "
             "loopback gRPC server with scripted histories vs the model; a model-independent oracle restating the property.",
        technique="Lean 4 theorems (induction on page histories; iff-characterisation of the classifier) + differential T2/T3 against the emitted pagers",
        design="7.7",
        note="The pager's loop is modelled from pagers.py.j2 by hand; maps are compared per page as sets. A server that never returns an empty token is outside the model."),
    "C19": dict(
        text="Lean 4 proof (all patterns, all values, no size bound) on a regex-engine model of the emitted re.match that "
             "parse_<r>_path(<r>_path(vals)) returns exactly the segments and rebuilding returns the path, under an explicit "
             "decidable hypothesis `Good` (values non-empty, newline-free, not containing the first character of the literal "
             "that follows); wildcard and non-match theorems; counterexample theorems for what `Good` excludes. Tie: T1 bridge "
             "of PATH_ARG_RE/common resources, T2 AST equality between the model regex and CPython's parse of the real "
             "path_regex_str, T3 the static helpers of the imported emitted client vs the model, plus a model-independent oracle.",
        technique="Lean 4 theorem (induction on pattern segments over a CPS backtracking-regex model) + translator bridge + differential T2/T3",
        design="7.19",
        note="Hypotheses of parse_build_partial exclude empty and newline-containing values: both fail on the real code and are listed in known_findings.json."),
}


def main():
    checks = []
    for p in PROPS:
        if p not in CLAIMS:
            continue
        c = CLAIMS[p]
        checks.append({
            "property_id": p,
            "quick_cmd": f"/venv/bin/python harness/check.py {p} --tier quick",
            "thorough_cmd": f"/venv/bin/python harness/check.py {p} --tier thorough",
            "evidence_file": f"/verif/evidence/{p}.json",
            "replay_cmd_template": f"/venv/bin/python harness/check.py {p} --replay {{path}}",
            "engine": "lean4-gapicmodel",
            "level_claimed": {"category": "proof", "text": c["text"], "design_ref": "DESIGN.md §" + c["design"]},
            "level_note": NOTE + c.get("note", ""),
            "technique": c["technique"],
        })
    m = {
        "version": 1,
        "setup_cmd": "/venv/bin/python harness/translate.py && cd lean && lake build GapicModel driver",
        "hooks": {"guard": "GAPIC_GENERATOR_PYTHON_VERIF",
                  "enable": "no source hooks: checks import /repo's working tree directly (editable install in /venv); the guard variable is set by check.py and read by nothing in /repo",
                  "baseline_off_cmd": "cd /repo && /venv/bin/python -m pytest -ra -q -p no:cacheprovider --timeout=900 --continue-on-collection-errors",
                  "source_commits": [], "add_only": True},
        "engines": [{"name": "lean4-gapicmodel", "path": "lean/", "serves_properties": sorted(CLAIMS),
                     "kind_free_text": "Lean 4 model + theorems (lake project, no Mathlib in models), JSON-lines driver, Python correspondence harness"}],
        "checks": checks,
        "not_applicable": [{"property_id": p, "reason": "check not built yet (build in progress; see DESIGN.md section 7)"}
                           for p in PROPS if p not in CLAIMS],
        "notes": "fix: commits in /repo are listed in known_findings.json under \"fixed\".",
    }
    json.dump(m, open(os.path.join(ROOT, "MANIFEST.json"), "w"), indent=1)


if __name__ == "__main__":
    main()
