"""C01 — every generated library is valid, importable Python with the requested clients (DESIGN §7.1)."""
from __future__ import annotations
import ast, json, os, tempfile
import apigen, genrun, libhost, rpc
from props import c11

PKGS = [("acme.lib.v1", ["acme"], "lib", "v1"), ("acme.cloud.books.v1beta1", ["acme", "cloud"], "books", "v1beta1"),
        ("zed.shop.v2", ["zed"], "shop", "v2"),
        # proto packages WITHOUT namespace segments (the library's top-level package is the versioned module itself), and one without a version
        ("solo.v2", [], "solo", "v2"), ("mollusca.v1", [], "mollusca", "v1"), ("shelf.v1beta1", [], "shelf", "v1beta1"), ("solo", [], "solo", "")]
FIELD_NAMES = ["name", "title", "count", "kind", "parent", "labels", "etag", "size", "display_name", "class", "format", "uid"]


LIB_SKIP = ("samples/", "tests/", "docs/", "scripts/")


def _import_nodes(tree):
    """(import statement, hard) for every import executed when the module itself is imported (function bodies are lazy: skipped).
    hard = reached unconditionally: not in the body of a `try` that has handlers, not under an `if`."""
    out = []

    def walk(stmts, hard):
        for st in stmts:
            if isinstance(st, (ast.Import, ast.ImportFrom)):
                out.append((st, hard))
            elif isinstance(st, (ast.FunctionDef, ast.AsyncFunctionDef)):
                continue
            elif isinstance(st, ast.Try):
                walk(st.body, hard and not st.handlers)
                for h in st.handlers:
                    walk(h.body, False)
                walk(st.orelse, hard and not st.handlers); walk(st.finalbody, hard)
            elif isinstance(st, ast.If):
                walk(st.body, False); walk(st.orelse, False)
            elif isinstance(st, (ast.ClassDef, ast.With)):
                walk(st.body, hard)
            elif isinstance(st, (ast.For, ast.While)):
                walk(st.body, False); walk(st.orelse, False)
    walk(tree.body, True)
    return out


def _bound_names(tree):
    """names a module binds at its top level (None = cannot tell: star import or module `__getattr__`)"""
    names = set()

    def tgt(t):
        if isinstance(t, ast.Name): names.add(t.id)
        elif isinstance(t, (ast.Tuple, ast.List)):
            for e in t.elts: tgt(e)

    def walk(stmts):
        for st in stmts:
            if isinstance(st, (ast.FunctionDef, ast.AsyncFunctionDef, ast.ClassDef)):
                names.add(st.name)
                if st.name == "__getattr__": return False
            elif isinstance(st, ast.Assign):
                for t in st.targets: tgt(t)
            elif isinstance(st, (ast.AnnAssign, ast.AugAssign)):
                tgt(st.target)
            elif isinstance(st, (ast.Import, ast.ImportFrom)):
                for a in st.names:
                    if a.name == "*": return False
                    names.add(a.asname or a.name.split(".")[0])
            elif isinstance(st, ast.Try):
                if any(walk(b) is False for b in [st.body, st.orelse, st.finalbody] + [h.body for h in st.handlers]): return False
            elif isinstance(st, (ast.If, ast.For, ast.While)):
                if walk(st.body) is False or walk(st.orelse) is False: return False
            elif isinstance(st, ast.With):
                if walk(st.body) is False: return False
        return True
    return names if walk(tree.body) is not False else None


def _bind_names(stmts):
    """names bound by statements of one scope (compound statements included, nested scopes not entered)"""
    out = set()

    def tgt(t):
        if isinstance(t, ast.Name): out.add(t.id)
        elif isinstance(t, (ast.Tuple, ast.List)):
            for e in t.elts: tgt(e)
        elif isinstance(t, ast.Starred): tgt(t.value)

    def walk(sts):
        for st in sts:
            if isinstance(st, (ast.FunctionDef, ast.AsyncFunctionDef, ast.ClassDef)): out.add(st.name)
            elif isinstance(st, ast.Assign):
                for t in st.targets: tgt(t)
            elif isinstance(st, (ast.AnnAssign, ast.AugAssign)): tgt(st.target)
            elif isinstance(st, (ast.Import, ast.ImportFrom)):
                for a in st.names: out.add(a.asname or a.name.split(".")[0])
            elif isinstance(st, ast.Try):
                for h in st.handlers:
                    if h.name: out.add(h.name)
                    walk(h.body)
                walk(st.body); walk(st.orelse); walk(st.finalbody)
            elif isinstance(st, (ast.If, ast.While)): walk(st.body); walk(st.orelse)
            elif isinstance(st, (ast.For, ast.AsyncFor)): tgt(st.target); walk(st.body); walk(st.orelse)
            elif isinstance(st, (ast.With, ast.AsyncWith)):
                for it in st.items:
                    if it.optional_vars is not None: tgt(it.optional_vars)
                walk(st.body)
    walk(stmts)
    for n in ast.walk(ast.Module(body=list(stmts), type_ignores=[])):       # walrus targets
        if isinstance(n, ast.NamedExpr): tgt(n.target)
    return out


def eager_undefined_names(tree):
    """names READ while the module is being imported (module level, class bodies, decorators, default values, base classes; annotations
    unless `from __future__ import annotations`; function and lambda bodies are lazy and skipped) that nothing in the enclosing scopes
    binds and that are no builtins: each is a NameError at import time.  Order of binding is not judged."""
    import builtins
    future_ann = any(isinstance(st, ast.ImportFrom) and st.module == "__future__" and any(a.name == "annotations" for a in st.names) for st in tree.body)
    known = set(dir(builtins)) | {"__name__", "__file__", "__doc__", "__package__", "__spec__", "__path__", "__loader__", "__builtins__", "__qualname__", "__module__", "__class__"}
    scopes = [_bind_names(tree.body)]
    out = []

    class V(ast.NodeVisitor):
        def visit_Name(self, n):
            if isinstance(n.ctx, ast.Load) and n.id not in known and not any(n.id in sc for sc in scopes):
                out.append((n.id, n.lineno))

        def _func(self, n):
            for d in n.decorator_list: self.visit(d)
            for d in n.args.defaults + [k for k in n.args.kw_defaults if k is not None]: self.visit(d)
            if not future_ann:
                for a in n.args.posonlyargs + n.args.args + n.args.kwonlyargs + [x for x in (n.args.vararg, n.args.kwarg) if x]:
                    if a.annotation is not None: self.visit(a.annotation)
                if n.returns is not None: self.visit(n.returns)
        visit_FunctionDef = _func
        visit_AsyncFunctionDef = _func

        def visit_Lambda(self, n):
            for d in n.args.defaults + [k for k in n.args.kw_defaults if k is not None]: self.visit(d)

        def visit_ClassDef(self, n):
            for d in n.decorator_list + n.bases + [k.value for k in n.keywords]: self.visit(d)
            scopes.append(_bind_names(n.body))
            for st in n.body: self.visit(st)
            scopes.pop()

        def visit_AnnAssign(self, n):
            if not future_ann: self.visit(n.annotation)
            if n.value is not None: self.visit(n.value)
            if not isinstance(n.target, ast.Name): self.visit(n.target)

        def _comp(self, n):
            bound = set()
            for g in n.generators:
                for t in ast.walk(g.target):
                    if isinstance(t, ast.Name): bound.add(t.id)
            scopes.append(bound); self.generic_visit(n); scopes.pop()
        visit_ListComp = visit_SetComp = visit_DictComp = visit_GeneratorExp = _comp
    V().visit(tree)
    return out


def name_error_oracle(ctx, res, api, spec, payload):
    """ORACLE: no module of the emitted package reads, while it is being imported, a name that nothing binds (the NameError that
    `import` would raise, exhibited with the module, the line and the name — e.g. a types module that uses `common.Tag` without
    importing `common`)."""
    nsd = list(api.naming.module_namespace)
    roots = [nsd + api.naming.versioned_module_name.split("."), nsd + api.naming.module_name.split(".")]
    for f in res.file:
        if not f.name.endswith(".py") or f.name.startswith(LIB_SKIP) or "/" not in f.name:
            continue
        parts = f.name.split("/")[:-1]
        if not any(parts[:len(r)] == r for r in roots):
            continue
        try:
            tree = ast.parse(f.content)
        except SyntaxError:
            continue
        und = eager_undefined_names(tree)
        ctx.count("name_oracle", "undefined" if und else "clean")
        if und:
            kind = "types" if "/types/" in f.name else os.path.basename(f.name)
            if all(u[0].endswith("_pb2") for u in und):       # the module of a dependency package (`status_pb2`) is used but never imported
                kind += ":pb2-module"
            ctx.fail(f"undefined-name:{kind}", f"{f.name}:{und[0][1]}: `{und[0][0]}` is read when the module is imported but nothing binds it "
                     f"({len(und)} such read(s): {sorted({u[0] for u in und})[:6]})", payload)


def t2_proto_names(ctx, api, payload):
    """`Proto.names` of every target file (the collision set bound into its addresses) vs `protoNames` of the model: the names of enums,
    messages and fields plus every imported module name that two distinct proto packages contribute over ALL messages of the file"""
    protos = [p for p in api.protos.values() if p.file_to_generate]
    ops = []
    for p in protos:
        plain = sorted({e.name for e in p.all_enums.values()} | {m.name for m in p.all_messages.values()} | {f.name for m in p.all_messages.values() for f in m.fields.values()})
        msgs = [[{"module": t.ident.module, "package": ".".join(t.ident.package)} for t in m.recursive_field_types] for m in p.all_messages.values()]
        ops.append({"op": "c01.names", "plain": plain, "msgs": msgs})
    for p, mo in zip(protos, ctx.driver.ask(ops)):
        ctx.traces += 1
        ctx.count("proto_names", "collision" if mo.get("collisions") else "none")
        if set(mo.get("names", [])) != set(p.names):
            ctx.disagree("T2:c01.names", f"{p.name}: Proto.names has {sorted(set(p.names) - set(mo.get('names', [])))} beyond the model, the model has "
                         f"{sorted(set(mo.get('names', [])) - set(p.names))} beyond the code (module collisions of the model: {sorted(set(mo.get('collisions', [])))})", payload)


def static_import_oracle(ctx, res, api, spec, payload):
    """ORACLE (independent of the model): every import statement between modules of the emitted package that is executed
    unconditionally when its module is imported names an emitted module, and every name taken `from` it is a sub-module or is
    bound at the top level of that module.  (What `import` would raise as ModuleNotFoundError / ImportError, exhibited with the
    importing file and the statement; imports under try/if or inside functions are not judged.)"""
    names = {f.name for f in res.file}
    content = {f.name: f.content for f in res.file}
    nsd = list(api.naming.module_namespace)
    roots = [nsd + api.naming.versioned_module_name.split("."), nsd + api.naming.module_name.split(".")]     # (old naming: `lib.v1`)
    trees = {}

    def tree_of(fn):
        if fn not in trees:
            trees[fn] = ast.parse(content[fn])
        return trees[fn]

    def mod_file(parts):
        p = "/".join(parts)
        return p + ".py" if p + ".py" in names else (p + "/__init__.py" if p + "/__init__.py" in names else None)

    def intra(parts):
        return any(parts[:len(r)] == r for r in roots)
    seen = set()
    for fn in sorted(names):
        if not fn.endswith(".py") or fn.startswith(LIB_SKIP) or "/" not in fn:
            continue
        pkgparts = fn.split("/")[:-1]
        if not intra(pkgparts):
            continue
        for node, hard in _import_nodes(tree_of(fn)):
            if not hard:
                continue
            ctx.count("static_imports", "judged")
            if isinstance(node, ast.Import):
                for a in node.names:
                    parts = a.name.split(".")
                    if intra(parts) and mod_file(parts) is None:
                        seen.add((f"unresolved-import:{os.path.basename(fn)}->{parts[-1]}", f"{fn}:{node.lineno}: import {a.name}"))
                continue
            if node.level:
                if node.level - 1 > len(pkgparts):
                    seen.add((f"unresolved-import:{os.path.basename(fn)}->beyond-top", f"{fn}:{node.lineno}")); continue
                parts = pkgparts[:len(pkgparts) - (node.level - 1)] + (node.module.split(".") if node.module else [])
            else:
                parts = node.module.split(".")
                if not intra(parts):
                    continue
            mf = mod_file(parts)
            stmt = f"{fn}:{node.lineno}: from {'.' * node.level}{node.module or ''} import {', '.join(a.name for a in node.names)}"
            if mf is None:
                seen.add((f"unresolved-import:{os.path.basename(fn)}->{parts[-1]}", stmt)); continue
            bound = _bound_names(tree_of(mf))
            for a in node.names:
                if a.name == "*" or bound is None or a.name in bound:
                    continue
                if mf.endswith("/__init__.py") and mod_file(parts + [a.name]) is not None:
                    continue
                seen.add((f"unresolved-name:{os.path.basename(fn)}->{parts[-1]}", stmt + f" ({a.name} is neither bound in {mf} nor a sub-module)"))
    for key, what in sorted(seen):
        if key == "unresolved-import:async_client.py->grpc_asyncio" and spec.get("rest_async") and "grpc" not in spec["transport"]:
            key = "import-error:async-rest-without-grpc"
        ctx.fail(key, "an import between emitted modules cannot succeed: " + what, payload)


def sample_import_oracle(ctx, res, api, payload):
    """every generated sample that parses imports the library by a name that exists in the emitted layout: an import whose first
    segment is the library's own top-level directory must name an emitted package/module (`from acme import lib_v1`, `import solo_v2`),
    and each sample has such an import of the versioned package"""
    names = {f.name for f in res.file}
    nsd = list(api.naming.module_namespace)
    vroot = nsd + api.naming.versioned_module_name.split(".")
    for f in res.file:
        if not (f.name.startswith("samples/") and f.name.endswith(".py")):
            continue
        try:
            tree = ast.parse(f.content)
        except SyntaxError:
            continue          # already reported by the parse clause
        targets = []
        for st in tree.body:
            if isinstance(st, ast.Import):
                targets += [a.name.split(".") for a in st.names]
            elif isinstance(st, ast.ImportFrom) and not st.level and st.module:
                mparts = st.module.split(".")
                for a in st.names:       # `from pkg import module` or `from pkg.module import Name`
                    full = mparts + [a.name]
                    is_mod = "/".join(full) + "/__init__.py" in names or "/".join(full) + ".py" in names
                    targets.append(full if is_mod or mparts[0] != vroot[0] or len(mparts) < len(vroot) else mparts)
        own = [t for t in targets if t[0] == vroot[0]]
        ctx.count("sample_imports", "own" if own else "none")
        for t in own:
            pth = "/".join(t)
            if pth + "/__init__.py" not in names and pth + ".py" not in names:
                ctx.fail("sample-import-unresolved", f"{f.name} imports {'.'.join(t)}, which the emitted layout does not have", payload)
        if not any(t[:len(vroot)] == vroot for t in own):
            ctx.fail("sample-import-unresolved", f"{f.name} does not import the versioned package {'.'.join(vroot)} (imports {own})", payload)


def service_import_graph(ctx, res, api, o, rest_async, payload):
    """T3 for Model/Imports.lean: per service, the emitted modules of its package and the import statements between them (AST of
    the emitted files) against `emitted` / `imports` of the model; relative imports are also resolved by the model (`resolveRel`)
    and must land on the emitted file python's rule gives."""
    nsd = list(api.naming.module_namespace)
    vroot = nsd + [api.naming.versioned_module_name]
    content = {f.name: f.content for f in res.file}
    for s in api.services.values():
        dparts = vroot + list(s.meta.address.subpackage) + ["services", s.module_name]
        D = "/".join(dparts) + "/"
        paged = any(m.paged_result_field for m in s.methods.values())
        mo = ctx.driver.ask([{"op": "c01.imports", "transport": list(o.transport), "restAsync": bool(rest_async), "paged": bool(paged)}])[0]
        model = {m["rel"]: m for m in mo["modules"] if m["rel"] != "gapic_version.py"}
        got_files = sorted(n[len(D):] for n in content if n.startswith(D) and n.endswith(".py"))
        want_files = sorted(rel for rel, m in model.items() if m["emitted"])
        ctx.traces += 1
        ctx.count("service_modules", f"paged={int(paged)}")
        if got_files != want_files:
            ctx.disagree("T3:c01.service-modules", f"{D}: emitted {sorted(set(got_files) - set(want_files))} not in the model, "
                         f"model has {sorted(set(want_files) - set(got_files))} not emitted (paged={paged})", payload)
        if ("pagers.py" in got_files) != bool(paged):      # oracle-side restatement of the empty-module rule for pagers.py
            ctx.disagree("T3:c01.pagers-iff-paged", f"{D}pagers.py present={'pagers.py' in got_files}, service has a paged method={paged}", payload)
        for rel in got_files:
            if rel not in model:
                continue
            observed = set()
            for node, hard in _import_nodes(ast.parse(content[D + rel])):
                if not isinstance(node, ast.ImportFrom):
                    continue
                if node.level:
                    if node.module:
                        observed.add(("rel", node.level, tuple(node.module.split(".")), hard))
                    else:
                        observed |= {("rel", node.level, (a.name,), hard) for a in node.names}
                else:
                    parts = node.module.split(".")
                    if parts == dparts:
                        observed |= {("svc", 0, (a.name,), hard) for a in node.names}
                    elif parts == vroot:
                        observed |= {("root", 0, (a.name,), hard) for a in node.names}
            want = {(i["anchor"], i["level"], tuple(i["path"]), i["hard"]) for i in model[rel]["imports"]}
            if observed != want:
                ctx.disagree("T3:c01.imports", f"{D}{rel}: import statements {sorted(observed - want)} not in the model; model has "
                             f"{sorted(want - observed)} the file has not", payload)
            for i in model[rel]["imports"]:
                if i["anchor"] == "rel":
                    pk = (D + rel).split("/")[:-1]
                    py = "/".join(pk[:len(pk) - (i["level"] - 1)] + i["path"]) + ".py"
                    if D + i["resolved"] != py or i["resolved"] != i["target"]:
                        ctx.disagree("T3:c01.resolveRel", f"{rel}: model resolves {i} to {i['resolved']}, python to {py}", payload)


WS_POOL = [" ", "\t", "\x0b", "\x0c", "\r", "\x1c", "\x1d", "\x1e", "\x1f", "\x85", "\xa0", "\u1680", "\u2000", "\u2003", "\u2028", "\u2029", "\u202f", "\u205f", "\u3000"]
NOT_WS = ["\u200b", "\ufeff", "\x00", "\x08", "\u180e"]


def t2_empty(ctx, r):
    """`gapic.utils.empty` vs `emptyContent`, and the keep/drop test at the end of `_get_file` vs `keepFile`"""
    from gapic import utils
    lines_pool = ["", "# comment", "#", "x = 1", "import os", "pass", '"""doc"""', "#!shebang", "# -*- coding: utf-8 -*-", "'#'", "\\", "@", "é = 1"]
    names = ["a/b/pagers.py", "a/__init__.py", "a/py.typed", "py.typed", "__init__.py", "a/b/x__init__.py", "a/__init__.pyi", "a/b.py.typed", "README.rst", "a/__init__.py.j2", ""]
    cases = [("", "a.py"), ("\n", "a.py"), ("#", "a.py"), (" #\n\t\n", "a.py"), ("\r#x\rpass", "a.py"), ("#x\rpass\n", "a.py"), ("\x0cpass", "a.py"), ("\u200b", "a.py"),
             ("# x = 1", "a.py"), (" x = 1", "a.py"), ("# a\n\n# b\n", "p/pagers.py"), ("# a\n\n# b\n", "p/__init__.py"), ("# a\n", "p/py.typed")]
    for _ in range(ctx.n(300, 4000)):
        ls = []
        for _ in range(r.randint(0, 6)):
            lead = "".join(r.pick(WS_POOL + NOT_WS[:1] if r.maybe(0.1) else WS_POOL) for _ in range(r.randint(0, 3))) if r.maybe(0.6) else ""
            ls.append(lead + r.pick(lines_pool) + ("".join(r.pick(WS_POOL) for _ in range(r.randint(0, 2))) if r.maybe(0.3) else ""))
        cases.append((r.pick(["\n", "\n", "\r\n", "\n\n"]).join(ls) + r.pick(["", "\n"]), r.pick(names)))
    outs = ctx.driver.ask([{"op": "c01.empty", "content": c, "name": n} for c, n in cases])
    for (c, n), mo in zip(cases, outs):
        real = bool(utils.empty(c))
        keep = not (real and not n.endswith(("py.typed", "__init__.py")))
        ctx.traces += 1
        ctx.count("empty", f"empty={int(real)},keep={int(keep)}")
        if mo.get("empty") != real or mo.get("keep") != keep:
            ctx.disagree("T2:c01.empty", f"utils.empty({c!r})={real}, kept as {n!r}={keep}; model {mo}", {"content": c, "name": n})


def gen_spec(r: apigen.Rng):
    """an ApiSpec (plain JSON) over the shapes of C01's quantifier"""
    pkg, ns, name, ver = r.pick(PKGS)
    spec = {"pkg": pkg, "files": [], "dep_pkg": r.maybe(0.5), "sub": r.pick([None, None, "admin"]), "service_in_sub": False}
    if not ver:
        spec["sub"] = None      # Naming.build refuses `solo` + `solo.admin` (it cannot tell a sub-package from another API): stated as an assumption
    nfiles = r.randint(1, 3)
    msg_id = 0
    all_msgs = []
    for fi in range(nfiles):
        in_sub = bool(spec["sub"]) and fi == 0 and nfiles > 1
        fname = ["common", "types", "library"][fi + (3 - nfiles)]
        if fi < nfiles - 1 and r.maybe(0.3):
            # a target file named like a module the service code imports from elsewhere (google.api_core.operation, the service's
            # own pagers module, ...): the two modules must be told apart by an alias wherever they meet
            pool = ["operation", "pagers", "operation_async", "extended_operation", "retries", "client_options", "logging"]
            fname = r.pick([n if n not in {x["name"] for x in spec["files"]} else n + "_two" for n in pool])     # (file names are unique)
        f = {"name": fname, "pkg": pkg + ("." + spec["sub"] if in_sub else ""), "messages": [], "enums": [], "services": []}
        if r.maybe(0.6):
            f["enums"].append({"name": f"Color{fi}", "values": [f"COLOR{fi}_UNSPECIFIED", f"RED{fi}", f"BLUE{fi}"]})
        if r.maybe(0.04):        # legal but unusual: an enum value named by a Python keyword (findings/C01.json)
            f["enums"].append({"name": f"Mode{fi}", "values": [f"MODE{fi}_UNSPECIFIED", r.pick(["None", "True", "class", "import"])]})
        for mi in range(r.randint(1, 3)):
            m = {"name": (r.pick(["MutableSequence", "MutableMapping"]) if (r.maybe(0.03) and not any(x[1].startswith("Mutable") for x in all_msgs)) else f"Thing{msg_id}"), "fields": [], "nested": r.maybe(0.3), "resource": r.maybe(0.4), "oneof": r.maybe(0.3),
                 "collide": r.pick([None, None, "nested", "top", "proto"]) if fi > 0 else None}
            msg_id += 1
            used = set()
            for k in range(r.randint(1, 6)):
                fname = r.pick([n for n in FIELD_NAMES if n not in used] or ["extra"])
                used.add(fname)
                kind = r.pick(["scalar", "scalar", "scalar", "enum", "message", "map", "repeated", "optional", "self", "wkt", "dep"])
                m["fields"].append({"name": fname, "kind": kind, "scalar": r.pick(apigen.SCALARS), "key": r.pick(apigen.MAP_KEY_TYPES),
                                    "target": r.pick(all_msgs) if all_msgs else None, "required": r.maybe(0.1)})
            f["messages"].append(m); all_msgs.append((f["pkg"], m["name"]))
        spec["files"].append(f)
    # services in the first file (and maybe one in the sub-package file: §9-F7 territory)
    nsvc = r.randint(1, 2)
    for si in range(nsvc):
        svc = {"name": ["Library", "Catalog"][si], "methods": []}
        for k in range(r.randint(1, 5)):
            svc["methods"].append({"name": f"{r.pick(['Get', 'Create', 'Update', 'Delete', 'Do'])}{r.pick(['Book', 'Shelf', 'Item'])}{si}{k}",
                                   "kind": r.pick(["unary", "unary", "unary", "paged", "lro", "server", "client", "bidi", "void"]),
                                   "io": r.pick(all_msgs), "http": r.maybe(0.7), "sig": r.maybe(0.5)})
        spec["files"][-1]["services"].append(svc)
    if spec["sub"] and nfiles > 1 and r.maybe(0.4):
        # a service declared in the file of the proto SUB-package (its own services/ tree below <pkg>/<sub>/); its payloads are the
        # messages of that file (the only ones declared before it)
        f0 = spec["files"][0]
        own = [(f0["pkg"], m["name"]) for m in f0["messages"]]
        f0["services"].append({"name": "Admin", "methods": [
            {"name": f"{r.pick(['Get', 'List', 'Run'])}Admin{k}", "kind": r.pick(["unary", "unary", "paged", "lro", "void", "server"]),
             "io": r.pick(own), "http": r.maybe(0.7), "sig": r.maybe(0.5)} for k in range(r.randint(1, 3))]})
        spec["service_in_sub"] = True
    if r.maybe(0.25):
        # a target file that declares ONLY the services (no message, no enum): its request messages live in the previous file
        f_last = spec["files"][-1]
        spec["files"].append({"name": "api_service", "pkg": f_last["pkg"], "messages": [], "enums": [], "services": f_last["services"], "svc_only": True})
        f_last["services"] = []
    tr = r.pick(["grpc", "rest", "grpc+rest"])
    if tr == "grpc+rest" and r.maybe(0.15):
        tr = "rest+grpc"          # the same set of transports, listed the other way round (gRPC is still the default)
    opts = [f"transport={tr}"]
    if r.maybe(0.3): opts.append("rest-numeric-enums")
    if r.maybe(0.3): opts.append("metadata")
    if r.maybe(0.5): opts.append("autogen-snippets=false")
    if r.maybe(0.15): opts.append("python-gapic-name=my_" + name)
    if r.maybe(0.15): opts.append("python-gapic-namespace=foo.bar")
    if r.maybe(0.15): opts.append("warehouse-package-name=acme-pkg")
    spec["service_yaml"] = r.maybe(0.3)
    # the async-REST experiment (publishing.library_settings[...].python_settings.experimental_features.rest_async_io_enabled)
    spec["rest_async"] = (not spec["sub"]) and r.maybe(0.2)
    if spec["rest_async"]:
        spec["service_yaml"] = True
    if spec["service_in_sub"] and "autogen-snippets=false" not in opts and not r.maybe(0.1):
        # (with snippets on, a service in a sub-package stops the generator: findings/C01.json, the C14 finding of DESIGN §9-F7)
        opts.append("autogen-snippets=false")
    spec["ads"] = (not spec["service_in_sub"]) and r.maybe(0.12)
    if spec["ads"]:
        opts = [o for o in opts if not o.startswith("autogen")] + ["python-gapic-templates=ads-templates", "old-naming"]
    spec["opts"] = opts
    spec["transport"] = tr.split("+")
    return spec


def stress_specs():
    """corpus: every per-method construct of the service templates used at least twice with types from DIFFERENT files,
    so that an import or a registry entry computed from `the first method only` cannot hide"""
    out = []
    for tr, extra in (("grpc+rest", []), ("grpc", ["metadata"]), ("rest", ["rest-numeric-enums"])):
        pkg = "acme.lib.v1"
        def msg(name, **kw):
            return {"name": name, "fields": [{"name": "name", "kind": "scalar", "scalar": "string", "key": "string", "target": None, "required": False},
                                             {"name": "count", "kind": "scalar", "scalar": "int32", "key": "string", "target": None, "required": False}],
                    "nested": kw.get("nested", False), "resource": kw.get("resource", False), "oneof": False}
        files = [
            {"name": "common", "pkg": pkg, "messages": [msg("Alpha", resource=True), msg("Beta")], "enums": [{"name": "Color0", "values": ["COLOR0_UNSPECIFIED", "RED0"]}], "services": []},
            {"name": "types", "pkg": pkg, "messages": [msg("Gamma", nested=True), msg("Delta", resource=True)], "enums": [], "services": []},
            {"name": "library", "pkg": pkg, "messages": [msg("Epsilon")], "enums": [], "services": []},
        ]
        kinds = [("paged", "Alpha"), ("paged", "Gamma"), ("paged", "Epsilon"), ("lro", "Beta"), ("lro", "Delta"), ("unary", "Gamma"),
                 ("server", "Alpha"), ("void", "Delta"), ("client", "Beta"), ("bidi", "Gamma")]
        methods = [{"name": f"Do{t}{i}", "kind": k, "io": (pkg, t), "http": k not in ("client", "bidi"), "sig": k in ("unary", "lro", "void")}
                   for i, (k, t) in enumerate(kinds)]
        second = [dict(m, name="Cat" + m["name"]) for m in methods[1:4]]
        files[1]["messages"][0]["collide"] = "nested"; files[1]["messages"][1]["collide"] = "top"; files[2]["messages"][0]["collide"] = "nested"
        files[2]["messages"].append(dict(msg("Zeta"), collide="proto"))
        files[2]["services"] = [{"name": "Library", "methods": methods}, {"name": "Catalog", "methods": second}]
        if tr == "grpc+rest":
            files[0]["name"], files[1]["name"] = "operation", "pagers"      # their messages are LRO / paged / unary payloads of the services
        if tr == "rest" or tr == "grpc":
            files.append({"name": "api_service", "pkg": pkg, "messages": [], "enums": [], "services": files[2]["services"], "svc_only": True})
            files[2]["services"] = []
        out.append({"pkg": pkg, "files": files, "dep_pkg": True, "sub": None, "service_in_sub": False, "service_yaml": tr != "rest",
                    "ads": False, "opts": [f"transport={tr}"] + extra, "transport": tr.split("+")})
    return out


# target file names that, once a service references their messages, shadow a name the service templates bind at module level
# (observed on the unchanged tree with transport=grpc+rest; `retries` and `logging` need the REST transport, `re` does not)
# -> SHADOWED_ATTRS (file name -> the attributes the templates read from the shadowed module)


def finding_specs():
    """open findings of findings/C01.json, reproduced on every run"""
    def msg(name):
        return {"name": name, "fields": [{"name": "name", "kind": "scalar", "scalar": "string", "key": "string", "target": None, "required": False},
                                         {"name": "labels", "kind": "repeated", "scalar": "string", "key": "string", "target": None, "required": False}],
                "nested": False, "resource": False, "oneof": False}
    out = []
    for variant in ("enum-keyword", "typing-name", "async-rest-only", "file-named-retries", "pager-item-typing-name"):
        pkg = "acme.lib.v1"
        f = {"name": "library", "pkg": pkg, "messages": [msg("Alpha")], "enums": [], "services": []}
        if variant == "enum-keyword":
            f["enums"].append({"name": "Mode", "values": ["MODE_UNSPECIFIED", "None"]})
        elif variant == "typing-name":
            f["messages"].append(msg("MutableSequence"))
        f["services"] = [{"name": "Library", "methods": [{"name": "GetAlpha", "kind": "unary", "io": (pkg, "Alpha"), "http": True, "sig": True}]}]
        if variant == "file-named-retries":
            f["name"] = "retries"
        tr = "rest" if variant in ("async-rest-only", "file-named-retries") else "grpc"
        fs = [f]
        if variant == "typing-name":
            # the message named like a typing import must be the LAST class of its types module (request messages are appended to the
            # service's file, so it sits in a file of its own kind next to one ordinary message)
            f["messages"].pop()
            fs = [{"name": "common", "pkg": pkg, "messages": [msg("Alpha0"), msg("MutableSequence")], "enums": [], "services": []}, f]
        if variant == "pager-item-typing-name":
            # MutableSequence is the FIRST class of its module (so the descriptor is built in time) and the item type of a paged method
            fs = [{"name": "common", "pkg": pkg, "messages": [msg("MutableSequence"), msg("Alpha0")], "enums": [], "services": []}, f]
            f["services"][0]["methods"].append({"name": "ListThings", "kind": "paged", "io": (pkg, "MutableSequence"), "http": True, "sig": False})
        out.append({"pkg": pkg, "files": fs, "dep_pkg": False, "sub": None, "service_in_sub": False, "service_yaml": variant == "async-rest-only",
                    "rest_async": variant == "async-rest-only", "ads": False,
                    "opts": [f"transport={tr}", "autogen-snippets=false"], "transport": [tr]})
    return out


def sub_service_specs():
    """a service declared in a proto sub-package (`acme.lib.v1.admin`), next to one in the root package: with snippets off the
    library is complete (the sub-package view of `Model/Emit` and `Model/Imports`); with snippets on the generator stops (finding)"""
    def msg(name):
        return {"name": name, "fields": [{"name": "name", "kind": "scalar", "scalar": "string", "key": "string", "target": None, "required": False}],
                "nested": False, "resource": False, "oneof": False}
    pkg = "acme.lib.v1"
    out = []
    for tr, snippets in (("grpc+rest", False), ("rest", False), ("grpc", True)):
        f0 = {"name": "admin_api", "pkg": pkg + ".admin", "messages": [msg("Beta")], "enums": [], "services": [
            {"name": "Admin", "methods": [{"name": "GetBeta", "kind": "unary", "io": (pkg + ".admin", "Beta"), "http": True, "sig": True},
                                          {"name": "ListBeta", "kind": "paged", "io": (pkg + ".admin", "Beta"), "http": True, "sig": False}]}]}
        f1 = {"name": "common", "pkg": pkg, "messages": [msg("Alpha")], "enums": [], "services": [
            {"name": "Library", "methods": [{"name": "GetAlpha", "kind": "unary", "io": (pkg, "Alpha"), "http": True, "sig": True}]}]}
        out.append({"pkg": pkg, "files": [f0, f1], "dep_pkg": False, "sub": "admin", "service_in_sub": True, "service_yaml": False, "ads": False,
                    "opts": [f"transport={tr}"] + ([] if snippets else ["autogen-snippets=false"]), "transport": tr.split("+")})
    return out


def namespaceless_specs():
    """proto packages without namespace segments (`solo.v2`, `shelf.v1beta1`) and without a version (`solo`), with and without the
    name / namespace overrides: the package must import its own `gapic_version` module (repaired in /repo ecc5587)"""
    def msg(name):
        return {"name": name, "fields": [{"name": "name", "kind": "scalar", "scalar": "string", "key": "string", "target": None, "required": False}],
                "nested": False, "resource": False, "oneof": False}
    out = []
    for pkg, tr, extra, sub in (("solo.v2", "grpc+rest", ["autogen-snippets=false"], None), ("solo", "rest", ["autogen-snippets=false"], None),
                                ("shelf.v1beta1", "grpc", ["autogen-snippets=false", "python-gapic-name=my_shelf"], "admin"),
                                ("mollusca.v1", "grpc+rest", ["python-gapic-namespace=foo.bar", "metadata"], None),      # snippets on: fine with a namespace
                                ("solo.v2", "grpc", [], None)):                                                           # snippets on, no namespace: finding
        files = []
        if sub:
            files.append({"name": "admin_types", "pkg": pkg + "." + sub, "messages": [msg("Beta")], "enums": [], "services": []})
        files.append({"name": "library", "pkg": pkg, "messages": [msg("Alpha")], "enums": [{"name": "Color0", "values": ["COLOR0_UNSPECIFIED", "RED0"]}], "services": [
            {"name": "Library", "methods": [{"name": "GetAlpha", "kind": "unary", "io": (pkg, "Alpha"), "http": True, "sig": True},
                                            {"name": "ListAlpha", "kind": "paged", "io": (pkg, "Alpha"), "http": True, "sig": False}]}]})
        out.append({"pkg": pkg, "files": files, "dep_pkg": False, "sub": sub, "service_in_sub": False, "service_yaml": False, "ads": False,
                    "opts": [f"transport={tr}"] + extra, "transport": tr.split("+")})
    return out


# ---- one file references another in exactly ONE way -------------------------------------------------------------------------------
FIELD_WAYS = ["plain", "repeated", "oneof", "map_value", "nested_field", "nested_map", "nested_oneof", "nested_repeated"]
METHOD_WAYS = ["lro_response", "lro_metadata", "method_output", "method_input", "paged_item", "resource_ref"]


def only_ref_matrix():
    """(way, kind, where): `way` is the only reference from library.proto to the other file, which lies in the same package, in a proto
    sub-package, in a dependency package (a _pb2 module) or is google/protobuf/timestamp.proto"""
    out = []
    for where in ("same", "sub", "up", "dep", "wkt"):      # "up": library.proto (and its service) in the sub-package, the other file in the API package
        for way in FIELD_WAYS:
            out.append((way, "message", where))
            if where != "wkt":
                out.append((way, "enum", where))
        if where in ("same", "sub", "up"):
            out += [(w, "message", where) for w in METHOD_WAYS]
        elif where == "dep":
            out += [(w, "message", where) for w in ("lro_response", "lro_metadata", "method_output", "method_input")]
    return out


def only_ref_spec(way, kind, where, tr="grpc+rest", mirror=False):
    pkg = "acme.lib.v1"
    return {"pkg": pkg, "only_ref": {"way": way, "kind": kind, "where": where, "mirror": mirror}, "dep_pkg": where == "dep", "sub": "admin" if where in ("sub", "up") else None,
            "service_in_sub": where == "up", "service_yaml": False, "ads": False, "files": [], "opts": [f"transport={tr}", "autogen-snippets=false"], "transport": tr.split("+")}


def build_only_ref(spec):
    """library.proto (message Book, service Library) and one other file; `way` is the only thing in library.proto that names the other
    file.  With `mirror`, a third file references the other file in the ordinary way (a plain field), so that the other file is not
    otherwise unused by the API."""
    o = spec["only_ref"]
    way, kind, where = o["way"], o["kind"], o["where"]
    pkg = spec["pkg"]
    files, targets = [], []
    if where == "dep":
        other = apigen.File("other/common/v1/shared.proto", "other.common.v1", deps=[])
        files.append(other)
    elif where == "wkt":
        other = None
    else:
        opkg = pkg + (".admin" if where == "sub" else "")
        other = apigen.File("/".join(opkg.split(".")) + "/common.proto", opkg)
        files.append(other); targets.append(other)
    if other is not None:
        tag = other.msg("Tag"); tag.field("name"); tag.field("weight", "double")
        genre = other.enum("Genre", ["GENRE_UNSPECIFIED", "FICTION"])
        treq = other.msg("TagRequest"); treq.field("name")
        if where != "dep":
            tag.resource("lib.example.com/Tag", "projects/{project}/tags/{tag}")
        msg_t, enum_t = tag, genre
    else:
        msg_t, enum_t, treq = ".google.protobuf.Timestamp", None, None
    lpkg = pkg + (".admin" if where == "up" else "")
    lib = apigen.File("/".join(lpkg.split(".")) + "/library.proto", lpkg)
    if other is not None:
        lib.dep(other.name)
    files.append(lib); targets.append(lib)
    book = lib.msg("Book"); book.field("name")
    typ, tname = ("message", msg_t) if kind == "message" else ("enum", enum_t)
    host = book
    if way.startswith("nested_"):
        host = book.nested("Detail"); host.field("note")
    if way in ("plain", "nested_field"):
        host.field("tag", typ, type_name=tname)
    elif way in ("repeated", "nested_repeated"):
        host.field("tags", typ, repeated=True, type_name=tname)
    elif way in ("oneof", "nested_oneof"):
        host.field("tag", typ, type_name=tname, oneof="choice"); host.field("other", "string", oneof="choice")
    elif way in ("map_value", "nested_map"):
        host.map_field("tags", "string", typ, vtype_name=tname)
    elif way == "resource_ref":
        book.field("tag_name", "string", ref="lib.example.com/Tag")
    if host is not book:
        book.field("detail", "message", type_name=host)
    svc = lib.service("Library")
    rq = lib.msg("GetBookRequest"); rq.field("name", "string", 1)
    svc.method("GetBook", rq, book, http=("get", "/v1/{name=books/*}"), sigs=["name"])
    if way in ("lro_response", "lro_metadata"):
        rq2 = lib.msg("MakeBookRequest"); rq2.field("name", "string", 1)
        lro = (tag.full, "google.protobuf.Empty") if way == "lro_response" else ("google.protobuf.Empty", tag.full)
        svc.method("MakeBook", rq2, ".google.longrunning.Operation", http=("post", "/v1/{name=books/*}:make"), body="*", lro=lro)
    elif way == "method_output":
        rq2 = lib.msg("FindTagRequest"); rq2.field("name", "string", 1)
        svc.method("FindTag", rq2, tag, http=("get", "/v1/{name=tags/*}"))
    elif way == "method_input":
        svc.method("CheckTag", treq, book, http=("post", "/v1/{name=tags/*}:check"), body="*")
    elif way == "paged_item":
        prq = lib.msg("ListTagsRequest"); prq.field("parent"); prq.field("page_size", "int32"); prq.field("page_token")
        # the page response lives in the OTHER file's package?  no: in library.proto; its items are the only reference
        prs = lib.msg("ListTagsResponse"); prs.field("tags", "message", repeated=True, type_name=tag); prs.field("next_page_token")
        svc.method("ListTags", prq, prs, http=("get", "/v1/{parent=things/*}/tags"))
    if o.get("mirror") and other is not None and where != "dep":
        third = apigen.File("/".join(pkg.split(".")) + "/extras.proto", pkg); third.dep(other.name)
        ex = third.msg("Extra"); ex.field("name"); ex.field("tag", "message", type_name=tag); ex.field("genre", "enum", type_name=genre)
        files.append(third); targets.append(third)
    return files, targets


# ---- package-level import cycles ---------------------------------------------------------------------------------------------------
def cycle_specs():
    """two legal APIs (acyclic between FILES) whose proto PACKAGES refer to each other in both directions: the emitted python packages
    import each other while half initialised (findings/C01.json import-error:package-level-import-cycle)"""
    pkg = "acme.lib.v1"
    return [{"pkg": pkg, "cycle": shape, "dep_pkg": False, "sub": "admin", "service_in_sub": shape == "sub-uses-service-sub", "service_yaml": False, "ads": False,
             "files": [], "opts": [f"transport={tr}", "autogen-snippets=false"], "transport": tr.split("+")}
            for shape, tr in (("root-sub-root", "grpc"), ("sub-uses-service-sub", "grpc+rest"))]


def build_cycle(spec):
    pkg = spec["pkg"]
    if spec["cycle"] == "root-sub-root":
        # base.proto (root) <- admin/admin_types.proto (sub) <- library.proto (root)
        b = apigen.File("acme/lib/v1/base.proto", pkg); base = b.msg("Base"); base.field("name")
        s = apigen.File("acme/lib/v1/admin/admin_types.proto", pkg + ".admin"); s.dep(b.name)
        role = s.msg("Role"); role.field("name"); role.field("base", "message", type_name=base)
        a = apigen.File("acme/lib/v1/library.proto", pkg); a.dep(s.name)
        book = a.msg("Book"); book.field("name"); book.field("role", "message", type_name=role)
        rq = a.msg("GetBookRequest"); rq.field("name", "string", 1)
        a.service("Library").method("GetBook", rq, book, http=("get", "/v1/{name=books/*}"))
        files = [b, s, a]
    else:
        # common/parts.proto <- admin/reqs.proto <- common/service.proto: the service's request lives in a sub-package that sorts first
        c = apigen.File("acme/lib/v1/common/parts.proto", pkg + ".common"); part = c.msg("Part"); part.field("name")
        d = apigen.File("acme/lib/v1/admin/reqs.proto", pkg + ".admin"); d.dep(c.name)
        rq = d.msg("Req"); rq.field("name", "string", 1); rq.field("part", "message", type_name=part)
        sv = apigen.File("acme/lib/v1/common/service.proto", pkg + ".common"); sv.dep(c.name, d.name)
        sv.service("Parts").method("GetPart", rq, part, http=("get", "/v1/{name=parts/*}"))
        files = [c, d, sv]
    return files, files


def package_graph_cyclic(files, targets):
    return bool(packages_on_cycle(files, targets))


def packages_on_cycle(files, targets):
    """the proto packages of the target files that refer to each other's types in a cycle  (edges: field types incl. nested messages,
    method input/output, LRO response/metadata; computed from the descriptors)"""
    from google.longrunning import operations_pb2 as _ops
    tnames = {t.pb.name if hasattr(t, "pb") else t.name for t in targets}
    pbs = [f.pb if hasattr(f, "pb") else f for f in files]
    tpbs = [f for f in pbs if f.name in tnames]
    owner = {}

    def reg(prefix, msgs, enums, pkgname):
        for e in enums: owner[prefix + e.name] = pkgname
        for m in msgs:
            owner[prefix + m.name] = pkgname
            reg(prefix + m.name + ".", m.nested_type, m.enum_type, pkgname)
    for f in tpbs:
        reg(f.package + ".", f.message_type, f.enum_type, f.package)
    edges = set()

    def refs(m, out):
        for fd in m.field:
            if fd.type_name: out.append(fd.type_name.lstrip("."))
        for n in m.nested_type: refs(n, out)
    for f in tpbs:
        out = []
        for m in f.message_type: refs(m, out)
        for sv in f.service:
            for me in sv.method:
                out += [me.input_type.lstrip("."), me.output_type.lstrip(".")]
                if me.options.HasExtension(_ops.operation_info):
                    oi = me.options.Extensions[_ops.operation_info]
                    out += [(x if "." in x else f.package + "." + x) for x in (oi.response_type, oi.metadata_type) if x]
        for t in out:
            q = owner.get(t)
            if q and q != f.package: edges.add((f.package, q))
    nodes = {a for a, _ in edges} | {b for _, b in edges}
    reach = {n: {b for a, b in edges if a == n} for n in nodes}
    for _ in nodes:
        for n in nodes:
            reach[n] |= {z for y in list(reach[n]) for z in reach.get(y, ())}
    return {n for n in nodes if n in reach[n]}


# ---- triggers of the open findings, decided from the INPUT (descriptors, options, emitted layout), never from the symptom ----------
def _target_pbs(files, targets):
    tnames = {t.pb.name if hasattr(t, "pb") else t.name for t in targets}
    return [f for f in (x.pb if hasattr(x, "pb") else x for x in files) if f.name in tnames]


def _file_module(pb):
    return pb.name.split("/")[-1][:-len(".proto")]


def keyword_enum_values(files, targets):
    """(enum name, value name) of every enum value of a target file that is a Python keyword (top-level and nested enums)"""
    import keyword
    out = set()

    def enums(es):
        for e in es:
            out.update((e.name, v.name) for v in e.value if keyword.iskeyword(v.name))

    def msgs(ms):
        for m in ms:
            enums(m.enum_type); msgs(m.nested_type)
    for f in _target_pbs(files, targets):
        enums(f.enum_type); msgs(f.message_type)
    return out


TYPING_NAMES = ("MutableSequence", "MutableMapping")


def typing_named_last(files, targets, res):
    """{module name of a target file: full name of its message} where the file declares a top-level message named like one of the two
    names every types module imports from `typing`, next to at least one other top-level message/enum, AND that message is the LAST
    class of the emitted types module (proto-plus then takes the module's manifest for complete one class too early)"""
    out = {}
    content = {f.name: f.content for f in res.file}
    for f in _target_pbs(files, targets):
        named = [m.name for m in f.message_type if m.name in TYPING_NAMES]
        if not named or len(f.message_type) + len(f.enum_type) < 2:
            continue
        mod = _file_module(f)
        for n, c in content.items():
            if n.endswith(f"/types/{mod}.py"):
                try:
                    classes = [st.name for st in ast.parse(c).body if isinstance(st, ast.ClassDef)]
                except SyntaxError:
                    continue
                if len(classes) >= 2 and classes[-1] in named:
                    out[mod] = f"{f.package}.{classes[-1]}"
    return out


def paged_items_named_mutable_sequence(files, targets):
    """module names of the target files declaring a message named `MutableSequence` that is the ITEM type of a paged method (response with
    `next_page_token` whose first repeated field has that type): pagers.py.j2 rewrites every `MutableSequence` of the item annotation"""
    tp = _target_pbs(files, targets)
    msgs = {f"{f.package}.{m.name}": (m, f) for f in tp for m in f.message_type}
    out = set()
    for f in tp:
        for sv in f.service:
            for me in sv.method:
                o = msgs.get(me.output_type.lstrip("."))
                if not o or not any(fd.name == "next_page_token" for fd in o[0].field):
                    continue
                rep = [fd for fd in o[0].field if fd.label == 3]
                if rep and rep[0].type_name.endswith(".MutableSequence") and rep[0].type_name.lstrip(".") in msgs:
                    out.add(_file_module(msgs[rep[0].type_name.lstrip(".")][1]))
    return out


def import_rebinds(res, roots):
    """[(file, local name, [source modules in order])]: module-level import statements of one emitted library module that bind the same
    local name from two different modules (the later one wins)"""
    out = []
    for f in res.file:
        if not f.name.endswith(".py") or f.name.startswith(LIB_SKIP) or "/" not in f.name:
            continue
        parts = f.name.split("/")[:-1]
        if not any(parts[:len(r)] == r for r in roots):
            continue
        try:
            tree = ast.parse(f.content)
        except SyntaxError:
            continue
        seen = {}
        for node, hard in _import_nodes(tree):
            if not hard:
                continue
            if isinstance(node, ast.ImportFrom) and not node.level and node.module:
                for a in node.names:
                    seen.setdefault(a.asname or a.name, []).append(f"{node.module}.{a.name}")
            elif isinstance(node, ast.Import):
                for a in node.names:
                    if a.asname:
                        seen.setdefault(a.asname, []).append(a.name)
        out += [(f.name, nm, srcs) for nm, srcs in seen.items() if len(set(srcs)) > 1]
    return out


def alias_initials(package, version):
    """the prefix `Address.module_alias` builds from a proto package (first letters of the `_` parts of every segment but the version)"""
    return "".join(part[0] for seg in package.split(".") if seg != version for part in seg.split("_") if part)


def same_initials_twins(files, targets, version):
    """{module base name: [target files]} for base names carried by two target files whose proto packages differ but have the same alias
    initials (`acme.lib.v1.admin` / `acme.lib.v1.audit` -> `ala`): `module_alias` gives both the same alias"""
    by = {}
    for f in _target_pbs(files, targets):
        by.setdefault((_file_module(f), alias_initials(f.package, version)), []).append(f)
    return {k[0]: v for k, v in by.items() if len({f.package for f in v}) > 1}


def services_in_subpackages(files, targets, api_pkg):
    """names of the services declared in a target file whose proto package lies strictly below the API package"""
    return {sv.name for f in _target_pbs(files, targets) if f.package != api_pkg and f.package.startswith(api_pkg + ".") for sv in f.service}


# file name -> the attributes the service templates read from the module (or alias) of that name at import time
SHADOWED_ATTRS = {"retries": {"Retry", "AsyncRetry"}, "logging": {"getLogger"}, "std_logging": {"getLogger"}, "re": {"compile"}, "dataclasses": {"dataclass"},
                  "gapic_v1": {"client_info", "method"}, "grpc": {"UnaryUnaryClientInterceptor", "Channel", "ChannelCredentials"},
                  "core_exceptions": {"GoogleAPICallError"}, "ga_credentials": {"Credentials"}, "package_version": {"__version__"}}



# ---- same-named modules in two packages of the API (module-alias collisions) --------------------------------------------------------
COLLISION_LAYOUTS = [("root", "admin"), ("admin", "billing"), ("admin", "audit"), ("admin", "root")]     # (package of common #1, of common #2); "root" = the API package
COLLISION_SHAPES = ["one_message", "two_messages", "two_messages_enum", "message_and_request", "nested_in_two", "nested_siblings", "map_and_repeated",
                    "method_outputs"]


def collision_spec(layout, shape, tr="grpc+rest", lib_in=None):
    pkg = "acme.lib.v1"
    return {"pkg": pkg, "collision": {"layout": list(layout), "shape": shape, "lib_in": lib_in}, "dep_pkg": False, "sub": "admin", "service_in_sub": bool(lib_in),
            "service_yaml": False, "ads": False, "files": [], "opts": [f"transport={tr}", "autogen-snippets=false"], "transport": tr.split("+")}


def build_collision(spec):
    """two files called common.proto in two proto packages of the API (the API package and a sub-package, or two sub-packages), and
    lib.proto whose messages use a type of each: from ONE message, from two unrelated messages, from a message and an RPC request declared
    in another file, from nested messages.  Whatever the spelling, the emitted modules must tell the two `common` modules apart."""
    c = spec["collision"]
    pkg = spec["pkg"]
    def pk(x): return pkg if x == "root" else pkg + "." + x
    p1, p2 = pk(c["layout"][0]), pk(c["layout"][1])
    c1 = apigen.File("/".join(p1.split(".")) + "/common.proto", p1)
    tag = c1.msg("Tag"); tag.field("name"); genre = c1.enum("Genre", ["GENRE_UNSPECIFIED", "FICTION"])
    c2 = apigen.File("/".join(p2.split(".")) + "/common.proto", p2)
    audit = c2.msg("Audit"); audit.field("who"); level = c2.enum("Level", ["LEVEL_UNSPECIFIED", "HIGH"])
    lpkg = pk(c["lib_in"]) if c.get("lib_in") else pkg
    lib = apigen.File("/".join(lpkg.split(".")) + "/lib.proto", lpkg); lib.dep(c1.name, c2.name)
    book = lib.msg("Book"); book.field("name")
    shelf = lib.msg("Shelf"); shelf.field("name")
    files = [c1, c2, lib]
    host = lib
    shape = c["shape"]
    rq_extra = None
    if shape == "one_message":
        book.field("tag", "message", type_name=tag); book.field("audit", "message", type_name=audit)
    elif shape == "two_messages":
        book.field("tag", "message", type_name=tag); shelf.field("audit", "message", type_name=audit)
    elif shape == "two_messages_enum":
        book.field("genre", "enum", type_name=genre); shelf.field("level", "enum", type_name=level)
    elif shape == "message_and_request":
        book.field("tag", "message", type_name=tag)
        host = apigen.File("/".join(lpkg.split(".")) + "/lib_service.proto", lpkg); host.dep(c1.name, c2.name, lib.name); files.append(host)
        rq_extra = audit
    elif shape == "nested_in_two":
        d = book.nested("Detail"); d.field("tag", "message", type_name=tag); book.field("detail", "message", type_name=d)
        q = shelf.nested("Part"); q.field("audit", "message", type_name=audit); shelf.field("part", "message", type_name=q)
    elif shape == "nested_siblings":
        d = book.nested("Detail"); d.field("tag", "message", type_name=tag)
        q = book.nested("Part"); q.field("level", "enum", type_name=level)
        book.field("detail", "message", type_name=d); book.field("part", "message", type_name=q)
    elif shape == "map_and_repeated":
        book.map_field("tags", "string", "message", vtype_name=tag); shelf.field("audits", "message", repeated=True, type_name=audit)
    svc = host.service("Library")
    rq = host.msg("GetBookRequest"); rq.field("name", "string", 1)
    if rq_extra is not None:
        rq.field("audit", "message", type_name=rq_extra)
    svc.method("GetBook", rq, book, http=("post", "/v1/{name=books/*}:get"), body="*")
    rq2 = host.msg("GetShelfRequest"); rq2.field("name", "string", 1)
    svc.method("GetShelf", rq2, shelf, http=("get", "/v1/{name=shelves/*}"))
    if shape == "method_outputs":      # lib.proto's MESSAGES name neither module: only two RPCs of the service do
        rq3 = host.msg("GetTagRequest"); rq3.field("name", "string", 1)
        svc.method("GetTag", rq3, tag, http=("get", "/v1/{name=tags/*}"))
        rq4 = host.msg("GetAuditRequest"); rq4.field("name", "string", 1)
        svc.method("GetAudit", rq4, audit, http=("get", "/v1/{name=audits/*}"))
    return files, files


# ---- nested messages NAMED LIKE a top-level message, using the types nested in that top-level message ------------------------------
COINCIDE_VARIANTS = [(depth, where, refs) for depth in (1, 2) for where in ("same", "other", "sub")
                     for refs in ("enum", "message", "both", "both_and_itself", "repeated_and_map", "oneof")]


def coincide_spec(depth, where, refs, tr="grpc+rest"):
    pkg = "acme.tasks.v1"
    return {"pkg": pkg, "coincide": {"depth": depth, "where": where, "refs": refs}, "dep_pkg": False, "sub": "admin" if where == "sub" else None, "service_in_sub": False,
            "service_yaml": False, "ads": False, "files": [], "opts": [f"transport={tr}", "autogen-snippets=false"], "transport": tr.split("+")}


def build_coincide(spec):
    """`message Status { enum Code; message Detail }` at the top level (of the same file, of another file of the package, or of a file of
    a sub-package) and a message NESTED in `Task` (directly, or two levels deep) that is also called `Status` and whose fields have the
    types `Status.Code` / `Status.Detail` of the TOP-LEVEL message: every reference must still reach the top-level message's members"""
    c = spec["coincide"]
    pkg = spec["pkg"]
    tasks = apigen.File("/".join(pkg.split(".")) + "/tasks.proto", pkg)
    files = []
    if c["where"] == "same":
        home = tasks
    else:
        hpkg = pkg + (".admin" if c["where"] == "sub" else "")
        home = apigen.File("/".join(hpkg.split(".")) + "/status.proto", hpkg)
        files.append(home); tasks.dep(home.name)
    top = home.msg("Status"); top.field("text")
    code = top.nested_enum("Code", ["CODE_UNSPECIFIED", "OK", "FAILED"])
    detail = top.nested("Detail"); detail.field("note")
    top.field("code", "enum", type_name=code); top.field("detail", "message", type_name=detail)
    files.append(tasks)
    task = tasks.msg("Task"); task.field("name")
    host = task
    if c["depth"] == 2:
        host = task.nested("Inner"); host.field("label")
    inner = host.nested("Status")          # the nested namesake
    r = c["refs"]
    if r in ("enum", "both", "both_and_itself"):
        inner.field("code", "enum", type_name=code)
    if r in ("message", "both", "both_and_itself"):
        inner.field("detail", "message", type_name=detail)
    if r == "both_and_itself":
        inner.field("origin", "message", type_name=top)
    if r == "repeated_and_map":
        inner.field("codes", "enum", repeated=True, type_name=code); inner.map_field("details", "string", "message", vtype_name=detail)
    if r == "oneof":
        inner.field("code", "enum", type_name=code, oneof="what"); inner.field("detail", "message", type_name=detail, oneof="what")
    host.field("status", "message", type_name=inner)
    if host is not task:
        task.field("inner", "message", type_name=host)
    rq = tasks.msg("GetTaskRequest"); rq.field("name", "string", 1)
    tasks.service("Tasks").method("GetTask", rq, task, http=("get", "/v1/{name=tasks/*}"))
    return files, files


# ---- API files NAMED LIKE the dependency file whose type they use ------------------------------------------------------------------
# base name of the dependency file -> (a type it declares, "message" | "enum")
DEP_NAMESAKES = {"status": (".google.rpc.Status", "message"), "timestamp": (".google.protobuf.Timestamp", "message"), "duration": (".google.protobuf.Duration", "message"),
                 "field_mask": (".google.protobuf.FieldMask", "message"), "struct": (".google.protobuf.Struct", "message"), "any": (".google.protobuf.Any", "message"),
                 "empty": (".google.protobuf.Empty", "message"), "wrappers": (".google.protobuf.StringValue", "message"),
                 "operations": (".google.longrunning.Operation", "message"), "policy": (".google.iam.v1.Policy", "message"),
                 "iam_policy": (".google.iam.v1.GetIamPolicyRequest", "message"), "options": (".google.iam.v1.GetPolicyOptions", "message"),
                 "expr": (".google.type.Expr", "message"), "locations": (".google.cloud.location.Location", "message"),
                 "launch_stage": (".google.api.LaunchStage", "enum"), "struct_enum": (".google.protobuf.NullValue", "enum")}
DEP_USES = ["field", "repeated", "map_value", "nested_field", "oneof"]


def dep_namesakes_available():
    have = {d.name.split("/")[-1][:-len(".proto")]: d for d in apigen.dep_files()}
    out = {}
    for base, (tn, kind) in DEP_NAMESAKES.items():
        fbase = "struct" if base == "struct_enum" else base
        d = have.get(fbase)
        if d is not None and tn.lstrip(".").startswith(d.package + "."):
            out[base] = (fbase, tn, kind)
    return out


def depname_spec(base, where, use, tr="grpc+rest"):
    pkg = "acme.lib.v1"
    return {"pkg": pkg, "depname": {"base": base, "where": where, "use": use}, "dep_pkg": False, "sub": "admin" if where == "sub" else None, "service_in_sub": False,
            "service_yaml": False, "ads": False, "files": [], "opts": [f"transport={tr}", "autogen-snippets=false"], "transport": tr.split("+")}


def build_depname(spec):
    """an API file called like a DEPENDENCY file (status.proto, timestamp.proto, operations.proto, ...) in the API package or in a
    sub-package, whose message uses a type of that dependency file (`JobInfo { google.rpc.Status error }`): the emitted
    types/<name>.py must import the dependency's `<name>_pb2` although the two modules share their base name"""
    c = spec["depname"]
    fbase, tn, kind = dep_namesakes_available()[c["base"]]
    pkg = spec["pkg"]
    fpkg = pkg + (".admin" if c["where"] == "sub" else "")
    f = apigen.File("/".join(fpkg.split(".")) + f"/{fbase}.proto", fpkg)
    info = f.msg("JobInfo"); info.field("name")
    host = info
    if c["use"] == "nested_field":
        host = info.nested("Part"); host.field("note")
    if c["use"] in ("field", "nested_field"):
        host.field("item", kind, type_name=tn)
    elif c["use"] == "repeated":
        host.field("items", kind, repeated=True, type_name=tn)
    elif c["use"] == "map_value":
        host.map_field("items", "string", kind, vtype_name=tn)
    elif c["use"] == "oneof":
        host.field("item", kind, type_name=tn, oneof="what"); host.field("text", "string", oneof="what")
    if host is not info:
        info.field("part", "message", type_name=host)
    lib = apigen.File("/".join(pkg.split(".")) + "/library.proto", pkg); lib.dep(f.name)
    rq = lib.msg("GetJobInfoRequest"); rq.field("name", "string", 1)
    lib.service("Library").method("GetJobInfo", rq, info, http=("get", "/v1/{name=jobs/*}"))
    return [f, lib], [f, lib]


# ---- sibling sub-packages whose names are string prefixes of each other ------------------------------------------------------------
PREFIX_SUBS = [["common", "common_ext"], ["admin", "admin_tools"], ["a", "ab", "abc"], ["common_ext", "common"], ["ab", "a", "abc"]]


def prefixsub_spec(subs, svc_in, root_service=True, tr="grpc+rest"):
    pkg = "acme.lib.v1"
    return {"pkg": pkg, "prefixsub": {"subs": list(subs), "svc_in": list(svc_in), "root_service": root_service}, "dep_pkg": False, "sub": subs[0], "service_in_sub": True,
            "service_yaml": False, "ads": False, "files": [], "opts": [f"transport={tr}", "autogen-snippets=false"], "transport": tr.split("+")}


def build_prefixsub(spec):
    """sibling proto sub-packages whose names are string prefixes of one another (`common` / `common_ext`; `a` / `ab` / `abc`), each with a
    file of its own (a message and an enum), a service in the listed ones (and optionally one in the API package): every sub-package of
    the emitted library holds the modules of ITS files only"""
    c = spec["prefixsub"]
    pkg = spec["pkg"]
    files = []
    for i, sub in enumerate(c["subs"]):
        sp = f"{pkg}.{sub}"
        f = apigen.File("/".join(sp.split(".")) + f"/{sub}_things.proto", sp)
        m = f.msg(f"Thing{i}"); m.field("name"); f.enum(f"Kind{i}", [f"KIND{i}_UNSPECIFIED", f"ONE{i}"])
        if sub in c["svc_in"]:
            rq = f.msg(f"GetThing{i}Request"); rq.field("name", "string", 1)
            f.service(f"Things{i}").method(f"GetThing{i}", rq, m, http=("get", "/v1/{name=things%d/*}" % i))
        files.append(f)
    if c["root_service"]:
        lib = apigen.File("/".join(pkg.split(".")) + "/library.proto", pkg)
        book = lib.msg("Book"); book.field("name")
        rq = lib.msg("GetBookRequest"); rq.field("name", "string", 1)
        lib.service("Library").method("GetBook", rq, book, http=("get", "/v1/{name=books/*}"))
        files.append(lib)
    return files, files


def misplaced_module_oracle(ctx, res, api, files, targets, payload):
    """ORACLE: every types module and every service package of the emitted library lies in the (sub-)package of the proto file that
    declares it — no `<sub>/types/x.py` or `<sub>/services/<svc>/` for a file of ANOTHER (sub-)package, none missing (decided from
    the input descriptors, not from the schema object)"""
    from gapic import utils as _u
    api_pkg = api.naming.proto_package
    vroot = "/".join(list(api.naming.module_namespace) + api.naming.versioned_module_name.split("."))
    want_types, want_svcs = set(), set()
    if not all(f.package == api_pkg or f.package.startswith(api_pkg + ".") for f in _target_pbs(files, targets)):
        # (no target file in the API package and sub-package names with a common string prefix: Naming takes the character-wise common
        #  prefix `acme.lib.v1.common` for the API package; the layout question is C11's — not judged here, listed in the evidence)
        ctx.count("layout_oracle", "skipped:target-file-outside-the-inferred-api-package")
        return
    for f in _target_pbs(files, targets):
        sub = [x for x in f.package[len(api_pkg):].split(".") if x]
        base = "/".join([vroot] + sub)
        want_types.add(f"{base}/types/{_u.to_snake_case(_file_module(f))}.py")      # (a file without messages may still get a module: only the PLACE is judged)
        for sv in f.service:
            want_svcs.add(f"{base}/services/{_u.to_snake_case(sv.name)}")
    got_types = {n for n in (x.name for x in res.file) if n.startswith(vroot + "/") and "/types/" in n and n.endswith(".py") and not n.endswith("__init__.py")}
    got_svcs = {n.rsplit("/", 1)[0] for n in (x.name for x in res.file) if n.startswith(vroot + "/") and n.endswith("/client.py") and "/services/" in n}
    ctx.count("layout_oracle", "checked")
    for n in sorted(got_types - want_types):
        ctx.fail("misplaced-module:types", f"{n} is emitted, but no target file of that (sub-)package declares it (expected types modules: {sorted(want_types)})", payload)
    for n in sorted(got_svcs - want_svcs):
        ctx.fail("misplaced-module:service", f"{n}/ is emitted, but no service of that (sub-)package exists (expected: {sorted(want_svcs)})", payload)
    for n in sorted((want_svcs - got_svcs)):
        ctx.fail("missing-module:service", f"{n}/ is not emitted", payload)


def build(spec):
    if "prefixsub" in spec:
        return build_prefixsub(spec)
    if "depname" in spec:
        return build_depname(spec)
    if "coincide" in spec:
        return build_coincide(spec)
    if "collision" in spec:
        return build_collision(spec)
    if "cycle" in spec:
        return build_cycle(spec)
    if "only_ref" in spec:
        return build_only_ref(spec)
    files = []
    dep = None
    if spec["dep_pkg"]:
        dep = apigen.File("other/common/v1/shared.proto", "other.common.v1", deps=[])
        sh = dep.msg("Shared"); sh.field("id"); sh.field("weight", "double")
        files.append(dep)
    objs = {}
    built = []
    prev_enums, prev_msgs, prev_names = [], [], []
    for f in spec["files"]:
        path = "/".join(f["pkg"].split(".")) + f"/{f['name']}.proto"
        fl = apigen.File(path, f["pkg"])
        if dep is not None:
            fl.dep(dep.name)
        for prev in built:
            fl.dep(prev.name)
        enums = [fl.enum(e["name"], e["values"]) for e in f["enums"]]
        for m in f["messages"]:
            mo = fl.msg(m["name"])
            objs[(f["pkg"], m["name"])] = mo
        for m in f["messages"]:
            mo = objs[(f["pkg"], m["name"])]
            if m["resource"]:
                mo.resource(f"lib.example.com/{m['name']}", "projects/{project}/" + m["name"].lower() + "s/{" + m["name"].lower() + "}")
            nested = mo.nested("Detail") if m["nested"] else None
            if nested is not None:
                nested.field("note"); nested.nested_enum("Level", ["LEVEL_UNSPECIFIED", "HIGH"])
            for fd in m["fields"]:
                n, kind = fd["name"], fd["kind"]
                req = fd["required"]
                if kind == "scalar": mo.field(n, fd["scalar"], required=req)
                elif kind == "enum" and enums: mo.field(n, "enum", type_name=r_pick_first(enums))
                elif kind == "message" and fd["target"] and tuple(fd["target"]) in objs: mo.field(n, "message", type_name=objs[tuple(fd["target"])])
                elif kind == "map": mo.map_field(n, fd["key"], "string")
                elif kind == "repeated": mo.field(n, fd["scalar"], repeated=True)
                elif kind == "optional": mo.field(n, fd["scalar"] if fd["scalar"] != "bytes" else "string", optional=True)
                elif kind == "self": mo.field(n, "message", type_name=mo)
                elif kind == "wkt": mo.field(n, "message", type_name=".google.protobuf.Timestamp")
                elif kind == "dep" and dep is not None: mo.field(n, "message", type_name=".other.common.v1.Shared")
                else: mo.field(n, "string")
            if m["oneof"]:
                mo.field("choice_a", "string", oneof="choice"); mo.field("choice_b", "int32", oneof="choice")
            if nested is not None:
                mo.field("detail", "message", type_name=nested)
            # a field NAMED like a sibling types module (or like the `proto` module every types file imports), declared BEFORE
            # fields whose types come from that sibling module: the emitted class body must still reach the module
            cl = m.get("collide")
            if cl and prev_names and (prev_enums or prev_msgs):
                host = mo
                if cl == "nested":
                    host = nested if nested is not None else mo.nested("Part")
                taken = {x.name for x in host.pb.field}
                nm = "proto" if cl == "proto" else prev_names[-1]
                if nm not in taken:
                    host.field(nm, "string")
                    if prev_enums: host.field("col_enum", "enum", type_name=prev_enums[-1])
                    if prev_msgs: host.field("col_msg", "message", type_name=prev_msgs[-1])
                    if prev_msgs: host.field("col_many", "message", repeated=True, type_name=prev_msgs[0])
                if cl == "nested" and nested is None:
                    mo.field("part", "message", type_name=host)
        host = built[-1] if (f.get("svc_only") and built) else fl      # where the request/response messages of the services are declared
        for svc in f["services"]:
            so = fl.service(svc["name"])
            for me in svc["methods"]:
                io = objs[tuple(me["io"])]
                rq = host.msg(me["name"] + "Request"); rq.field("name", "string", 1); rq.field("payload", "message", 2, type_name=io)
                http = ("post", "/v1/{name=things/*}:" + me["name"].lower()) if me["http"] else None
                body = "*" if me["http"] else None
                sigs = ["name"] if me["sig"] else []
                k = me["kind"]
                if k == "unary": so.method(me["name"], rq, io, http=http, body=body, sigs=sigs)
                elif k == "void": so.method(me["name"], rq, ".google.protobuf.Empty", http=http, body=body, sigs=sigs)
                elif k == "server": so.method(me["name"], rq, io, http=http, body=body, ss=True)
                elif k == "client": so.method(me["name"], rq, io, cs=True)
                elif k == "bidi": so.method(me["name"], rq, io, cs=True, ss=True)
                elif k == "lro":
                    so.method(me["name"], rq, ".google.longrunning.Operation", http=http, body=body, sigs=sigs,
                              lro=(io.full, "google.protobuf.Empty"))
                elif k == "paged":
                    prq = host.msg(me["name"] + "PageRequest"); prq.field("parent"); prq.field("page_size", "int32"); prq.field("page_token")
                    prs = host.msg(me["name"] + "PageResponse"); prs.field("items", "message", repeated=True, type_name=io); prs.field("next_page_token")
                    so.method(me["name"], prq, prs, http=("get", "/v1/{parent=things/*}/" + me["name"].lower()) if me["http"] else None)
        files.append(fl); built.append(fl)
        if f["pkg"] == spec["pkg"]:
            prev_enums += enums; prev_msgs += [objs[(f["pkg"], m["name"])] for m in f["messages"]]; prev_names.append(f["name"])
    targets = built
    return files, targets


def r_pick_first(xs):
    return xs[0]


def service_yaml_path(spec):
    d = tempfile.mkdtemp(prefix="gapicverif_yaml_", dir=genrun.SCRATCH)
    p = os.path.join(d, "service.yaml")
    with open(p, "w") as fh:
        fh.write("type: google.api.Service\nconfig_version: 3\nname: lib.example.com\ntitle: Library API\n"
                 "apis:\n- name: google.longrunning.Operations\nhttp:\n  rules:\n  - selector: google.longrunning.Operations.GetOperation\n    get: '/v1/{name=operations/*}'\n")
        if spec.get("rest_async"):
            fh.write("publishing:\n  library_settings:\n  - version: %s\n    python_settings:\n      experimental_features:\n        rest_async_io_enabled: true\n" % spec["pkg"])
    return d, p


def run_case(ctx, spec, label):
    import shutil
    payload = {"spec": spec}
    try:
        files, targets = build(spec)
        opts = list(spec["opts"])
        ydir = None
        if spec.get("service_yaml"):
            ydir, yp = service_yaml_path(spec)
            opts.append("service-yaml=" + yp)
        req = apigen.request(files, ",".join(opts), targets=targets)
        ctx.count("package_graph", "cyclic" if package_graph_cyclic(files, targets) else "acyclic")
    except Exception as e:          # our own descriptor builder rejected the spec: not a case
        ctx.count("builder", f"rejected:{type(e).__name__}:{str(e)[:80]}")      # (the stand-in for protoc refused OUR input; listed in the evidence)
        return
    try:
        res, err = genrun.try_generate(req)
        if err:
            key = "generation:" + err[0]
            # trigger: a service declared in a proto sub-package, snippets on; symptom: generate_sample_specs misses exactly `<api package>.<that service>`
            if ("autogen-snippets=false" not in opts and err[0] == "KeyError@samplegen/samplegen.py:generate_sample_specs"
                    and err[1].strip() in {repr(f"{spec['pkg']}.{n}") for n in services_in_subpackages(files, targets, spec["pkg"])}):
                key = "generation:KeyError:service-in-subpackage-with-snippets"
            ctx.fail(key, f"generator raised {err[0]}: {err[1]}", payload)
            return
        bad = []
        for f in res.file:
            if f.name.endswith(".py"):
                try:
                    compile(f.content, f.name, "exec")
                except SyntaxError as e:
                    bad.append((f.name, e.lineno, e.msg))
            elif f.name.endswith(".json"):
                try:
                    json.loads(f.content)
                except ValueError as e:
                    ctx.fail("json-invalid", f"{f.name}: {e}", payload)
        if bad:
            import keyword as _kw, re as _re
            line_of = {b[0]: next(f.content for f in res.file if f.name == b[0]).splitlines()[(b[1] or 1) - 1].strip() for b in bad}
            no_ns = len(spec["pkg"].split(".")) <= 2 and not any(o.startswith("python-gapic-namespace=") for o in spec["opts"])
            groups = {"noxfile": [b for b in bad if b[0] == "noxfile.py"], "samples": [b for b in bad if b[0].startswith("samples/")],
                      "tests": [b for b in bad if b[0].startswith("tests/")]}
            groups["library"] = [b for b in bad if not any(b in g for g in groups.values())]
            for where, grp in groups.items():
                if not grp:
                    continue
                key = "syntax-error:" + ("library" if where == "noxfile" else where)
                if where == "noxfile" and no_ns and _re.fullmatch(r'session\.run\("flake8", "\w+, "tests"\)', line_of["noxfile.py"]):
                    key = "syntax-error:noxfile:package-without-namespace"
                if where == "samples" and no_ns and all(_re.fullmatch(r"from  import \w+", line_of[b[0]]) for b in grp):
                    key = "syntax-error:samples:package-without-namespace"
                if where in ("library", "tests", "samples") and not key.endswith("package-without-namespace"):
                    pairs = keyword_enum_values(files, targets)
                    kws = {v for _, v in pairs}
                    def about_kw_value(name, line, msg):      # the declaration `None = 1` in a types module, or a use `<Enum>.None` elsewhere
                        m = _re.fullmatch(r"(\w+) = -?\d+", line)
                        return bool(m and m.group(1) in kws and "/types/" in name) or any(_re.search(r"\b%s\.%s\b" % (e, k), line) for e, k in pairs)
                    if kws and all(about_kw_value(b[0], line_of[b[0]], b[2]) for b in grp):
                        key = "syntax-error:enum-value-is-python-keyword"
                ctx.fail(key, f"{len(grp)} emitted file(s) do not parse, e.g. {grp[0]}", payload)
            if groups["library"]:      # (noxfile.py, samples and tests are not modules of the package: the import clauses are still judged)
                return
        api, o = genrun.build_api(req)
        ex0 = api.all_library_settings[api.naming.proto_package].python_settings.experimental_features
        t2_proto_names(ctx, api, payload)
        if not spec["ads"]:
            misplaced_module_oracle(ctx, res, api, files, targets, payload)
        static_import_oracle(ctx, res, api, spec, payload)
        sample_import_oracle(ctx, res, api, payload)
        name_error_oracle(ctx, res, api, spec, payload)
        if not spec["ads"]:
            service_import_graph(ctx, res, api, o, ex0.rest_async_io_enabled, payload)
        small = [f for f in res.file if len(f.content) < 3000 and not f.name.startswith("samples/")]
        for f, mo in zip(small, ctx.driver.ask([{"op": "c01.empty", "content": f.content, "name": f.name} for f in small])):
            if mo.get("keep") is not True:      # an emitted file is one `_get_file` kept
                ctx.disagree("T3:c01.keep", f"{f.name} was emitted but the model of the empty-module rule drops it: {mo}", payload)
        root = genrun.materialise(res)
        try:
            if spec["dep_pkg"]:
                genrun.materialise_pb2(root, files[0].pb)
            ns = ".".join(api.naming.module_namespace)
            pkg = (ns + "." if ns else "") + api.naming.versioned_module_name
            ops = [{"op": "import_all", "package": pkg}]
            svcs = list(api.services.values())
            for s in svcs:
                loc = rpc.py_locations(api, s)
                ops.append({"op": "registry", "module": loc["client"].split(":")[0], "attr": s.client_name})
                ops.append({"op": "dir", "module": loc["client"].split(":")[0], "attr": s.client_name})
                ops.append({"op": "dir", "module": loc["client"].split(":")[0], "attr": s.async_client_name})
            out = libhost.run(root, ops, timeout=300)
        finally:
            genrun.cleanup(root)
        imp = out[0]
        if "child_error" in imp or imp.get("errors"):
            key = "import-error"
            etxt = str(imp.get("errors") or imp)
            import re as _re4
            tfiles = {_file_module(f) for f in _target_pbs(files, targets)}
            # (0) exhibit: the AttributeError names a module that a SECOND import statement bound to a name an earlier import had bound to
            # another module (the first module is the one that has the attribute): the two imports needed different aliases
            detail = ""
            mattr = _re4.search(r"AttributeError', \"module '([\w.]+)' has no attribute '(\w+)'", etxt)
            if mattr:
                nsd0 = list(api.naming.module_namespace)
                reb = [(fn, nm, srcs) for fn, nm, srcs in import_rebinds(res, [nsd0 + api.naming.versioned_module_name.split(".")]) if srcs[-1] == mattr.group(1)]
                if reb:
                    key = "import-error:import-rebinds-module-name"
                    detail = f"; {reb[0][0]} binds `{reb[0][1]}` by imports of {reb[0][2]}"
                    # known finding: the two modules are same-named files of two packages with the SAME alias initials, and the missing
                    # attribute is declared in the twin
                    twins = same_initials_twins(files, targets, api.naming.version).get(mattr.group(1).split(".")[-1], [])
                    decl = {f.package: {m.name for m in f.message_type} | {e.name for e in f.enum_type} for f in twins}
                    base0 = mattr.group(1).split(".")[-1]
                    aliased = bool(twins) and any(r0[1] == f"{alias_initials(twins[0].package, api.naming.version)}_{base0}" for r0 in reb)
                    if aliased and len(twins) > 1 and any(mattr.group(2) in names for names in decl.values()) and all(s0.split(".")[-1] == reb[0][2][0].split(".")[-1] for s0 in reb[0][2]):
                        key = "import-error:module-alias-collision-same-initials"
            # (1) trigger: async-REST experiment on and gRPC not requested; symptom: the one module async_client.py imports unconditionally is missing
            if (ex0.rest_async_io_enabled and "grpc" not in o.transport and "ModuleNotFoundError" in etxt
                    and _re4.search(r"No module named '[\w.]+\.transports\.grpc_asyncio'", etxt)):
                key = "import-error:async-rest-without-grpc"
            # (2) trigger: a message named like a typing import is the LAST class of its types module (next to another class); symptom: that
            # file's descriptor is built twice, or another file cannot resolve that message, or an AttributeError naming it
            tn = typing_named_last(files, targets, res)
            mdup = _re4.search(r"duplicate file name [\w/]+/types/(\w+)\.proto", etxt)
            mres = _re4.search(r"couldn't resolve name '([\w.]+)'", etxt)
            if tn and ((mdup and mdup.group(1) in tn) or (mres and mres.group(1) in tn.values())
                       or ("AttributeError" in etxt and any(f"'{n}'" in etxt for n in TYPING_NAMES))):
                key = "import-error:message-named-like-typing-import"
            # (2b) trigger: a message named MutableSequence is the item type of a paged method; symptom: pagers.py reads `<module>.Iterator` /
            # `<module>.AsyncIterator` on the types module that declares it
            mit = _re4.search(r"AttributeError', \"module '[\w.]+\.types\.(\w+)' has no attribute '(Iterator|AsyncIterator)'", etxt)
            if mit and mit.group(1) in paged_items_named_mutable_sequence(files, targets):
                key = "import-error:pager-item-named-MutableSequence"
            # (3) trigger: a TARGET file named like a module / import alias the service templates bind; symptom: the template's own attribute
            # is looked up on the types module of that name
            msh = _re4.search(r"AttributeError', \"module '[\w.]+\.types\.(\w+)' has no attribute '(\w+)'", etxt)
            if msh and msh.group(1) in tfiles and msh.group(2) in SHADOWED_ATTRS.get(msh.group(1), ()):
                key = "import-error:types-module-shadows-template-import"
            # (4) trigger: proto packages that use each other's types in a cycle; symptom: the half-initialised module is a types module of a
            # target file of one of THOSE packages
            mpi = _re4.search(r"partially initialized module '[\w.]+\.types\.(\w+)'", etxt)
            cyc = packages_on_cycle(files, targets)
            if mpi and cyc and any(_file_module(f) == mpi.group(1) and f.package in cyc for f in _target_pbs(files, targets)):
                key = "import-error:package-level-import-cycle"
            ctx.fail(key, f"package {pkg} does not import: {str(imp.get('errors') or imp)[:400]}{detail}", payload)
            return
        ex = api.all_library_settings[api.naming.proto_package].python_settings.experimental_features
        mo = ctx.driver.ask([{"op": "c01.registry", "transport": list(o.transport), "restAsync": bool(ex.rest_async_io_enabled)}])[0]
        if spec["ads"]:       # the alternative template set has no asyncio surface at all (by construction of that set)
            want_keys = (["grpc"] if "grpc" in spec["transport"] else []) + (["rest"] if "rest" in spec["transport"] else [])
        else:
            want_keys = (["grpc", "grpc_asyncio"] if "grpc" in spec["transport"] else []) + (["rest"] if "rest" in spec["transport"] else [])
            if spec.get("rest_async") and "rest" in spec["transport"]:
                want_keys.append("rest_asyncio")
        for i, s in enumerate(svcs):
            reg, d_sync, d_async = out[1 + 3 * i], out[2 + 3 * i], out[3 + 3 * i]
            ctx.traces += 1
            if "raised" in reg or "raised" in d_sync:
                ctx.fail("client-missing", f"{s.client_name}: {reg}", payload)
                continue
            if reg["keys"] != want_keys:
                ctx.fail("registry", f"{s.client_name}._transport_registry keys {reg['keys']} for transports {spec['transport']}", payload)
            want_default = {"grpc": f"{s.name}GrpcTransport", "rest": f"{s.name}RestTransport"}[want_keys[0]]
            if reg["default"] != want_default:
                ctx.fail("default-transport", f"{s.client_name} default transport {reg['default']}, expected {want_default}", payload)
            has_async = "raised" not in d_async
            if not spec["ads"] and has_async != ("grpc" in spec["transport"] or bool(spec.get("rest_async"))):
                ctx.fail("async-client", f"{s.async_client_name} present={has_async} for transports {spec['transport']}", payload)
            if not spec["ads"] and (reg["keys"] != mo["registry"] or has_async != mo["async_client"]):
                ctx.disagree("T3:c01.registry", f"model registry {mo['registry']}/async {mo['async_client']} vs impl {reg['keys']}/{has_async}", payload)
        # file set vs the Emit model (default templates only)
        if not spec["ads"]:
            op = {"op": "c11.renders", "templates": "default", "shape": c11.shape_of(api),
                  "opts": {"transport": list(o.transport), "metadata": bool(o.metadata), "restAsync": bool(ex.rest_async_io_enabled),
                           "unversionedDisabled": bool(ex.unversioned_package_disabled)}}
            mf = sorted(set(ctx.driver.ask([op])[0]["files"]))
            got = sorted(f.name for f in res.file if not f.name.startswith("samples/"))
            extra = [n for n in got if n not in mf]
            missing = [n for n in mf if n not in got and not (n.endswith("/pagers.py") or n == "examples/feature_fragments" or n.endswith("/test_macros"))]
            if extra or missing:
                ctx.disagree("T3:c01.file-set", f"emitted but not in model {extra[:3]}; in model but not emitted {missing[:3]}", payload)
        ctx.count("transport", "+".join(spec["transport"])); ctx.count("templates", "ads" if spec["ads"] else "default")
        for f in spec["files"]:
            for sv in f["services"]:
                for me in sv["methods"]:
                    ctx.count("method_kind", me["kind"])
    finally:
        if spec.get("service_yaml") and ydir:
            shutil.rmtree(ydir, ignore_errors=True)


def run(ctx):
    ctx.rule = ("general profile: proto package with or without namespace segments / version, 1..3 files (optionally one in a proto sub-package, optionally a dependency package), messages with scalar/"
                "enum/message/map/repeated/optional/self-recursive/well-known/cross-package fields, nested types, oneofs, resources, 1..2 "
                "services (optionally one more in the sub-package) with unary/void/paged/LRO/streaming methods, HTTP rules and signatures x options (transport incl. rest+grpc, numeric enums, metadata, "
                "snippets, name/namespace/warehouse overrides, service-yaml, ads templates + old-naming) + the only-reference family (library.proto names another "
                "file — same package, sub-package, dependency package, well-known type — in exactly one way: plain/repeated/oneof/map-value field, the same "
                "inside a nested message, LRO response/metadata, method input/output, page item, resource reference), the collision family (same-named "
                "files in two packages of the API) and the namesake family (a nested message named like a top-level message, depth 1 or 2, using that "
                "message's nested enum / message) and the dependency-namesake family (an API file called like the dependency file whose type it uses); "
                "sibling sub-packages named by string prefixes of each other (common / common_ext; a / ab / abc); distinct by spec")
    ctx.assume("the alternative (ads) template set offers no asyncio client or transport: for it only the synchronous surface is checked")
    ctx.assume("a proto package without a version segment has no proto sub-packages (Naming.build rejects `solo` + `solo.admin`)")
    ctx.assume("sibling sub-packages named by string prefixes of each other are generated next to a target file in the API package itself")
    ctx.assume("Python's parser and importer are not modelled: `parses and imports` is decided by execution on every case")
    r = ctx.rng("general")
    t2_empty(ctx, ctx.rng("empty"))
    for k, spec in enumerate(finding_specs()):
        run_case(ctx, spec, f"finding{k}")
        ctx.case({"finding": k}, distinct_key=["finding", k])
    for k, spec in enumerate(stress_specs()):
        run_case(ctx, spec, f"stress{k}")
        ctx.case({"stress": k, "opts": spec["opts"]}, distinct_key=["stress", k])
    for k, spec in enumerate(sub_service_specs()):
        run_case(ctx, spec, f"subsvc{k}")
        ctx.case({"subsvc": k, "opts": spec["opts"]}, distinct_key=["subsvc", k])
    for k, spec in enumerate(namespaceless_specs()):
        run_case(ctx, spec, f"nons{k}")
        ctx.case({"nons": k, "pkg": spec["pkg"], "opts": spec["opts"]}, distinct_key=["nons", k])
    # (the random streams keep the package graph acyclic: a sub-package file is declared first and uses only its own types; the two
    #  cyclic shapes are the fixed cases below, matched by their key)
    for k, spec in enumerate(cycle_specs()):
        run_case(ctx, spec, f"cycle{k}")
        ctx.case({"cycle": spec["cycle"]}, distinct_key=["cycle", spec["cycle"]])
    # same-named modules in two packages of the API, referenced from one message / two messages / a message and a request / nested messages
    rc = ctx.rng("collision")
    allc = [(lay, sh) for lay in COLLISION_LAYOUTS for sh in COLLISION_SHAPES]
    fixedc = [(("root", "admin"), "two_messages"), (("admin", "billing"), "two_messages"), (("root", "admin"), "nested_in_two"), (("admin", "audit"), "one_message")]
    restc = [c for c in allc if c not in fixedc]
    rc.shuffle(restc)
    for k, (lay, sh) in enumerate(fixedc + restc[:ctx.n(5, len(restc))]):
        spec = collision_spec(lay, sh, tr=rc.pick(["grpc", "rest", "grpc+rest"]), lib_in="admin" if lay == ("admin", "root") else None)
        run_case(ctx, spec, f"collision{k}")
        ctx.count("collision", f"{'+'.join(lay)}:{sh}")
        ctx.case({"collision": [list(lay), sh]} if k < 2 else None, distinct_key=["collision", list(lay), sh, spec["opts"][0]])
    # a nested message named like a top-level message (same file / other file / sub-package) that uses the top-level message's nested types
    rn = ctx.rng("coincide")
    fixedn = [(1, "same", "both"), (2, "same", "both"), (1, "other", "enum")]
    restn = [v for v in COINCIDE_VARIANTS if v not in fixedn]
    rn.shuffle(restn)
    for k, (depth, where, refs) in enumerate(fixedn + restn[:ctx.n(3, len(restn))]):
        spec = coincide_spec(depth, where, refs, tr=rn.pick(["grpc", "rest", "grpc+rest"]))
        run_case(ctx, spec, f"coincide{k}")
        ctx.count("coincide", f"{depth}:{where}:{refs}")
        ctx.case({"coincide": [depth, where, refs]} if k < 2 else None, distinct_key=["coincide", depth, where, refs, spec["opts"][0]])
    # an API file named like the dependency file whose type it uses (status.proto x google.rpc.Status, ...), root package and sub-package
    rd = ctx.rng("depname")
    alld = [(b, w, u) for b in sorted(dep_namesakes_available()) for w in ("root", "sub") for u in DEP_USES]
    fixedd = [v for v in [("status", "root", "field"), ("timestamp", "root", "map_value"), ("operations", "sub", "field")] if v in alld]
    restd = [v for v in alld if v not in fixedd]
    rd.shuffle(restd)
    for k, (base, where, use) in enumerate(fixedd + restd[:ctx.n(4, 60)]):
        spec = depname_spec(base, where, use, tr=rd.pick(["grpc", "rest", "grpc+rest"]))
        run_case(ctx, spec, f"depname{k}")
        ctx.count("depname", f"{base}:{where}:{use}")
        ctx.case({"depname": [base, where, use]} if k < 2 else None, distinct_key=["depname", base, where, use, spec["opts"][0]])
    # sibling sub-packages whose names are string prefixes of each other, a service in some of them
    rp = ctx.rng("prefixsub")
    # (a file in the API package anchors the inferred package: without one, `common` + `common_ext` infer `acme.lib.v1.common`)
    allp = [(subs, svc_in, True) for subs in PREFIX_SUBS for svc_in in ([subs[-1]], [subs[0]], list(subs), [])]
    fixedp = [(PREFIX_SUBS[0], ["common_ext"], True), (PREFIX_SUBS[2], ["ab", "abc"], True)]
    restp = [v for v in allp if v not in fixedp]
    rp.shuffle(restp)
    for k, (subs, svc_in, rs) in enumerate(fixedp + restp[:ctx.n(2, len(restp))]):
        spec = prefixsub_spec(subs, svc_in, rs, tr=rp.pick(["grpc", "rest", "grpc+rest"]))
        run_case(ctx, spec, f"prefixsub{k}")
        ctx.count("prefixsub", "+".join(subs))
        ctx.case({"prefixsub": [subs, svc_in, rs]} if k < 2 else None, distinct_key=["prefixsub", subs, svc_in, rs, spec["opts"][0]])
    # one file references another in exactly one way (map value, oneof member, nested field, LRO type, method input/output, ...)
    ro = ctx.rng("only-ref")
    matrix = only_ref_matrix()
    fixed = [(w, k, wh) for (w, k, wh) in matrix if w in ("map_value", "nested_map") and wh in ("same", "wkt") and (k == "message" or w == "map_value")]
    rest = [m for m in matrix if m not in fixed]
    ro.shuffle(rest)
    for k, (way, kind, where) in enumerate(fixed + rest[:ctx.n(10, len(rest))]):
        spec = only_ref_spec(way, kind, where, tr=ro.pick(["grpc", "rest", "grpc+rest"]), mirror=ro.maybe(0.3))
        run_case(ctx, spec, f"onlyref{k}")
        ctx.count("only_ref", f"{way}:{kind}:{where}")
        ctx.case({"only_ref": [way, kind, where]} if k < 2 else None, distinct_key=["only_ref", way, kind, where, spec["only_ref"]["mirror"], spec["opts"][0]])
    for i in range(ctx.n(20, 500)):
        spec = gen_spec(r)
        run_case(ctx, spec, f"case{i}")
        ctx.case({"pkg": spec["pkg"], "opts": spec["opts"], "files": [(f["name"], len(f["messages"]), len(f["services"])) for f in spec["files"]]} if i < 3 else None,
                 distinct_key=["spec", json.dumps(spec, sort_keys=True)])


def search(ctx):
    r = ctx.rng("search")
    for i in range(120):
        run_case(ctx, gen_spec(r), f"search{i}")


def replay(ctx, payload):
    import leanio
    ctx.driver = leanio.Driver()
    run_case(ctx, payload["spec"], "replay")
    for f in ctx.failures:
        print("  failure:", f["key"], "-", f["what"])
    return not ctx.failures


CLAIM = dict(
    text="Lean 4 proofs of the transport/client gating: the transport registry holds exactly the requested transports, gRPC is the default "
         "when requested and REST otherwise, transport modules are emitted exactly for the requested transports, one sync client module per "
         "service and an asyncio client module iff gRPC (all option lists over {grpc, rest}); the import statements BETWEEN the modules of a "
         "service package (client, async client, pagers, transports) name emitted modules only and, read by Python's rule for relative imports, "
         "the files the generator renders — every API shape, every view incl. sub-packages, every service — unless the async-REST experiment "
         "is on without gRPC (hypothesis proved necessary; open finding); the registry's classes are the ones client.py imports; the client "
         "names the package __init__ asks for are bound by the service package; utils.empty characterised line by line. Tie: T1 bridge of the "
         "template lists; T2 utils.empty / the keep-or-drop test, Proto.names (module collisions counted over the whole file: theorem collision_across_messages); T3 the imported clients' registry/default/async presence, the emitted file-name "
         "set, and per service the emitted modules and the import statements of each (AST) vs the model. Oracle also names every unconditional "
         "import between emitted modules that cannot succeed (module not emitted / name not bound). The clause `every .py parses, the "
         "package and all sub-modules import, JSON artefacts parse` is decided by EXECUTION on every generated case (compile(), fresh-"
         "interpreter import with pkgutil.walk_packages, json.loads), not proved.",
    technique="Lean 4 theorems about the gating model (decide over template names) + generate-and-import exploration with differential T3",
    design="7.1",
    note="Importability itself is outside any model here (CPython, jinja2 and the ~100 templates are the runtime shell): explored, not proved. "
         "Not modelled: imports of types modules (address-computed; C02/C03/C08 model Address), names bound vs used inside a module, the ads set.",
)
