"""C02 — generated message and enum classes are wire-compatible with the input descriptors (DESIGN §7.2).

A case is a *file set* of one API package (1..3 files, all of them targets; a file may lie in a SUB-PACKAGE of the
API package: f["sub"]) described by a small JSON spec; descriptors are built from the spec exactly as protoc would lay
them out.  Per case:
  T2   real Field.name / proto_type / oneof / map, Address.rel / __str__ / module_alias / python_import
       and EnumType values  vs  the Lean model (ops c02.names, c02.rel, c02.tables, c02.enum);
  T3   the library is generated, imported in a fresh interpreter (libhost op `types_session`), the RUN-TIME
       descriptor of every emitted class is compared with the model's prediction (op c02.module);
  oracle (model-independent): run-time descriptor ≅ input descriptor (number, type, label, referenced type,
       oneof membership, presence, map key/value, nesting, enum values, attribute = name [+ "_" iff reserved]),
       two-way binary round trip against a dynamic message built from the INPUT files, to_json keys/values =
       protobuf's own JSON of the dynamic message (lowerCamel of the original names), from_json accepted.
"""
from __future__ import annotations
import base64, copy, json, os, re
from google.protobuf import descriptor_pb2 as dp, json_format
import apigen, genrun, libhost, rpc

T = apigen.T
TN = {v: k for k, v in T.items()}
SCALARS = apigen.SCALARS
HERE = os.path.dirname(os.path.abspath(__file__))
ROOT = os.path.dirname(os.path.dirname(HERE))

PACKAGES = ["acme.lib.v1", "acme.data_store.v2beta1"]
TOP_NAMES = ["A", "B", "C", "X", "Y", "Item", "Node", "Kind", "Shared", "Alpha", "Timestamp", "Value",
             "Status", "Tree", "Leaf", "Common"]
NESTED_NAMES = ["A", "B", "C", "X", "Item", "Node", "Kind", "Shared", "Alpha", "Timestamp", "Value", "Inner"]
FILE_NAMES = ["alpha", "shared", "item", "type", "kind", "common", "value", "proto"]
ONEOF_NAMES = ["pick", "choice", "kind_of", "type", "source", "from"]
PLAIN_FIELDS = ["name", "id", "alpha", "shared", "item", "kind", "proto", "value", "a", "b", "x", "node",
                "display_name", "item_id", "a_1", "b2b", "common", "parent", "page_size", "etag", "x_y_z",
                "timestamp", "status", "details", "key", "entry",
                # names that differ from another pool name only by case or by a trailing underscore (distinct JSON names
                # are enforced by fresh_name, as protoc does)
                "Name", "ID", "Type", "type_", "from_", "name_", "nameValue", "kind_"]
RESERVED_FIELDS = ["type", "class", "import", "from", "in", "max", "format", "next", "list", "hash", "object",
                   "self", "cls", "license", "all", "not", "None", "True", "zip", "mapping", "ignore_unknown_fields"]
# names of the NON-FIELD members the message template prints into a class body (helper properties `raw_page`, printed
# for a message that has `next_page_token`, and `done`, printed for an extended-operation status message) ...
HELPER_FIELDS = ["raw_page", "next_page_token", "done"]
# ... and of the class-level API proto-plus gives every message class (methods / property of its metaclass): legal proto
# field names like any other (the statement quantifies over all field names)
CLASS_API_FIELDS = ["pb", "to_json", "to_dict", "from_json", "serialize", "deserialize", "wrap", "copy_from", "meta"]
EXT_MSGS = ["google.protobuf.Timestamp", "google.protobuf.Duration", "google.protobuf.Any", "google.protobuf.Struct",
            "google.protobuf.Value", "google.protobuf.FieldMask", "google.protobuf.Empty", "google.protobuf.Int32Value",
            "google.protobuf.StringValue", "google.rpc.Status", "google.type.Expr", "google.longrunning.Operation",
            "google.api.HttpRule", "google.api.ResourceDescriptor", "google.api.CustomHttpPattern"]
EXT_ENUMS = ["google.api.LaunchStage", "google.api.FieldBehavior", "google.api.ResourceDescriptor.History",
             "google.api.ResourceDescriptor.Style"]


def pinned_reserved():
    """the T1-pinned RESERVED_NAMES table (the property's "reserved words"); its equality with the live
    table is the bridge lemma Bridge.reservedNames"""
    src = open(os.path.join(ROOT, "lean", "GapicModel", "Pinned", "Tables.lean"), encoding="utf-8").read()
    m = re.search(r"def reservedNames : List String := (\[.*?\])\n", src)
    return set(json.loads(m.group(1)))


RESERVED = pinned_reserved()

_EXT = None


def ext_index():
    """full name -> (kind, file name, package, path) for every type of the installed dependency files"""
    global _EXT
    if _EXT is None:
        _EXT = {}
        for f in apigen.dep_files():
            def walk(msgs, enums, prefix, path):
                for e in enums:
                    _EXT[f"{prefix}.{e.name}"] = ("enum", f.name, f.package, path + [e.name])
                for m in msgs:
                    _EXT[f"{prefix}.{m.name}"] = ("message", f.name, f.package, path + [m.name])
                    walk(m.nested_type, m.enum_type, f"{prefix}.{m.name}", path + [m.name])
            walk(f.message_type, f.enum_type, f.package, [])
    return _EXT


def ask(ctx, ops):
    """driver call that survives the binary being relinked by a concurrent `lake build driver`"""
    import time
    for attempt in range(40):
        try:
            return ctx.driver.ask(ops)
        except (FileNotFoundError, PermissionError, OSError) as e:
            if attempt == 39:
                raise
            time.sleep(3)


# sub-packages of the target package (<api package>.<sub>): their files are rendered through the `%sub` directory of the
# templates into <root>/<sub>/types/<file>.py; some names are also file / field names (module-name collisions)
SUB_NAMES = ["catalog", "common", "shared", "item", "kind", "alpha", "admin_v2"]
EX_OPS_PROTO = "google/cloud/extended_operations.proto"
DEP_PACKAGE = "acme.dep.v1"
DEP_FILE_NAMES = ["shared", "common", "item", "dep_types", "value"]


def ext_lookup(spec, ref):
    """a type outside the target package: of the proto-plus dependency package of the spec (spec["dep"], generated
    as its own library and named in `proto-plus-deps`) or of an installed dependency file"""
    d = spec.get("dep")
    if d:
        ds = symbols(d)
        if ref in ds:
            x = ds[ref]
            return {"kind": x["kind"], "proto": proto_path(d, x), "package": x["package"], "path": x["path"],
                    "proto_plus": True, "module": x["file"],
                    "field_refs": [fl.get("ref") for fl in x["spec"]["fields"] if fl.get("ref")] if x["kind"] == "message" else [],
                    "has_map": x["kind"] == "message" and any(fl["card"] == "map" for fl in x["spec"]["fields"])}
    kind, fname, package, path = ext_index()[ref]
    return {"kind": kind, "proto": fname, "package": package, "path": path, "proto_plus": False,
            "module": fname.split("/")[-1][:-len(".proto")],
            "field_refs": ext_field_types(ref) if kind == "message" else [], "has_map": False}


def in_proto_plus_package(spec, full):
    """the message lives in a package whose classes are proto-plus classes (target package or spec["dep"])"""
    return full.startswith(spec["package"] + ".") or (spec.get("dep") is not None and full.startswith(spec["dep"]["package"] + "."))


# --------------------------------------------------------------------------------------------- spec → descriptors

def file_pkg(spec, f):
    """proto package of one file: the package of the spec (the API's package) or a SUB-PACKAGE of it (f["sub"], dotted)"""
    return spec["package"] + ("." + f["sub"] if f.get("sub") else "")


def fkey(f):
    """identity of a file (or of the file of a symbol) inside a spec: two files of different sub-packages may share a name"""
    return (f.get("sub") or "", f.get("file", f.get("name")))


def proto_path(spec, f):
    return file_pkg(spec, f).replace(".", "/") + "/" + f.get("file", f.get("name")) + ".proto"


def py_types_package(pypkg, sub):
    """python package holding the types modules of a (sub-)package: <root>[.<sub>].types"""
    return pypkg + ("." + sub if sub else "") + ".types"


def map_entry_name(field_name):
    """protoc's MapEntryName"""
    out, cap = [], True
    for ch in field_name:
        if ch == "_":
            cap = True
        elif cap:
            out.append(ch.upper() if "a" <= ch <= "z" else ch)
            cap = False
        else:
            out.append(ch)
    return "".join(out) + "Entry"


def symbols(spec):
    """full name -> {kind, file, sub, package, path}; messages and enums of the target package and its sub-packages
    (map entries excluded)"""
    out = {}
    for f in spec["files"]:
        fp, sub = file_pkg(spec, f), f.get("sub") or ""

        def walk(msgs, enums, path):
            for e in enums:
                out[".".join([fp] + path + [e["name"]])] = {"kind": "enum", "file": f["name"], "sub": sub, "package": fp,
                                                            "path": path + [e["name"]], "spec": e}
            for m in msgs:
                out[".".join([fp] + path + [m["name"]])] = {"kind": "message", "file": f["name"], "sub": sub, "package": fp,
                                                            "path": path + [m["name"]], "spec": m}
                walk(m.get("messages", []), m.get("enums", []), path + [m["name"]])
        walk(f["messages"], f["enums"], [])
    return out


def _enum_pb(e, pb):
    pb.name = e["name"]
    for n, v in e["values"]:
        pb.value.add(name=n, number=v)
    if e.get("alias"):
        pb.options.allow_alias = True


def _set_type(fpb, typ, ref):
    fpb.type = T[typ]
    if typ in ("message", "enum"):
        fpb.type_name = "." + ref


def _msg_pb(m, pb, full):
    pb.name = m["name"]
    for e in m.get("enums", []):
        _enum_pb(e, pb.enum_type.add())
    for n in m.get("messages", []):
        _msg_pb(n, pb.nested_type.add(), full + "." + n["name"])
    for o in m.get("oneofs", []):
        pb.oneof_decl.add(name=o)
    synthetic = []
    for fl in m["fields"]:
        f = pb.field.add(name=fl["name"], number=fl["number"], json_name=apigen.json_name(fl["name"]))
        if fl.get("opfield"):      # (google.cloud.operation_field) = NAME | STATUS | ERROR_CODE | ERROR_MESSAGE
            from google.cloud import extended_operations_pb2 as ex_ops
            f.options.Extensions[ex_ops.operation_field] = ex_ops.OperationResponseMapping.Value(fl["opfield"])
        card = fl["card"]
        if card == "map":
            en = map_entry_name(fl["name"])
            e = pb.nested_type.add(name=en)
            e.options.map_entry = True
            e.field.add(name="key", number=1, type=T[fl["key"]], label=1, json_name="key")
            v = e.field.add(name="value", number=2, label=1, json_name="value")
            _set_type(v, fl["type"], fl.get("ref"))
            f.type, f.label, f.type_name = 11, 3, f".{full}.{en}"
            continue
        _set_type(f, fl["type"], fl.get("ref"))
        f.label = 3 if card == "repeated" else 1
        if card.startswith("oneof:"):
            f.oneof_index = m["oneofs"].index(card[6:])
        elif card == "optional":
            f.proto3_optional = True
            synthetic.append(f)
    for f in synthetic:       # synthetic oneofs come after the real ones, in field order
        pb.oneof_decl.add(name="_" + f.name)
        f.oneof_index = len(pb.oneof_decl) - 1


def build_files(spec):
    syms = symbols(spec)
    out = []
    for f in spec["files"]:
        pb = dp.FileDescriptorProto(name=proto_path(spec, f), package=file_pkg(spec, f), syntax="proto3")
        deps = []

        def note(ref):
            if ref is None:
                return
            if ref in syms:
                if fkey(syms[ref]) != fkey(f):
                    d = proto_path(spec, syms[ref])
                    if d not in deps:
                        deps.append(d)
            else:
                d = ext_lookup(spec, ref)["proto"]
                if d not in deps:
                    deps.append(d)

        def scan(msgs):
            for m in msgs:
                for fl in m["fields"]:
                    note(fl.get("ref"))
                    if fl.get("opfield") and EX_OPS_PROTO not in deps:
                        deps.append(EX_OPS_PROTO)
                scan(m.get("messages", []))
        scan(f["messages"])
        pb.dependency.extend(deps)
        for e in f["enums"]:
            _enum_pb(e, pb.enum_type.add())
        for m in f["messages"]:
            _msg_pb(m, pb.message_type.add(), file_pkg(spec, f) + "." + m["name"])
        out.append(pb)
    return out


# --------------------------------------------------------------------------------------------- generator

def gen_enum(r, name, prefix_scope=""):
    up = re.sub(r"(?<!^)([A-Z])", r"_\1", name).upper()
    vals = [[f"{up}_UNSPECIFIED", 0]]
    k = r.randint(1, 4)
    nums = r.sample([1, 2, 3, 4, 5, 7, 16, 127, 128, 1000, 2147483647], k)
    if r.maybe(0.6):
        nums.sort()
    for i, n in enumerate(nums):
        vals.append([f"{up}_{'ABCDEFGH'[i]}", n])
    e = {"name": name, "values": vals}
    if r.maybe(0.12):
        vals.append([f"{up}_ALIAS", vals[-1][1]])
        e["alias"] = True
    return e


def gen_skeleton(r, depth, used, big):
    pool = TOP_NAMES if depth == 1 else NESTED_NAMES
    cands = [n for n in pool if n not in used]
    name = r.pick(cands)
    used.add(name)
    m = {"name": name, "oneofs": [], "fields": [], "messages": [], "enums": []}
    inner = set()
    if depth < 4:
        p = [0.5, 0.4, 0.3][depth - 1]
        nn = 0
        while nn < 3 and r.maybe(p):
            m["messages"].append(gen_skeleton(r, depth + 1, inner, big))
            nn += 1
    if depth < 4 and r.maybe(0.25):
        cand = [n for n in NESTED_NAMES if n not in inner]
        en = r.pick(cand)
        inner.add(en)
        m["enums"].append(gen_enum(r, en))
    return m


def all_msgs(m, path):
    yield m, path + [m["name"]]
    for n in m.get("messages", []):
        yield from all_msgs(n, path + [m["name"]])


def gen_subs(r, fnames):
    """sub-package of each file ("" = the API's own package): at least one file stays in the root package (the API package
    is the common prefix of the target files' packages), at least one goes to a sub-package one or two levels down; with
    some probability a sub-package file takes the NAME of a file of another (sub-)package (same module name twice)"""
    n = len(fnames)
    a, b, c = r.sample(SUB_NAMES, 3)
    # one, two or three levels below the API package; an intermediate level may or may not hold files of its own; siblings
    # under one parent (nested sub-packages were never rendered before cc7f824: corpus/C02/nested_sub_package.json)
    roll = r.random()
    if roll < 0.4:
        choices = [a, a, b]
    elif roll < 0.75:
        choices = [a, f"{a}.{b}", f"{a}.{b}", r.pick([b, f"{a}.{c}"])]
    else:
        choices = [a, f"{a}.{b}", f"{a}.{b}.{c}", f"{a}.{b}.{c}", r.pick([c, f"{a}.{c}"])]
    subs = [r.pick(choices) if r.maybe(0.6) else "" for _ in range(n)]
    root_at = r.randrange(n)
    subs[root_at] = ""
    if not any(subs):
        subs[r.pick([i for i in range(n) if i != root_at])] = r.pick(choices)
    fnames = list(fnames)
    for i in range(n):
        if subs[i] and r.maybe(0.3):
            others = [fnames[j] for j in range(n) if j != i and subs[j] != subs[i]]
            cand = [x for x in others if (subs[i], x) not in {(subs[j], fnames[j]) for j in range(n) if j != i}]
            if cand:
                fnames[i] = r.pick(cand)
    # a file refers to EARLIER files only; with the files grouped by package in a random order of the packages the
    # reference graph between the packages (root and sub-packages) is acyclic in a random direction (see the assumptions)
    pk = sorted(set(subs))
    r.shuffle(pk)
    idx = sorted(range(n), key=lambda i: pk.index(subs[i]))
    return [fnames[i] for i in idx], [subs[i] for i in idx]


def gen_spec(r, big=False, pkg=None, fnames=None, with_dep=None, with_subs=None):
    dep = None
    subs = None
    if pkg is None:
        pkg = r.pick(PACKAGES)
        if with_dep is None:
            with_dep = r.maybe(0.3)
        if with_dep:
            # a second package generated as its own proto-plus library and named in `proto-plus-deps`
            dep = gen_spec(r, big=False, pkg=DEP_PACKAGE, fnames=[r.pick(DEP_FILE_NAMES)])
    if fnames is None:
        nfiles = r.pick([1, 2, 2, 3])
        fnames = r.sample(FILE_NAMES, nfiles)
        if with_subs is None:
            with_subs = r.maybe(0.4)
        if with_subs and pkg != DEP_PACKAGE:
            if nfiles == 1 or (nfiles < 4 and r.maybe(0.5)):        # room for several packages
                fnames = fnames + r.sample([x for x in FILE_NAMES if x not in fnames], 1 if nfiles > 1 else r.pick([1, 2]))
            fnames, subs = gen_subs(r, fnames)
    files = []
    used_by_pkg = {}
    for idx, fn in enumerate(fnames):
        f = {"name": fn, "enums": [], "messages": []}
        if subs and subs[idx]:
            f["sub"] = subs[idx]
        # top-level names are unique per proto package: a sub-package may reuse a name of the root package
        used_top = used_by_pkg.setdefault(f.get("sub", ""), set())
        for _ in range(r.randint(0, 2)):
            cands = [n for n in TOP_NAMES if n not in used_top]
            if len(cands) < 3:
                break
            n = r.pick(cands)
            used_top.add(n)
            f["enums"].append(gen_enum(r, n))
        for k in range(r.randint(1, 4 if big else 3)):
            if len([n for n in TOP_NAMES if n not in used_top]) < (2 if k else 1):
                break
            f["messages"].append(gen_skeleton(r, 1, used_top, big))
        files.append(f)
    spec = {"package": pkg, "files": files}
    if dep is not None:
        spec["dep"] = dep
    ext = ext_index()
    ext_msgs = [x for x in EXT_MSGS if x in ext]
    ext_enums = [x for x in EXT_ENUMS if x in ext]
    if dep is not None:
        dsyms = symbols(dep)
        dm = [k for k, v in dsyms.items() if v["kind"] == "message"]
        de = [k for k, v in dsyms.items() if v["kind"] == "enum"]
        ext_msgs = dm * 3 + ext_msgs
        ext_enums = de * 3 + ext_enums
    syms = symbols(spec)
    order = {fkey(f): i for i, f in enumerate(files)}
    for fi, f in enumerate(files):
        fp = file_pkg(spec, f)
        local_m = [k for k, v in syms.items() if v["kind"] == "message" and fkey(v) == fkey(f)]
        local_e = [k for k, v in syms.items() if v["kind"] == "enum" and fkey(v) == fkey(f)]
        earlier_m = [k for k, v in syms.items() if v["kind"] == "message" and order[fkey(v)] < fi]
        earlier_e = [k for k, v in syms.items() if v["kind"] == "enum" and order[fkey(v)] < fi]
        for top in f["messages"]:
            for m, path in all_msgs(top, []):
                full = ".".join([fp] + path)
                fill_fields(r, m, full, path, local_m, local_e, earlier_m, earlier_e, ext_msgs, ext_enums, big, syms, fp)
    if pkg != DEP_PACKAGE and r.maybe(0.25):
        inject_namesake(r, spec)
    while True:
        try:
            context_cost(spec, 9000)
            return spec
        except _TooDense:
            thin(spec, r)


def inject_namesake(r, spec):
    """the nested-namesake shape: a NESTED message (depth 2 or 3) called like a top-level message T of the same file or of an
    earlier file, OWNING nested enums / messages called like T's own, with fields typed by T's nested types (every
    cardinality) next to fields typed by its own: a reference printed relative to the wrong scope (bare `Code`) still
    resolves — to the namesake's type — so only the run-time type of the field shows it (descriptor:type_name)"""
    files = spec["files"]
    cands = [(i, f, t) for i, f in enumerate(files) for t in f["messages"] if t["messages"] or t["enums"]]
    if not cands:
        return
    i, f, t = r.pick(cands)
    hosts = []
    for g in files[i:] if r.maybe(0.3) else [f]:
        for u in g["messages"]:
            if u is t or u["name"] == t["name"]:
                continue
            hosts.append((g, u, [u["name"]]))
            for n in u["messages"]:
                if n["name"] != t["name"]:
                    hosts.append((g, n, [u["name"], n["name"]]))
    hosts = [h for h in hosts if t["name"] not in {x["name"] for x in h[1]["messages"] + h[1]["enums"]}
             and not any(fl["name"] == t["name"] or map_entry_name(fl["name"]) == t["name"] for fl in h[1]["fields"])]
    if not hosts:
        return
    g, parent, ppath = r.pick(hosts)
    tfull = file_pkg(spec, f) + "." + t["name"]
    nfull = ".".join([file_pkg(spec, g)] + ppath + [t["name"]])
    ns = {"name": t["name"], "oneofs": [], "fields": [], "messages": [], "enums": []}
    refs = []
    for e in t["enums"][:2]:
        ns["enums"].append(copy.deepcopy(e) if r.maybe(0.5) else gen_enum(r, e["name"]))
        refs.append(("enum", f"{tfull}.{e['name']}", f"{nfull}.{e['name']}"))
    for m in t["messages"][:2]:
        ns["messages"].append({"name": m["name"], "oneofs": [], "messages": [], "enums": [],
                               "fields": [{"name": "ns_own", "number": 1, "card": "single", "type": r.pick(SCALARS)}]})
        refs.append(("message", f"{tfull}.{m['name']}", f"{nfull}.{m['name']}"))
        for x in (m["messages"][:1] if r.maybe(0.5) else []):
            refs.append(("message", f"{tfull}.{m['name']}.{x['name']}", None))
        for x in (m["enums"][:1] if r.maybe(0.5) else []):
            refs.append(("enum", f"{tfull}.{m['name']}.{x['name']}", None))
    number = 0
    for kind, top, own in refs:
        for ref in ([top, own] if own and r.maybe(0.6) else [top]):
            number += 1
            fl = {"name": f"ns_{number}", "number": number, "card": r.pick(["single", "single", "repeated", "optional", "map"]),
                  "type": kind, "ref": ref}
            if fl["card"] == "map":
                fl["key"] = r.pick(apigen.MAP_KEY_TYPES)
            ns["fields"].append(fl)
    parent["messages"].append(ns)


class _TooDense(Exception):
    pass


EXT_COST = {"google.protobuf.Struct": 8, "google.protobuf.Value": 8, "google.rpc.Status": 3, "google.longrunning.Operation": 7,
            "google.api.HttpRule": 4}


def context_cost(spec, cap):
    """estimate of the MessageType.with_context calls API.build makes for this file set (it walks every simple
    path of the message reference graph, twice: once per pass over the protos); raises _TooDense above `cap`"""
    syms = symbols(spec)
    count = 0

    def visit(full, visited, skip):
        nonlocal count
        count += 2
        if count > cap:
            raise _TooDense()
        s = syms[full]["spec"]
        visited = visited | {full}
        for fl in s["fields"]:
            if fl["type"] != "message":
                continue
            ismap = fl["card"] == "map"
            if fl.get("ref") in syms:
                if not skip:
                    count += 2 if ismap else 0
                    visit(fl["ref"], visited, fl["ref"] in visited)
                if ismap:                       # the entry message is also a nested message of this one
                    count += 2
                    if not skip:
                        visit(fl["ref"], visited, fl["ref"] in visited)
            else:
                count += 2 * EXT_COST.get(fl.get("ref"), 1) * (2 if ismap else 1)
        for n in s["messages"]:
            visit(full + "." + n["name"], visited, skip)
    for full, s in syms.items():
        if s["kind"] == "message":
            visit(full, frozenset(), False)
    return count


def thin(spec, r):
    """replace about a third of the in-package message references that are not self references by scalars"""
    syms = symbols(spec)
    for full, s in syms.items():
        if s["kind"] != "message":
            continue
        for fl in s["spec"]["fields"]:
            if fl["type"] == "message" and fl.get("ref") in syms and fl["ref"] != full and r.maybe(0.34):
                fl["type"] = r.pick(SCALARS)
                del fl["ref"]


def pick_target(r, kind, full, path, local, earlier, extern, syms, pkg):
    """a type reference: self / ancestor / own child / anything in the file / earlier file / dependency package"""
    roll = r.random()
    if kind == "message":
        if roll < 0.10:
            return full
        if roll < 0.18 and len(path) > 1:
            return ".".join([pkg] + path[:r.randint(1, len(path) - 1)])
        if roll < 0.30:
            kids = [k for k in local if k.startswith(full + ".")]
            if kids:
                return r.pick(kids)
    if roll < 0.62 and local:
        return r.pick(local)
    if roll < 0.80 and earlier:
        return r.pick(earlier)
    if roll < 0.92 and extern:
        return r.pick(extern)
    if local:
        return r.pick(local)
    return r.pick(extern)


def fill_fields(r, m, full, path, local_m, local_e, earlier_m, earlier_e, ext_m, ext_e, big, syms, pkg):
    nslots = r.randint(0, 9 if big else 6)
    taken = {n["name"] for n in m["messages"]} | {e["name"] for e in m["enums"]}
    json_taken = set()
    number = 0

    def claim(n):
        j = apigen.json_name(n)
        if n in taken or j in json_taken or j in taken or map_entry_name(n) in taken:
            return False
        taken.add(n)
        json_taken.add(j)
        return True

    def fresh_name(optional=False):
        for _ in range(50):
            roll = r.random()
            n = r.pick(RESERVED_FIELDS) if roll < 0.3 else r.pick(PLAIN_FIELDS) if roll < 0.88 else r.pick(HELPER_FIELDS + CLASS_API_FIELDS)
            if optional and n in CLASS_API_FIELDS:
                # (finding class-api-shadowed:optional-field: replayed from the corpus on every run, kept out of the random
                # cases because such a class cannot run the round trips)
                continue
            if claim(n):
                return n
        n = f"f{len(taken)}"
        taken.add(n)
        json_taken.add(n)
        return n

    def add_named(n, card=None, **extra):
        """a field with a GIVEN name, of any kind unless `card` says otherwise; False when the name is not free"""
        if not claim(n):
            return False
        card = card or r.pick(["single", "single", "repeated", "optional", "map", "oneof"])
        if card == "oneof":
            cands = [o for o in ONEOF_NAMES if o not in taken and o not in json_taken]
            card = "oneof:" + r.pick(cands) if cands else "single"
            if card != "single":
                taken.add(card[6:])
                m["oneofs"].append(card[6:])
        f = {"name": n, "number": next_number(), "card": card, **extra}
        if "type" not in f:
            typed(f)
        if card == "map":
            taken.add(map_entry_name(n))
            f["key"] = r.pick(apigen.MAP_KEY_TYPES)
        m["fields"].append(f)
        return True

    # helper-member shapes: a paginated message (`next_page_token`, with or without a field called `raw_page`), an
    # extended-operation status message (a field annotated STATUS, with or without a field called `done`)
    wanted = []
    if r.maybe(0.15):
        wanted.append(lambda: add_named("next_page_token", **({"card": "single", "type": "string"} if r.maybe(0.8) else {})))
        if r.maybe(0.65):
            wanted.append(lambda: add_named("raw_page"))
    if r.maybe(0.12):
        def status_field():
            # enum / string / bool as the `done` helper of the template provides for; rarely another type (the helper then raises
            # when CALLED; nothing of the property reads it)
            kind = r.pick(["enum", "enum", "string", "bool", "string", "bool", "int32"])
            extra = {"type": kind}
            if kind == "enum":
                extra = {"type": "enum", "ref": r.pick(local_e or earlier_e)} if (local_e or earlier_e) else {"type": "string"}
            for n in [r.pick(["status", "state", "done"]), "status", "state", "op_status"]:
                if add_named(n, card="single", opfield="STATUS", **extra):
                    return
        wanted.append(status_field)
        if r.maybe(0.6):
            wanted.append(lambda: add_named("done"))
    r.shuffle(wanted)
    inject = {}
    for w in wanted:
        inject.setdefault(r.randint(0, nslots), []).append(w)

    def next_number():
        nonlocal number
        step = r.pick([1, 1, 1, 2, 5, 16, 2048, 100000]) if r.maybe(0.3) else 1
        number += step
        if 19000 <= number <= 19999:
            number = 20000
        return min(number, 536870911)

    def typed(f, allow_msg=True):
        roll = r.random()
        if roll < 0.5 or not allow_msg and roll < 0.7:
            f["type"] = r.pick(SCALARS)
        elif roll < 0.7:
            f["type"] = "enum"
            f["ref"] = pick_target(r, "enum", full, path, local_e, earlier_e, ext_e, syms, pkg)
        else:
            f["type"] = "message"
            f["ref"] = pick_target(r, "message", full, path, local_m, earlier_m, ext_m, syms, pkg)
        return f

    for slot in range(nslots + 1):
        for w in inject.get(slot, []):
            w()
        if slot == nslots or number >= 536870000:
            continue
        roll = r.random()
        if roll < 0.40:
            m["fields"].append(typed({"name": fresh_name(), "number": next_number(), "card": "single"}))
        elif roll < 0.58:
            m["fields"].append(typed({"name": fresh_name(), "number": next_number(), "card": "repeated"}))
        elif roll < 0.72:
            m["fields"].append(typed({"name": fresh_name(optional=True), "number": next_number(), "card": "optional"}))
        elif roll < 0.86:
            cands = [o for o in ONEOF_NAMES if o not in taken and o not in json_taken]   # (upb keeps oneofs and JSON names in one table)
            if not cands:
                continue
            o = r.pick(cands)
            taken.add(o)
            m["oneofs"].append(o)
            for _ in range(r.randint(1, 3)):
                m["fields"].append(typed({"name": fresh_name(), "number": next_number(), "card": "oneof:" + o}))
        else:
            n = fresh_name()
            taken.add(map_entry_name(n))
            f = typed({"name": n, "number": next_number(), "card": "map"})
            f["key"] = r.pick(apigen.MAP_KEY_TYPES)
            m["fields"].append(f)


def coverage_spec():
    """every scalar type in every cardinality, maps over every legal key type, reserved names"""
    pkg = "acme.lib.v1"
    k = {"name": "Kind", "values": [["KIND_UNSPECIFIED", 0], ["KIND_A", 1], ["KIND_B", 5]]}
    inner = {"name": "Inner", "oneofs": [], "fields": [{"name": "x", "number": 1, "card": "single", "type": "int32"}],
             "messages": [], "enums": []}
    fields, n = [], 0
    names = iter(RESERVED_FIELDS + [f"s{i}" for i in range(200)])
    for card in ("single", "repeated", "optional"):
        for t in SCALARS:
            n += 1
            fields.append({"name": next(names), "number": n, "card": card, "type": t})
    for t in SCALARS[:6]:
        n += 1
        fields.append({"name": next(names), "number": n, "card": "oneof:pick", "type": t})
    vals = [("string", None), ("message", f"{pkg}.Scalars.Inner"), ("enum", f"{pkg}.Kind"), ("bytes", None), ("double", None),
            ("message", "google.protobuf.Timestamp"), ("sint64", None), ("bool", None), ("fixed32", None),
            ("message", f"{pkg}.Scalars"), ("uint64", None), ("float", None)]
    for kt, (vt, ref) in zip(apigen.MAP_KEY_TYPES, vals):
        n += 1
        f = {"name": next(names), "number": n, "card": "map", "key": kt, "type": vt}
        if ref:
            f["ref"] = ref
        fields.append(f)
    m = {"name": "Scalars", "oneofs": ["pick"], "fields": fields, "messages": [inner], "enums": []}
    return {"package": pkg, "files": [{"name": "alpha", "enums": [k], "messages": [m]}]}


def layout_spec():
    """deterministic companion of coverage_spec: the shapes the seeded rounds went for — single-member real oneofs
    (scalar / enum / message member), proto3-optional enum and message fields, names differing only by case or by a
    trailing underscore, three-deep nesting with a nested name shadowing a top-level one, a proto-plus dependency
    package whose module has the SAME name as a module of the target package, map values from that package"""
    P, D = "acme.lib.v1", DEP_PACKAGE

    def msg(name, fields=(), messages=(), enums=(), oneofs=()):
        return {"name": name, "oneofs": list(oneofs), "fields": list(fields), "messages": list(messages), "enums": list(enums)}

    def fld(name, number, type, card="single", ref=None, key=None):
        d = {"name": name, "number": number, "card": card, "type": type}
        if ref:
            d["ref"] = ref
        if key:
            d["key"] = key
        return d
    dep = {"package": D, "files": [{"name": "shared", "enums": [{"name": "Color", "values": [["COLOR_UNSPECIFIED", 0], ["COLOR_RED", 1]]}],
           "messages": [msg("Item", [fld("type", 1, "string"), fld("color", 2, "enum", ref=f"{D}.Color")],
                            [msg("Detail", [fld("label", 1, "string")])])]}]}
    kind = {"name": "Kind", "values": [["KIND_UNSPECIFIED", 0], ["KIND_A", 2], ["KIND_B", 1], ["KIND_B2", 1]], "alias": True}
    item = msg("Item", [fld("id", 1, "string")], [msg("Detail", [fld("qty", 1, "int64")])])
    order = msg("Order", [
        fld("code", 1, "int32", "oneof:source"),                                   # single-member oneofs
        fld("kind", 2, "enum", "oneof:by_kind", ref=f"{P}.Kind"),
        fld("item", 3, "message", "oneof:by_item", ref=f"{P}.Item"),
        fld("opt_kind", 4, "enum", "optional", ref=f"{P}.Kind"),                   # presence on enum / message fields
        fld("opt_item", 5, "message", "optional", ref=f"{P}.Item"),
        fld("Name", 6, "string"), fld("name", 7, "string"), fld("type_", 8, "string"), fld("ID", 9, "int64"), fld("id", 10, "int64"),
        fld("dep_item", 11, "message", ref=f"{D}.Item"), fld("dep_detail", 12, "message", "repeated", ref=f"{D}.Item.Detail"),
        fld("colors", 13, "enum", "map", ref=f"{D}.Color", key="string"),
        fld("shared", 14, "message", ref=f"{P}.Shared"),
    ], [msg("Item", [fld("full", 1, "message", ref=f"{P}.Item.Detail"), fld("own", 2, "message", ref=f"{P}.Order.Item.Detail"),
                     fld("deep", 3, "message", ref=f"{P}.Order.Item.Detail.Item")],
            [msg("Detail", [fld("qty", 1, "sint32", "optional")], [msg("Item", [fld("up", 1, "message", ref=f"{P}.Order.Item")])])])],
        oneofs=["source", "by_kind", "by_item"])
    shared = msg("Shared", [fld("from", 1, "message", ref=f"{D}.Item"), fld("value", 2, "bytes", "optional")])
    return {"package": P, "dep": dep, "files": [{"name": "shared", "enums": [kind], "messages": [item, shared]},
                                                {"name": "alpha", "enums": [], "messages": [order]}]}


def helper_names_spec():
    """deterministic: fields named like the non-field members of a class body. `raw_page` (every cardinality and kind, top-level
    and nested) in messages that have `next_page_token` (the pager helper property of that name is printed) and in one that
    has not; extended-operation status messages (the `done` helper is printed) with enum / string / bool / other status fields, with
    and without a field `done` (of every kind; also the STATUS field itself called `done`); a field `done` in a message WITHOUT
    status field; every name of proto-plus's class-level API as a field (not proto3
    optional: finding class-api-shadowed:optional-field). corpus/C02/status_message_with_done_field.json and
    status_field_not_enum.json are the inputs of two defects repaired by 4ad018c / 1835642 (regression inputs)."""
    P = "acme.lib.v1"

    def msg(name, fields=(), messages=(), enums=(), oneofs=()):
        return {"name": name, "oneofs": list(oneofs), "fields": list(fields), "messages": list(messages), "enums": list(enums)}

    def fld(name, number, type, card="single", ref=None, key=None, opfield=None):
        d = {"name": name, "number": number, "card": card, "type": type}
        if ref:
            d["ref"] = ref
        if key:
            d["key"] = key
        if opfield:
            d["opfield"] = opfield
        return d
    npt = fld("next_page_token", 2, "string")
    state = {"name": "State", "values": [["STATE_UNSPECIFIED", 0], ["RUNNING", 1], ["DONE", 2]]}
    msgs = [
        msg("ListPagesResponse", [fld("pages", 1, "string", "repeated"), npt, fld("raw_page", 3, "bytes")]),
        msg("ListFirst", [fld("raw_page", 1, "string", "repeated"), npt]),                       # declared BEFORE next_page_token
        msg("ListOptional", [npt, fld("raw_page", 5, "int64", "optional")]),
        msg("ListMap", [npt, fld("raw_page", 4, "sint32", "map", key="string")]),
        msg("ListOneof", [npt, fld("items", 1, "string", "oneof:pick"), fld("raw_page", 7, "uint32", "oneof:pick")], oneofs=["pick"]),
        msg("ListSelf", [npt, fld("raw_page", 3, "message", ref=f"{P}.ListSelf"), fld("kind", 4, "enum", ref=f"{P}.State")],
            [msg("Inner", [fld("next_page_token", 1, "bytes"), fld("raw_page", 2, "message", "repeated", ref=f"{P}.ListSelf.Inner"),
                           fld("done", 3, "bool")])]),
        msg("ListIntToken", [fld("next_page_token", 1, "int32"), fld("raw_page", 2, "enum", ref=f"{P}.State")]),
        msg("Snapshot", [fld("raw_page", 1, "bytes"), fld("url", 2, "string")]),                # control: no helper printed
        msg("ListPlain", [fld("items", 1, "string", "repeated"), npt]),                          # control: helper, no such field
        msg("EnumOp", [fld("name", 1, "string", opfield="NAME"), fld("status", 2, "enum", ref=f"{P}.State", opfield="STATUS"),
                       fld("raw_page", 3, "string"), fld("next_page_token", 4, "string")]),
        msg("StringOp", [fld("state", 1, "string", opfield="STATUS"), fld("error_code", 2, "int32", opfield="ERROR_CODE"),
                         fld("error_message", 3, "string", opfield="ERROR_MESSAGE"), fld("done", 4, "bytes", "repeated")]),
        msg("BoolOp", [fld("done", 1, "bool", opfield="STATUS")],                          # the STATUS field itself is called done
            [msg("Done", [fld("done", 1, "string"), fld("raw_page", 2, "bool")])]),
        msg("DoneOp", [fld("name", 1, "string", opfield="NAME"), fld("status", 2, "enum", ref=f"{P}.State", opfield="STATUS"),
                       fld("done", 3, "bool"), fld("next_page_token", 4, "string"), fld("raw_page", 5, "message", "map", ref=f"{P}.DoneOp", key="string")],
            [msg("Step", [fld("done", 1, "int64", "optional"), fld("state", 2, "enum", ref=f"{P}.State", opfield="STATUS")])]),
        msg("OtherOp", [fld("progress", 1, "int32", opfield="STATUS"), fld("done", 2, "message", ref=f"{P}.DoneOp")]),
        msg("NotAnOp", [fld("done", 1, "bool"), fld("status", 2, "enum", ref=f"{P}.State"), fld("name", 3, "string", opfield="NAME")]),
        msg("ClassApi", [fld("pb", 1, "string"), fld("to_json", 2, "bytes"), fld("to_dict", 3, "int32", "repeated"),
                         fld("from_json", 4, "string", "oneof:how"), fld("serialize", 5, "message", ref=f"{P}.Snapshot"),
                         fld("deserialize", 6, "message", "repeated", ref=f"{P}.ClassApi"), fld("wrap", 7, "string", "map", key="int32"),
                         fld("copy_from", 8, "enum", ref=f"{P}.State"), fld("meta", 9, "bool", "oneof:how"),
                         fld("raw_page", 10, "string"), fld("done", 11, "double"), fld("next_page_token", 12, "string")],
            [msg("Nested", [fld("pb", 1, "int32"), fld("serialize", 2, "string", "repeated"), fld("meta", 3, "message", ref=f"{P}.ClassApi")])],
            oneofs=["how"]),
    ]
    return {"package": P, "files": [{"name": "pages", "enums": [state], "messages": msgs}]}


def namesake_spec(loud=False):
    """deterministic: nested messages called like a top-level message of the same file (Task.Status, Job.Step.Status) or of
    another file (Report.Status), owning a nested enum `Code` / message `Detail` like the top-level one, with fields of every
    cardinality typed by the TOP-LEVEL message's nested types and by their own; a namesake that owns nothing (Audit.Status).
    The same-numbered enums are wire-compatible: only the field's run-time type name tells the two `Code`s apart.
    Two specs: in the first EVERY referenced nested type of the top-level message has a counterpart at the same relative path in
    the namesake (a reference printed relative to the wrong scope binds silently, the library imports); `loud` adds references
    without counterpart (Status.Detail.Extra, Status.Detail.Level, the namesake Audit.Status that owns nothing), where such a
    reference raises NameError / AttributeError at import."""
    P = "acme.lib.v1"

    def msg(name, fields=(), messages=(), enums=(), oneofs=()):
        return {"name": name, "oneofs": list(oneofs), "fields": list(fields), "messages": list(messages), "enums": list(enums)}

    def fld(name, number, type, card="single", ref=None, key=None):
        d = {"name": name, "number": number, "card": card, "type": type}
        if ref:
            d["ref"] = ref
        if key:
            d["key"] = key
        return d

    def code(extra=()):
        return {"name": "Code", "values": [["CODE_UNSPECIFIED", 0], ["OK", 1], ["FAILED", 2]] + list(extra)}
    S = f"{P}.Status"
    status = msg("Status", [fld("code", 1, "enum", ref=f"{S}.Code"), fld("detail", 2, "message", ref=f"{S}.Detail")],
                 [msg("Detail", [fld("text", 1, "string"), fld("extra", 2, "message", ref=f"{S}.Detail.Extra")],
                      [msg("Extra", [fld("hint", 1, "string")])], [{"name": "Level", "values": [["LEVEL_UNSPECIFIED", 0], ["HIGH", 3]]}])],
                 [code()])

    def namesake(full, detail_fields):
        return msg("Status", ([fld("top_extra", 12, "message", ref=f"{S}.Detail.Extra"),
                               fld("top_level", 13, "enum", ref=f"{S}.Detail.Level")] if loud else []) + [
            fld("own_code", 1, "enum", ref=f"{full}.Code"), fld("top_code", 2, "enum", ref=f"{S}.Code"),
            fld("top_codes", 3, "enum", "repeated", ref=f"{S}.Code"), fld("opt_top_code", 4, "enum", "optional", ref=f"{S}.Code"),
            fld("codes_by_name", 5, "enum", "map", ref=f"{S}.Code", key="string"),
            fld("one_code", 6, "enum", "oneof:pick", ref=f"{S}.Code"), fld("one_detail", 7, "message", "oneof:pick", ref=f"{S}.Detail"),
            fld("own_detail", 8, "message", ref=f"{full}.Detail"), fld("top_detail", 9, "message", ref=f"{S}.Detail"),
            fld("top_details", 10, "message", "repeated", ref=f"{S}.Detail"),
            fld("details_by_id", 11, "message", "map", ref=f"{S}.Detail", key="int64"),
            fld("top", 14, "message", ref=S), fld("own", 15, "message", ref=full)],
            [msg("Detail", detail_fields)], [code()], oneofs=["pick"])
    task = msg("Task", [fld("status", 1, "message", ref=f"{P}.Task.Status"), fld("top_status", 2, "message", ref=S)],
               [namesake(f"{P}.Task.Status", [fld("count", 1, "int32")])])
    job = msg("Job", [fld("id", 1, "string")],
              [msg("Step", [fld("status", 1, "message", ref=f"{P}.Job.Step.Status")],
                   [namesake(f"{P}.Job.Step.Status", [fld("text", 1, "string"), fld("count", 2, "sint64")])])])
    audit = msg("Audit", [fld("status", 1, "message", ref=f"{P}.Audit.Status")],
                [msg("Status", [fld("code", 1, "enum", ref=f"{S}.Code"), fld("detail", 2, "message", "repeated", ref=f"{S}.Detail")])])
    report = msg("Report", [fld("status", 1, "message", ref=f"{P}.Report.Status")],
                 [namesake(f"{P}.Report.Status", [fld("pages", 1, "uint32")])])
    return {"package": P, "files": [{"name": "tasks", "enums": [], "messages": [status, task, job] + ([audit] if loud else [])},
                                    {"name": "reports", "enums": [], "messages": [report]}]}


def subpackage_spec():
    """deterministic: an API whose files live in the API package AND in sub-packages of it, one to three levels down (the `%sub` directory of the
    templates, `proto.module(package=<package of the file>, marshal=<API package>)`): references root -> sub, sub -> root,
    sub -> other sub (no cycle between packages), self / forward / nested references inside a sub-package, the same top-level type names (Item, Kind)
    and the same module name (item) in the root package and in a sub-package, a map and a oneof over sub-package types,
    a module of a sub-package named like a module of the proto-plus dependency package (shared)"""
    P, D = "acme.lib.v1", DEP_PACKAGE
    C, M = P + ".catalog", P + ".common"

    def msg(name, fields=(), messages=(), enums=(), oneofs=()):
        return {"name": name, "oneofs": list(oneofs), "fields": list(fields), "messages": list(messages), "enums": list(enums)}

    def fld(name, number, type, card="single", ref=None, key=None):
        d = {"name": name, "number": number, "card": card, "type": type}
        if ref:
            d["ref"] = ref
        if key:
            d["key"] = key
        return d
    dep = {"package": D, "files": [{"name": "shared", "enums": [], "messages": [msg("Item", [fld("label", 1, "string")])]}]}
    root_item = {"name": "item", "enums": [{"name": "Kind", "values": [["KIND_UNSPECIFIED", 0], ["KIND_A", 1]]}],
                 "messages": [msg("Item", [fld("id", 1, "string"), fld("detail", 2, "message", ref=f"{P}.Item.Detail")],
                              [msg("Detail", [fld("qty", 1, "int64")])])]}
    cat_item = {"name": "item", "sub": "catalog",
                "enums": [{"name": "Kind", "values": [["KIND_UNSPECIFIED", 0], ["KIND_TOY", 2], ["KIND_BOOK", 1]]}],
                "messages": [
                    msg("Item", [fld("sku", 1, "string"), fld("kind", 2, "enum", ref=f"{C}.Kind"),
                                 fld("dimensions", 5, "message", ref=f"{C}.Item.Dimensions"),
                                 fld("parts", 6, "message", "repeated", ref=f"{C}.Item"), fld("bundle", 7, "message", ref=f"{C}.Bundle"),
                                 fld("by_kind", 8, "enum", "map", ref=f"{C}.Kind", key="string"), fld("type", 10, "string")],
                        [msg("Dimensions", [fld("width", 1, "sint32"), fld("height", 2, "sint32"),
                                            fld("of", 3, "message", ref=f"{C}.Item")])]),
                    msg("Bundle", [fld("title", 1, "string"), fld("items", 2, "message", "repeated", ref=f"{C}.Item"),
                                   fld("unit_price", 3, "sint64", "optional")])]}
    common = {"name": "shared", "sub": "common", "enums": [],
              "messages": [msg("Money", [fld("units", 1, "int64"), fld("currency", 2, "string")]),
                           msg("Range", [fld("lo", 1, "message", ref=f"{M}.Money"), fld("hi", 2, "message", ref=f"{M}.Money"),
                                         fld("item", 3, "message", ref=f"{C}.Item"), fld("from", 4, "message", ref=f"{D}.Item")])]}
    alpha = {"name": "alpha", "enums": [],
             "messages": [msg("Order", [fld("id", 1, "string"), fld("items", 2, "message", "repeated", ref=f"{C}.Item"),
                                        fld("total", 3, "message", ref=f"{M}.Money"),
                                        fld("kinds", 4, "enum", "map", ref=f"{C}.Kind", key="int32"),
                                        fld("bundle", 5, "message", "oneof:pick", ref=f"{C}.Bundle"),
                                        fld("plain", 6, "message", "oneof:pick", ref=f"{P}.Item"),
                                        fld("dims", 7, "message", "optional", ref=f"{C}.Item.Dimensions"),
                                        fld("ranges", 8, "message", "map", ref=f"{M}.Range", key="string"),
                                        fld("dep_item", 9, "message", ref=f"{D}.Item")], oneofs=["pick"])]}
    # the package-level reference graph is acyclic (see the assumptions): admin -> root -> common -> catalog
    admin = {"name": "policy", "sub": "admin", "enums": [],
             "messages": [msg("Policy", [fld("item", 1, "message", ref=f"{P}.Item"), fld("kind", 2, "enum", "repeated", ref=f"{P}.Kind"),
                                         fld("detail", 3, "message", "optional", ref=f"{P}.Item.Detail"),
                                         fld("cat_item", 4, "message", ref=f"{C}.Item"), fld("order", 5, "message", ref=f"{P}.Order"),
                                         fld("own", 6, "message", ref=f"{P}.admin.Policy.Item")],
                              [msg("Item", [fld("up", 1, "message", ref=f"{P}.admin.Policy"), fld("root", 2, "message", ref=f"{P}.Item")])])]}
    # nested sub-packages: catalog.parts (two levels, its parent has files), ops.internal.audit (three levels, the level
    # `ops.internal` has no file); parent -> child, descendant -> ancestor, deep -> root, cousin and sub -> deep references:
    #   admin -> {root, ops.internal.audit};  ops.internal.audit -> {ops, root, catalog.parts};  catalog -> catalog.parts
    R, A = C + ".parts", P + ".ops.internal.audit"
    cat_item["messages"][0]["fields"] += [fld("main_part", 11, "message", ref=f"{R}.Item"),
                                          fld("part_kinds", 12, "enum", "map", ref=f"{R}.Item.Kind", key="uint32")]
    parts = {"name": "item", "sub": "catalog.parts", "enums": [],
             "messages": [msg("Item", [fld("number", 1, "string"), fld("kind", 2, "enum", ref=f"{R}.Item.Kind"),
                                       fld("spare", 3, "message", "repeated", ref=f"{R}.Item"), fld("class", 4, "string", "optional")],
                              enums=[{"name": "Kind", "values": [["KIND_UNSPECIFIED", 0], ["KIND_SCREW", 1]]}])]}
    ops = {"name": "shared", "sub": "ops", "enums": [{"name": "Level", "values": [["LEVEL_UNSPECIFIED", 0], ["LEVEL_HIGH", 5]]}],
           "messages": [msg("Op", [fld("name", 1, "string"), fld("level", 2, "enum", ref=f"{P}.ops.Level")])]}
    audit = {"name": "entry", "sub": "ops.internal.audit", "enums": [],
             "messages": [msg("Entry", [fld("op", 1, "message", ref=f"{P}.ops.Op"), fld("level", 2, "enum", "optional", ref=f"{P}.ops.Level"),
                                        fld("item", 3, "message", ref=f"{P}.Item"), fld("part", 4, "message", "oneof:what", ref=f"{R}.Item"),
                                        fld("order", 5, "message", "oneof:what", ref=f"{P}.Order"),
                                        fld("trail", 6, "message", "map", ref=f"{A}.Entry.Step", key="int64"),
                                        fld("next", 7, "message", ref=f"{A}.Entry")],
                              [msg("Step", [fld("at", 1, "message", ref="google.protobuf.Timestamp"), fld("parent", 2, "message", ref=f"{A}.Entry")])],
                              oneofs=["what"])]}
    admin["messages"][0]["fields"] += [fld("last_entry", 7, "message", ref=f"{A}.Entry"), fld("steps", 8, "message", "repeated", ref=f"{A}.Entry.Step")]
    return {"package": P, "dep": dep, "files": [root_item, parts, cat_item, common, alpha, ops, audit, admin]}


# --------------------------------------------------------------------------------------------- the §9-F9 shape
# (repaired in /repo by 92701a6: such references are now printed as quoted full paths; the corpus entries under
#  corpus/C02/nested_ref_*.json are regression inputs that must pass; the shape is only counted in the evidence)

def shadow_refs(spec):
    """(ctx full name, field name) of references in the shape of Props.C02.ShadowedShape: a NESTED message whose
    simple name equals the top-level ancestor of a same-file nested target, under a different top-level ancestor."""
    syms = symbols(spec)
    out = []
    for full, s in syms.items():
        if s["kind"] != "message" or len(s["path"]) < 2:
            continue
        for fl in s["spec"]["fields"]:
            t = syms.get(fl.get("ref"))
            if t is None or fkey(t) != fkey(s) or len(t["path"]) < 2:
                continue
            if t["path"][0] == s["path"][-1] and t["path"][0] != s["path"][0]:
                out.append((full, fl["name"], ".".join(t["path"][1:])))
    return out


# --------------------------------------------------------------------------------------------- normal forms

def norm_input(desc: dp.DescriptorProto):
    """the aspects the property names, read off an INPUT DescriptorProto"""
    entries = {n.name: n for n in desc.nested_type if n.options.map_entry}
    fields = {}
    for f in desc.field:
        d = {"name": f.name, "type": f.type, "repeated": f.label == 3, "type_name": f.type_name.lstrip(".") or None,
             "optional": bool(f.proto3_optional), "oneof": None, "map": None}
        if f.HasField("oneof_index") and not f.proto3_optional:
            d["oneof"] = desc.oneof_decl[f.oneof_index].name
        short = f.type_name.rsplit(".", 1)[-1]
        if f.type == 11 and f.label == 3 and short in entries and f.type_name.lstrip(".").rsplit(".", 1)[0].endswith(desc.name):
            e = entries[short]
            kf = next(x for x in e.field if x.number == 1)
            vf = next(x for x in e.field if x.number == 2)
            d["map"] = [kf.type, vf.type, vf.type_name.lstrip(".") or None]
            d["type_name"] = None
        fields[f.number] = d
    return {"fields": fields,
            "nested": sorted(n.name for n in desc.nested_type if not n.options.map_entry),
            "enums": {e.name: sorted([v.name, v.number] for v in e.value) for e in desc.enum_type},
            "real_oneofs": sorted({d["oneof"] for d in fields.values() if d["oneof"]})}


def expected_attr(name):
    return name + "_" if name in RESERVED else name


# --------------------------------------------------------------------------------------------- model inputs

def model_target(spec, syms, ref):
    if ref is None:
        return None
    if ref in syms:
        s = syms[ref]
        return {"enum": s["kind"] == "enum", "package": s["package"].split("."), "module": s["file"],
                "parent": s["path"][:-1], "name": s["path"][-1], "proto_plus": True}
    x = ext_lookup(spec, ref)
    return {"enum": x["kind"] == "enum", "package": x["package"].split("."), "module": x["module"],
            "parent": x["path"][:-1], "name": x["path"][-1], "proto_plus": x["proto_plus"]}


def model_field(spec, syms, full, fl):
    tgt = model_target(spec, syms, fl.get("ref"))
    if fl["card"] == "map":
        en = map_entry_name(fl["name"])
        path = syms[full]["path"]
        entry_t = {"enum": False, "package": syms[full]["package"].split("."), "module": syms[full]["file"],
                   "parent": path, "name": en, "proto_plus": True}
        return {"name": fl["name"], "number": fl["number"], "type": 11, "repeated": True, "optional": False, "oneof": None,
                "target": entry_t, "entry": {"ktype": T[fl["key"]], "vtype": T[fl["type"]], "vtarget": tgt}}
    card = fl["card"]
    return {"name": fl["name"], "number": fl["number"], "type": T[fl["type"]], "repeated": card == "repeated",
            "optional": card == "optional",
            "oneof": card[6:] if card.startswith("oneof:") else ("_" + fl["name"] if card == "optional" else None),
            "target": tgt, "entry": None}


def version_of(pkg):
    last = pkg.split(".")[-1]
    return last if re.match(r"^v\d", last) else ""


def file_collisions(spec, f):
    """Proto.names restated from the spec: names of all enums, messages and field attributes of the file plus
    module names imported from several packages or reserved"""
    syms = symbols(spec)
    names = set()
    mods = {}

    def note_mod(ref):
        if ref is None:
            return
        if ref in syms:
            mods.setdefault(syms[ref]["file"], set()).add(syms[ref]["package"])
        else:
            x = ext_lookup(spec, ref)
            mods.setdefault(x["module"], set()).add(x["package"])
    for full, s in syms.items():
        if fkey(s) != fkey(f):
            continue
        names.add(s["path"][-1])
        if s["kind"] == "message":
            for fl in s["spec"]["fields"]:
                names.add(expected_attr(fl["name"]))
                if fl["card"] == "map":
                    names.add(map_entry_name(fl["name"]))
                    names.update(["key", "value"])
    # recursive_field_types: every module reachable through message-typed fields
    seen = set()

    def reach(ref):
        if ref is None or ref in seen:
            return
        seen.add(ref)
        note_mod(ref)
        if ref in syms and syms[ref]["kind"] == "message":
            for fl in syms[ref]["spec"]["fields"]:
                if fl["card"] == "map":          # the entry message is a field type living in the message's own module
                    mods.setdefault(syms[ref]["file"], set()).add(syms[ref]["package"])
                reach(fl.get("ref"))
        elif ref not in syms:
            x = ext_lookup(spec, ref)
            if x["has_map"]:
                mods.setdefault(x["module"], set()).add(x["package"])
            for t in x["field_refs"]:
                reach(t)
    for full, s in syms.items():
        if fkey(s) == fkey(f) and s["kind"] == "message":
            for fl in s["spec"]["fields"]:
                if fl["card"] == "map":
                    mods.setdefault(f["name"], set()).add(file_pkg(spec, f))
                reach(fl.get("ref"))
    names.update(m for m, pk in mods.items() if len(pk) > 1 or m in RESERVED)
    return sorted(names)


_EXT_FT = {}


def ext_field_types(full):
    """type names referenced by the fields of a dependency message"""
    if full not in _EXT_FT:
        out = []
        kind, fname, package, path = ext_index()[full]
        for f in apigen.dep_files():
            if f.name != fname:
                continue
            cur = None
            msgs = f.message_type
            for p in path:
                cur = next(m for m in msgs if m.name == p)
                msgs = cur.nested_type
            for fl in cur.field:
                if fl.type_name:
                    out.append(fl.type_name.lstrip("."))
        _EXT_FT[full] = out
    return _EXT_FT[full]


def has_status_field(m):
    """`message.extended_operation_status_field`: some field carries (google.cloud.operation_field) = STATUS"""
    return any(fl.get("opfield") == "STATUS" for fl in m["fields"])


def exec_order(top, path=()):
    """messages in the order their class bodies finish their nested classes and run their fields"""
    for n in top.get("messages", []):
        yield from exec_order(n, path + (top["name"],))
    yield top, list(path) + [top["name"]]


def model_module_op(spec, f):
    syms = symbols(spec)
    pkg = file_pkg(spec, f)
    types, msgs = [], []
    for full, s in syms.items():
        if fkey(s) == fkey(f):
            types.append(s["path"])
    for top in f["messages"]:
        for m, path in exec_order(top):
            full = ".".join([pkg] + path)
            msgs.append({"path": path, "fields": [model_field(spec, syms, full, fl) for fl in m["fields"]],
                         # the other names the class body binds: nested classes; the `done` helper of status messages
                         "nested": [e["name"] for e in m.get("enums", [])] + [n["name"] for n in m.get("messages", [])],
                         "status": has_status_field(m)})
    return {"op": "c02.module", "version": version_of(spec["package"]), "package": pkg.split("."), "module": f["name"],
            "api_package": spec["package"].split("."),
            "collisions": file_collisions(spec, f), "order": [e["name"] for e in f["enums"]] + [m["name"] for m in f["messages"]],
            "top_enums": [e["name"] for e in f["enums"]], "top_messages": [m["name"] for m in f["messages"]],
            "types": types, "enums": [s["path"] for s in syms.values() if fkey(s) == fkey(f) and s["kind"] == "enum"],
            "messages": msgs}


# --------------------------------------------------------------------------------------------- one case

def spec_stats(ctx, spec):
    syms = symbols(spec)
    depth = 0
    for s in syms.values():
        depth = max(depth, len(s["path"]))
        if s["kind"] != "message":
            ctx.count("types", "enum")
            continue
        ctx.count("types", "message")
        for o in s["spec"]["oneofs"]:
            ctx.count("oneof_members", sum(1 for fl in s["spec"]["fields"] if fl["card"] == "oneof:" + o))
        for fl in s["spec"]["fields"]:
            card = fl["card"].split(":")[0]
            ctx.count("cardinality", card)
            ctx.count("field_type", fl["type"])
            if card == "map":
                ctx.count("map_key", fl["key"])
            if fl["name"] in RESERVED:
                ctx.count("names", "reserved")
            ref = fl.get("ref")
            if ref:
                if ref in syms:
                    t = syms[ref]
                    full = ".".join([s["package"]] + s["path"])
                    if ref == full:
                        k = "self"
                    elif t["sub"] != s["sub"]:
                        k = "other-file: " + ("sub-package -> root package" if not t["sub"] else "root package -> sub-package"
                                              if not s["sub"] else "sub-package -> other sub-package")
                    elif fkey(t) != fkey(s):
                        k = "other-file"
                    elif full.startswith(ref + "."):
                        k = "ancestor"
                    elif ref.startswith(full + "."):
                        k = "descendant"
                    else:
                        k = "same-file"
                    ctx.count("reference", k)
                else:
                    ctx.count("reference", "proto-plus-dependency-package" if ext_lookup(spec, ref)["proto_plus"] else "dependency-package")
    for _ in shadow_refs(spec):
        ctx.count("reference", "shadowed-nested-name (repaired 92701a6)")
    ctx.count("nesting_depth", depth)
    ctx.count("files", len(spec["files"]))
    subs = sorted({f.get("sub") or "" for f in spec["files"]} - {""})
    ctx.count("sub_packages", len(subs))
    for sub in subs:
        ctx.count("sub_package_depth", sub.count(".") + 1)
    keys = [fkey(f) for f in spec["files"]]
    if len({k[1] for k in keys}) < len(keys):
        ctx.count("sub_package_shapes", "same module name in two (sub-)packages")
    tops = {}
    for full, s in syms.items():
        if len(s["path"]) == 1:
            tops.setdefault(s["path"][0], set()).add(s["package"])
    if any(len(v) > 1 for v in tops.values()):
        ctx.count("sub_package_shapes", "same top-level type name in two (sub-)packages")


def has_unknown(codec, full, b64):
    """bytes produced by the emitted class carry fields (at any depth) the input descriptor does not know"""
    m = codec.cls(full)()
    m.ParseFromString(base64.b64decode(b64))
    a = m.SerializeToString(deterministic=True)
    m.DiscardUnknownFields()
    return a != m.SerializeToString(deterministic=True)


class _NoLiteral(Exception):
    pass


STRUCT_TYPES = ("google.protobuf.Value", "google.protobuf.ListValue", "google.protobuf.Struct")


def literal_of(spec, dyn):
    """the set fields of a dynamic message (INPUT descriptors) as a literal a caller of the emitted library would
    write: keyed by the python attribute (proto name, plus `_` iff reserved), nested messages of proto-plus packages as
    dicts, messages of *_pb2 packages as instances, enums as numbers (tagged JSON, decoded by libhost_types._lit)"""
    out = {}
    FD = dp.FieldDescriptorProto

    def scalar(fd, v):
        if fd.message_type is not None:
            if in_proto_plus_package(spec, fd.message_type.full_name):
                return {"msg": literal_of(spec, v)}
            return {"pb": [fd.message_type.full_name, base64.b64encode(v.SerializeToString(deterministic=True)).decode()]}
        if fd.enum_type is not None:
            return {"i": int(v)}
        if fd.type == FD.TYPE_BYTES:
            return {"b64": base64.b64encode(v).decode()}
        if fd.type == FD.TYPE_STRING:
            return {"s": v}
        if fd.type == FD.TYPE_BOOL:
            return {"b": bool(v)}
        if fd.type in (FD.TYPE_DOUBLE, FD.TYPE_FLOAT):
            return {"f": float(v)}
        return {"i": int(v)}
    for fd, val in dyn.ListFields():
        key = expected_attr(fd.name)
        if fd.label == fd.LABEL_REPEATED and fd.message_type is not None:
            inner = fd.message_type.fields_by_name["value"].message_type if fd.message_type.GetOptions().map_entry else fd.message_type
            if inner is not None and inner.full_name in STRUCT_TYPES:
                # proto-plus reads a python list/dict given for a struct.proto type as ONE Value/ListValue/Struct, so a
                # repeated or map field of such a type cannot be written as a literal (run-time library behaviour)
                raise _NoLiteral()
        if fd.message_type is not None and fd.message_type.GetOptions().map_entry:
            kf, vf = fd.message_type.fields_by_name["key"], fd.message_type.fields_by_name["value"]
            out[key] = {"map": [[scalar(kf, k), scalar(vf, val[k])] for k in val]}
        elif fd.label == fd.LABEL_REPEATED:
            out[key] = {"list": [scalar(fd, x) for x in val]}
        else:
            out[key] = scalar(fd, val)
    return out


def zero_valuation(codec, full):
    """every explicit-presence scalar/enum field (proto3 optional; the first such member of each real oneof) SET to
    its zero value: the wire then carries `tag 0`, which an implicit-presence declaration would drop"""
    dyn = codec.cls(full)()
    FD = dp.FieldDescriptorProto
    done = set()
    for fd in dyn.DESCRIPTOR.fields:
        if fd.message_type is not None or fd.label == fd.LABEL_REPEATED or not fd.has_presence:
            continue
        o = fd.containing_oneof.name if fd.containing_oneof is not None else None
        if o in done:
            continue
        if o is not None:
            done.add(o)
        zero = "" if fd.type == FD.TYPE_STRING else b"" if fd.type == FD.TYPE_BYTES else False if fd.type == FD.TYPE_BOOL \
            else 0.0 if fd.type in (FD.TYPE_DOUBLE, FD.TYPE_FLOAT) else 0
        setattr(dyn, fd.name, zero)
    return dyn


def gen_params(spec):
    return "autogen-snippets=false" + (",proto-plus-deps=" + spec["dep"]["package"] if spec.get("dep") else "")


def run_spec(ctx, r, spec, label, nvals=None):
    ctx.case({"label": label, "package": spec["package"], "files": [f["name"] for f in spec["files"]],
              "types": len(symbols(spec)), "dep": bool(spec.get("dep")),
              "subs": sorted({f["sub"] for f in spec["files"] if f.get("sub")})}, distinct_key=json.dumps(spec, sort_keys=True))
    spec_stats(ctx, spec)
    files = build_files(spec)
    dep_files = build_files(spec["dep"]) if spec.get("dep") else []
    # also loads the set into a DescriptorPool (protoc's checks)
    req = apigen.request(dep_files + files, gen_params(spec), targets=files)
    syms = symbols(spec)
    shadows = shadow_refs(spec)
    payload = {"spec": spec}
    try:
        api, opts = genrun.build_api(req)
    except BaseException as e:  # noqa
        ctx.fail("generation-crash:" + genrun.crash_signature(e), f"API.build raised {type(e).__name__}: {str(e)[:300]}", payload)
        return
    t2(ctx, spec, syms, api, payload)
    t2_schema(ctx, spec, api, files, payload)
    res, err = generate_from(api, opts)
    if err:
        ctx.fail("generation-crash:" + err[0], f"generator raised {err[0]}: {err[1]}", payload)
        return
    dep_res = None
    if dep_files:       # the dependency package is generated as a library of its own and installed next to the target one
        try:
            dapi, dopts = genrun.build_api(apigen.request(dep_files, "autogen-snippets=false"))
            dep_res, derr = generate_from(dapi, dopts)
        except BaseException as e:  # noqa
            dep_res, derr = None, (genrun.crash_signature(e), str(e)[:300])
        if derr:
            ctx.fail("generation-crash:" + derr[0], f"generator raised {derr[0]} on the dependency package: {derr[1]}", {"spec": spec["dep"]})
            return
    pypkg = ".".join(api.naming.module_namespace + (api.naming.versioned_module_name,))
    # every file of the target package (and of its sub-packages) has its types module in the response
    emitted = {x.name for x in res.file}
    lost = [f for f in spec["files"] if py_types_package(pypkg, f.get("sub")).replace(".", "/") + f"/{f['name']}.py" not in emitted]
    if lost:
        for f in lost:
            nested = (f.get("sub") or "").count(".") >= 1
            ctx.fail("types-module-not-emitted" + (":nested-sub-package" if nested else ""),
                     f"no types module is emitted for {proto_path(spec, f)} (package {file_pkg(spec, f)}): its messages and enums "
                     f"have no class; expected {py_types_package(pypkg, f.get('sub')).replace('.', '/')}/{f['name']}.py", payload)
        return
    codec = rpc.Codec(dep_files + files)
    nvals = nvals if nvals is not None else ctx.n(2, 4)
    trips = []
    vr = apigen.Rng(r.random(), "valuations")
    for full, s in syms.items():
        if s["kind"] != "message":
            continue
        dyns = []
        for k in range(nvals):
            v = rpc.rand_msg(vr, codec, full, p_set=0.45, force=[fl["name"] for fl in s["spec"]["fields"]] if k == 0 else (),
                             max_depth=7)
            dyn = codec.cls(full)()
            json_format.ParseDict(v, dyn, descriptor_pool=codec.pool)
            dyns.append(("random", dyn))
        z = zero_valuation(codec, full)
        if z.ListFields():
            dyns.append(("zeros", z))
        for kind, dyn in dyns:
            data = dyn.SerializeToString(deterministic=True)
            try:
                lit = literal_of(spec, dyn)
            except _NoLiteral:
                lit = None
                ctx.count("valuation", "no-literal (repeated/map of struct.proto types)")
            trips.append({"full": full, "kind": kind, "b64": base64.b64encode(data).decode(),
                          "json": json_format.MessageToJson(dyn, descriptor_pool=codec.pool), "value": codec.decode(full, data),
                          "literal": lit,
                          "want_json": json_format.MessageToDict(dyn, always_print_fields_with_no_presence=True,
                                                                 use_integers_for_enums=True, descriptor_pool=codec.pool)})
    root = genrun.materialise(dep_res) if dep_res is not None else None
    root = genrun.materialise(res, root)
    try:
        subs = sorted({f["sub"] for f in spec["files"] if f.get("sub")})
        out = libhost.run(root, [{"op": "types_session", "package": pypkg,
                                  "types_packages": [py_types_package(pypkg, sub) for sub in subs],
                                  "roundtrips": [{k: t[k] for k in ("full", "b64", "json", "literal") if t[k] is not None}
                                                 for t in trips]}], timeout=600)[0]
    finally:
        genrun.cleanup(root)
    if "messages" not in out:
        ctx.fail("session-failed", "types_session did not run: " + str(out)[-400:], payload)
        return
    model = ask(ctx, [model_module_op(spec, f) for f in spec["files"]])
    compare(ctx, spec, syms, files, out, model, trips, codec, shadows, payload, pypkg)


def named_proto_importers(spec):
    """the trigger of finding types-module-named-proto: pairs (importing file, imported file) where a message of the first
    has a field (or map value) whose type is declared in ANOTHER target file that is called proto.proto, i.e. the types
    module of the first prints `from <…>.types import proto`"""
    syms = symbols(spec)
    out = []
    for full, s in syms.items():
        if s["kind"] == "message":
            for fl in s["spec"]["fields"]:
                t = syms.get(fl.get("ref"))
                if t is not None and t["file"] == "proto" and fkey(t) != fkey(s) and (fkey(s), fkey(t)) not in out:
                    out.append((fkey(s), fkey(t)))
    return out


def generate_from(api, opts):
    """the statements of genrun.generate_inproc after API.build (the schema of this case is built once)"""
    import warnings
    from gapic import generator
    try:
        with warnings.catch_warnings():
            warnings.simplefilter("ignore")
            return generator.Generator(opts).get_response(api, opts), None
    except BaseException as e:  # noqa
        return None, (genrun.crash_signature(e), str(e)[:300])


def classify_import_error(err, shadows, spec=None, pypkg=None):
    """the key of an import failure.  The known key types-module-named-proto is given only to the recorded defect: the input
    has the trigger (named_proto_importers) AND the failure is the recorded one at the recorded site — the header statement
    `__protobuf__ = proto.module(` of an IMPORTING file's types module raises AttributeError because the name `proto` is
    bound to the imported types module `<…>.types.proto` (which has no attribute `module`).  Any other AttributeError, also
    one about another attribute of that module or raised elsewhere, keeps the unlisted key import-error:AttributeError."""
    if spec is not None and pypkg is not None and err["type"] == "AttributeError":
        for (isub, ifile), (tsub, _) in named_proto_importers(spec):
            site = py_types_package(pypkg, isub).replace(".", "/") + f"/{ifile}.py"
            msg = f"module '{py_types_package(pypkg, tsub)}.proto' has no attribute 'module'"
            if err["msg"] == msg and err["module"] == site and (err["text"] or "").strip().startswith("__protobuf__ = proto.module("):
                return "types-module-named-proto"
    return "import-error:" + err["type"]


def compare(ctx, spec, syms, files, out, model, trips, codec, shadows, payload, pypkg):
    shadow_set = {(a, b) for a, b, _ in shadows}
    # ---- model prediction of the import outcome
    pred_import = "ok"
    for mo in model:
        if mo.get("import", "ok") != "ok" and pred_import == "ok":
            pred_import = mo["import"]
    ctx.traces += 1
    err = out["import_error"]
    if err:
        ctx.count("import", err["type"])
        ctx.fail(classify_import_error(err, shadows, spec, pypkg),
                 f"importing the emitted types package raises {err['type']}: {err['msg']} ({err['module']}:{err['line']}: {err['text']})", payload)
        if pred_import == "ok" or (pred_import in ("NameError", "AttributeError") and pred_import != err["type"]):
            ctx.disagree("T3:c02.import", f"model predicts import {pred_import}, implementation raised {err['type']}: {err['msg']}", payload)
        return
    ctx.count("import", "ok")
    if pred_import != "ok":
        ctx.disagree("T3:c02.import", f"model predicts import failure {pred_import}, implementation imported", payload)
    # ---- classes present, placed by nesting
    want_msgs = {k for k, v in syms.items() if v["kind"] == "message"}
    got_msgs = {k for k, v in out["messages"].items()
                if not _is_map_entry(v)}
    want_enums = {k for k, v in syms.items() if v["kind"] == "enum"}

    def home(s):
        return py_types_package(pypkg, s["sub"]) + "." + s["file"], ".".join(s["path"])
    # type identity: the class emitted at the place of an input type (module of its file, nesting path) IS that protobuf
    # type, i.e. carries its full name (the name in type URLs of google.protobuf.Any, in error details, in JSON "@type")
    at_home = {(rec["module"], rec["qualname"]): k for k, rec in list(out["messages"].items()) + list(out["enums"].items())}
    renamed = set()
    for k in sorted((want_msgs - got_msgs) | (want_enums - set(out["enums"]))):
        got = at_home.get(home(syms[k]))
        if got is not None and got not in syms:
            renamed.add(got)
            ctx.fail("descriptor:full-name", f"{syms[k]['kind']} {k} is emitted (in {home(syms[k])[0]}) as protobuf type {got}", payload)
        else:
            ctx.fail("descriptor:missing-class", f"no emitted class for {syms[k]['kind']} {k}", payload)
    for k in sorted(got_msgs - want_msgs - renamed):
        ctx.fail("descriptor:extra-class", f"emitted class {k} has no input message", payload)
    for k in sorted(set(out["enums"]) - want_enums - renamed):
        ctx.fail("descriptor:extra-class", f"emitted enum {k} has no input enum", payload)
    # every top-level class of a (sub-)package is reachable as <python package>[.<sub>].types.<Name>
    for sub in sorted({f.get("sub") or "" for f in spec["files"]}):
        tname = py_types_package(pypkg, sub)
        ta = (out.get("types_all") or {}).get(tname)
        if ta is not None:
            tops = sorted(n for f in spec["files"] if (f.get("sub") or "") == sub
                          for n in [e["name"] for e in f["enums"]] + [m["name"] for m in f["messages"]])
            lost = [n for n in tops if n not in ta["all"]] + list(ta["missing"])
            if lost:
                ctx.fail("types-init:not-exported", f"{tname} does not export {lost}", payload)
    # manifests and module headers (T3 correspondence: the model's manifest / proto.module(package=, marshal=) vs the
    # module's __protobuf__)
    for f, mo in zip(spec["files"], model):
        mname = py_types_package(pypkg, f.get("sub")) + "." + f["name"]
        got = out["manifests"].get(mname)
        ctx.traces += 1
        if got != sorted(mo.get("manifest", [])):
            ctx.disagree("T3:c02.manifest", f"module {mname}: manifest {got} vs model {sorted(mo.get('manifest', []))}", payload)
        hd = (out.get("headers") or {}).get(mname)
        if hd is not None and "header" in mo:
            ctx.traces += 1
            if hd != mo["header"]:
                ctx.disagree("T3:c02.module-header", f"module {mname}: proto.module(...) is {hd} at run time, model {mo['header']}", payload)
    by_full_input = {}
    for fpb in files:
        def walk(msgs, prefix):
            for m in msgs:
                by_full_input[f"{prefix}.{m.name}"] = m
                walk(m.nested_type, f"{prefix}.{m.name}")
        walk(fpb.message_type, fpb.package)
    model_by_path = {}
    for f, mo in zip(spec["files"], model):
        for mm in mo.get("messages", []):
            model_by_path[".".join([file_pkg(spec, f)] + mm["path"])] = mm
    for full in sorted(want_msgs & got_msgs):
        rec = out["messages"][full]
        s = syms[full]
        if (rec["module"], rec["qualname"]) != home(s):
            ctx.fail("descriptor:nesting", f"{full} is emitted as {rec['module']}:{rec['qualname']}", payload)
        if rec["desc"] is None:
            ctx.fail("descriptor:no-runtime-descriptor", f"{full}: class has no protobuf descriptor (file never completed)", payload)
            continue
        rt = dp.DescriptorProto.FromString(base64.b64decode(rec["desc"]))
        want = norm_input(by_full_input[full])
        got = norm_input(rt)
        check_message(ctx, full, want, got, rt, shadow_set, payload)
        check_model(ctx, full, model_by_path.get(full), rt, payload)
    enum_fulls = sorted(want_enums & set(out["enums"]))
    enum_model = ask(ctx, [{"op": "c02.enum", "values": syms[full]["spec"]["values"]} for full in enum_fulls])
    for full, emo in zip(enum_fulls, enum_model):
        rec = out["enums"][full]
        s = syms[full]
        e = dp.EnumDescriptorProto.FromString(base64.b64decode(rec["desc"]))
        got = sorted([v.name, v.number] for v in e.value)
        want = sorted([n, v] for n, v in s["spec"]["values"])
        if got != want:
            ctx.fail("descriptor:enum-values", f"{full}: run-time values {got} != input {want}", payload)
        if (rec["module"], rec["qualname"]) != home(s):
            ctx.fail("descriptor:nesting", f"enum {full} is emitted as {rec['module']}:{rec['qualname']}", payload)
        if sorted(rec["members"]) != want:
            ctx.fail("descriptor:enum-values", f"{full}: python members {sorted(rec['members'])} != input {want}", payload)
        if bool(e.options.allow_alias) != bool(s["spec"].get("alias")):
            ctx.fail("descriptor:enum-options", f"{full}: allow_alias is {e.options.allow_alias} at run time, {bool(s['spec'].get('alias'))} in the input", payload)
        ctx.traces += 1
        if emo.get("values") != [[v.name, v.number] for v in e.value]:
            ctx.disagree("T3:c02.enum", f"{full}: model {emo} vs run-time value order {[[v.name, v.number] for v in e.value]}", payload)
    # ---- the class can serialise at all: Class.serialize / deserialize / to_json / from_json / pb / ... are the class-level API
    # (known key class-api-shadowed:optional-field = the recorded defect only: the message HAS a proto3-optional field called n
    #  and Cls.n evaluates to the string n, proto-plus's presence-test constant; anything else that replaces the class-level
    #  API gets the unlisted key class-api-shadowed)
    api_lost_known = set()
    vals = out.get("shadowed_class_api_values") or {}
    for full, lost in sorted((out.get("shadowed_class_api") or {}).items()):
        opt = {fl["name"] for fl in syms[full]["spec"]["fields"] if fl["card"] == "optional"} if full in syms else set()
        known = {n for n in lost if n in opt and (vals.get(full) or {}).get(n) == n}
        for n in lost:
            ctx.fail("class-api-shadowed" + (":optional-field" if n in known else ""),
                     f"{full}: {full.rsplit('.', 1)[-1]}.{n} is not the proto-plus class-level API any more (it evaluates to the str "
                     f"{(vals.get(full) or {}).get(n)!r}): calling it raises TypeError"
                     + (f"; the message has a proto3-optional field called {n}" if n in known else ""), payload)
        if lost and set(lost) == known:
            api_lost_known.add(full)
    # ---- two-way round trips and JSON
    for t, rt_ in zip(trips, out["roundtrips"]):
        ctx.case(distinct_key=["val", t["full"], t["b64"]], nontrivial=bool(t["value"]))
        pl = {**payload, "message": t["full"], "value": t["value"]}
        if "raised" in rt_:
            # (a class whose class-level API is shadowed by its own optional fields cannot run every stage: the same finding, but
            #  only for the recorded symptom — calling the shadowed name; any other exception of such a class is reported)
            same = t["full"] in api_lost_known and rt_["raised"] == "TypeError" and rt_["msg"] == "'str' object is not callable"
            ctx.fail("class-api-shadowed:optional-field" if same else "roundtrip:raised:" + rt_["stage"],
                     f"{t['full']}: {rt_['stage']} raised {rt_['raised']}: {rt_['msg']}", pl)
            continue
        back = codec.decode(t["full"], rt_["bytes_out"])
        if back != t["value"] or has_unknown(codec, t["full"], rt_["bytes_out"]):
            ctx.fail("roundtrip:bytes", f"{t['full']}: deserialize→serialize gives {back}, sent {t['value']}", pl)
        back2 = codec.decode(t["full"], rt_["from_json_out"])
        if back2 != t["value"]:
            ctx.fail("roundtrip:from-json", f"{t['full']}: from_json→serialize gives {back2}, sent {t['value']}", pl)
        for k, what in (("ctor_out", "Class(literal dict)"), ("setattr_out", "attribute-by-attribute assignment"),
                        ("kwargs_out", "Class(**keywords)")):
            if k in rt_:
                back3 = codec.decode(t["full"], rt_[k])
                if back3 != t["value"] or has_unknown(codec, t["full"], rt_[k]):
                    ctx.fail("literal:" + k[:-4], f"{t['full']}: {what} serialises to {back3}, the caller wrote {t['value']}", pl)
        if "ctor_json" in rt_ and json.loads(rt_["ctor_json"]) != t["want_json"]:
            ctx.fail("literal:json", f"{t['full']}: to_json of Class(literal) {json.loads(rt_['ctor_json'])} != JSON under the input "
                     f"descriptors {t['want_json']}", pl)
        ctx.count("valuation", t.get("kind", "random"))
        got_json = json.loads(rt_["json_out"])
        if got_json != t["want_json"]:
            ka, kb = _keys(got_json), _keys(t["want_json"])
            ctx.fail("json-keys" if ka != kb else "json-values",
                     f"{t['full']}: to_json {got_json} != JSON under the input descriptors {t['want_json']}", pl)


def _keys(j):
    if isinstance(j, dict):
        return sorted((k, _keys(v)) for k, v in j.items())
    if isinstance(j, list):
        return [_keys(x) for x in j]
    return None


def _is_map_entry(rec):
    if rec["desc"] is None:
        return False
    return dp.DescriptorProto.FromString(base64.b64decode(rec["desc"])).options.map_entry


def check_message(ctx, full, want, got, rt, shadow_set, payload):
    """run-time descriptor ≅ input descriptor, aspect by aspect (keys name the aspect)"""
    wf, gf = want["fields"], got["fields"]
    for num in sorted(set(wf) - set(gf)):
        ctx.fail("descriptor:missing-field", f"{full}: field {wf[num]['name']} = {num} is not declared by the class", payload)
    for num in sorted(set(gf) - set(wf)):
        ctx.fail("descriptor:extra-field", f"{full}: class declares {gf[num]['name']} = {num}, not in the input", payload)
    for num in sorted(set(wf) & set(gf)):
        w, g = wf[num], gf[num]
        attr = expected_attr(w["name"])
        if g["name"] != attr:
            ctx.fail("descriptor:name", f"{full}: field {num} is attribute {g['name']!r}, expected {attr!r}", payload)
        stripped = g["name"][:-1] if g["name"].endswith("_") and g["name"][:-1] in RESERVED else g["name"]
        own_suffix = w["name"].endswith("_") and w["name"][:-1] in RESERVED     # excluded by wire_name_recovered's hypothesis
        if stripped != w["name"] and not own_suffix:
            ctx.fail("descriptor:name", f"{full}: field {num} run-time name {g['name']!r} does not strip to {w['name']!r}", payload)
        for aspect in ("type", "repeated", "type_name", "oneof", "optional", "map"):
            if w[aspect] != g[aspect]:
                ctx.fail(f"descriptor:{aspect}", f"{full}.{w['name']}: {aspect} is {g[aspect]!r} at run time, {w[aspect]!r} in the input", payload)
    if want["nested"] != got["nested"]:
        ctx.fail("descriptor:nesting", f"{full}: nested messages {got['nested']} != {want['nested']}", payload)
    if want["enums"] != got["enums"]:
        ctx.fail("descriptor:enum-values", f"{full}: nested enums {got['enums']} != {want['enums']}", payload)


def check_model(ctx, full, mm, rt, payload):
    """T3 correspondence: the Lean model's predicted FieldDescriptorProtos vs the run-time ones"""
    if mm is None:
        ctx.unsupported += 1
        return
    ctx.traces += 1
    entries = {n.name: n for n in rt.nested_type if n.options.map_entry}
    got = []
    for f in rt.field:
        d = {"name": f.name, "number": f.number, "repeated": f.label == 3, "type": f.type,
             "type_name": f.type_name.lstrip(".") or None,
             "oneof": rt.oneof_decl[f.oneof_index].name if f.HasField("oneof_index") else None,
             "optional": bool(f.proto3_optional), "entry": None}
        short = f.type_name.rsplit(".", 1)[-1]
        if short in entries and f.label == 3 and f.type == 11:
            e = entries[short]
            kf = next(x for x in e.field if x.number == 1)
            vf = next(x for x in e.field if x.number == 2)
            d["entry"] = {"name": e.name, "ktype": kf.type, "vtype": vf.type, "vtype_name": vf.type_name.lstrip(".") or None}
        got.append(d)
    pred = []
    for fj in mm["fields"]:
        if "ok" not in fj:
            ctx.disagree("T3:c02.field", f"{full}: model predicts {fj.get('error')} for ref {fj.get('ref')}, class imported", payload)
            return
        pred.append(fj["ok"])
    if pred != got:
        diff = [(p, g) for p, g in zip(pred, got) if p != g][:2] or [(len(pred), len(got))]
        ctx.disagree("T3:c02.runtime-descriptor", f"{full}: model vs run time differ: {diff}", payload)


# --------------------------------------------------------------------------------------------- T2

def addr_json(a, collides=None):
    return {"package": list(a.package), "module": a.module, "parent": list(a.parent), "name": a.name,
            "proto_plus": bool(a.is_proto_plus_type), "collides": bool(a.module in a.collisions) if collides is None else collides}


def t2(ctx, spec, syms, api, payload):
    from gapic.schema import wrappers
    ops, metas = [], []
    version = api.naming.version
    names = set()
    for proto in api.protos.values():
        if not proto.file_to_generate:
            continue
        for full, msg in proto.all_messages.items():
            if msg.map:
                continue
            s = syms.get(full)
            if s is None:
                ctx.fail("schema:unknown-message", f"schema has message {full} not in the input", payload)
                continue
            want_fields = {fl["name"]: fl for fl in s["spec"]["fields"]}
            if sorted(f.field_pb.name for f in msg.fields.values()) != sorted(want_fields):
                ctx.fail("schema:fields-lost", f"{full}: schema fields {[f.field_pb.name for f in msg.fields.values()]} != input {sorted(want_fields)}", payload)
            for key, fld in msg.fields.items():
                names.add(fld.field_pb.name)
                fl = want_fields.get(fld.field_pb.name)
                if fl is None:
                    continue
                # oracle-level facts about the schema object (late resolution of forward / recursive references)
                ref = fl.get("ref") if fl["card"] != "map" else None
                t = fld.type
                if fl["card"] == "map":
                    if not fld.map:
                        ctx.fail("schema:map", f"{full}.{fl['name']}: not recognised as a map", payload)
                    else:
                        vt = fld.message.fields["value"]
                        got = vt.type.ident.proto if (vt.message or vt.enum) else None
                        if got != fl.get("ref"):
                            ctx.fail("schema:resolution", f"{full}.{fl['name']}: map value resolved to {got}, input says {fl.get('ref')}", payload)
                elif ref is not None:
                    got = t.ident.proto if isinstance(t, (wrappers.MessageType, wrappers.EnumType)) else None
                    if got != ref:
                        ctx.fail("schema:resolution", f"{full}.{fl['name']}: resolved to {got}, input says {ref}", payload)
                want_oneof = fl["card"][6:] if fl["card"].startswith("oneof:") else ("_" + fl["name"] if fl["card"] == "optional" else None)
                if fld.oneof != want_oneof:
                    ctx.fail("schema:oneof", f"{full}.{fl['name']}: Field.oneof={fld.oneof!r}, input {want_oneof!r}", payload)
                # model correspondence: rel / str / alias / import name
                targets = []
                if fld.map:
                    vt = fld.message.fields["value"]
                    if vt.message or vt.enum:
                        targets.append(vt.type.ident)
                elif fld.message or fld.enum:
                    targets.append(fld.type.ident)
                for ident in targets:
                    ops.append({"op": "c02.rel", "version": version, "self": addr_json(ident), "ctx": addr_json(msg.ident)})
                    try:
                        real = {"rel": ident.rel(msg.ident), "str": str(ident), "alias": ident.module_alias,
                                "import": (ident.python_import.alias or ident.python_import.module)}
                    except Exception as e:  # noqa
                        real = {"raised": type(e).__name__}
                    metas.append((full, fl["name"], real))
    for f in spec["files"]:
        proto = api.protos[proto_path(spec, f)]
        mine = set(file_collisions(spec, f))
        real_names = set(proto.names)
        ctx.traces += 1
        if mine != real_names:
            ctx.disagree("T2:c02.names-set", f"{f['name']}: Proto.names differs from its restatement by {sorted(mine ^ real_names)}", payload)
        pa = ask(ctx, [{"op": "c02.proto_alias", "names": sorted(real_names)}])[0]["alias"]
        if pa != proto.disambiguate("proto"):
            ctx.disagree("T2:c02.proto_alias", f"{f['name']}: disambiguate('proto') = {proto.disambiguate('proto')!r}, model {pa!r}", payload)
    res = ask(ctx, ops)
    for (full, fname, real), mo in zip(metas, res):
        ctx.traces += 1
        if "raised" in real:
            if mo["rel"] is not None:
                ctx.disagree("T2:c02.rel", f"{full}.{fname}: impl raised {real['raised']}, model {mo}", payload)
            continue
        for k in ("rel", "str", "alias", "import"):
            if mo[k] != real[k]:
                ctx.disagree(f"T2:c02.{k}", f"{full}.{fname}: model {mo[k]!r} vs impl {real[k]!r}", payload)
    # Field.name / json names on the names of this case
    names = sorted(names)
    res = ask(ctx, [{"op": "c02.names", "names": names, "proto_plus": True}])[0]
    real_attr = {}
    for proto in api.protos.values():
        if proto.file_to_generate:
            for msg in proto.all_messages.values():
                for fld in msg.fields.values():
                    real_attr[fld.field_pb.name] = fld.name
    for n, mo in zip(names, res):
        ctx.traces += 1
        if mo["attr"] != real_attr[n]:
            ctx.disagree("T2:c02.attr", f"Field.name({n!r}) = {real_attr[n]!r}, model {mo['attr']!r}", payload)
        if real_attr[n] != expected_attr(n):
            ctx.fail("attr-rule", f"Field.name({n!r}) = {real_attr[n]!r}: not the name plus one underscore iff reserved", payload)
        if mo["json"] != apigen.json_name(n) or mo["json_attr"] != apigen.json_name(n):
            ctx.disagree("T2:c02.json_name", f"model lowerCamel of {n!r}/{mo['attr']!r} = {mo['json']!r}/{mo['json_attr']!r}, protobuf {apigen.json_name(n)!r}", payload)


def t2_schema(ctx, spec, api, files, payload):
    """the loader side (gapic/schema/api.py `_get_fields`, orphan pass; metadata.py is_proto_plus_type, python_import)
    vs the Lean model (op c02.schema): per field the oneof name and the late-resolved type, per referenced address the
    proto-plus flag and the python import package"""
    from gapic.schema import wrappers
    naming = api.naming
    deps = [d for d in getattr(naming, "proto_plus_deps", ()) or () if d]
    for fpb in files:
        proto = api.protos[fpb.name]
        local = set()

        def names_of(msgs, enums, prefix):
            for e in enums:
                local.add(f"{prefix}.{e.name}")
            for m in msgs:
                local.add(f"{prefix}.{m.name}")
                names_of(m.nested_type, m.enum_type, f"{prefix}.{m.name}")
        names_of(fpb.message_type, fpb.enum_type, fpb.package)
        loaded = []
        seen_prior = set()
        fields, metas, file_all = [], [], []
        for e in fpb.enum_type:
            loaded.append([f"{fpb.package}.{e.name}", True])

        def load(m, full):
            for e in m.enum_type:
                loaded.append([f"{full}.{e.name}", True])
            for n in m.nested_type:
                load(n, f"{full}.{n.name}")
            snap = list(loaded)
            real_msg = proto.all_messages.get(full)
            by_pb = {f.field_pb.name: f for f in real_msg.fields.values()} if real_msg is not None else {}
            for f in m.field:
                tn = f.type_name.lstrip(".") or None
                if tn and tn not in local and tn not in seen_prior:
                    seen_prior.add(tn)
                fields.append({"decls": [o.name for o in m.oneof_decl], "idx": f.oneof_index if f.HasField("oneof_index") else None,
                               "tn": tn, "loaded": snap, "_prior": tn if tn and tn not in local else None})
                metas.append((full, f.name, by_pb.get(f.name)))
            loaded.append([full, False])
        for m in fpb.message_type:
            load(m, f"{fpb.package}.{m.name}")
        file_all = [x for x in loaded]
        # types of prior protos a field may name (everything else of the prior protos is irrelevant to a lookup by name)
        prior = []
        syms_ = symbols(spec)
        for tn in sorted(seen_prior):
            if tn in syms_:
                prior.append([tn, syms_[tn]["kind"] == "enum"])
            else:
                try:
                    prior.append([tn, ext_lookup(spec, tn)["kind"] == "enum"])
                except KeyError:
                    pass            # a map-entry type of another file cannot be named by a field
        for fj in fields:
            fj["loaded"] = prior + fj["loaded"]
            del fj["_prior"]
        idents = {}
        for full, fname, real in metas:
            if real is not None and (real.message or real.enum):
                idents[real.type.ident.proto] = real.type.ident
        keys = sorted(idents)
        mo = ask(ctx, [{"op": "c02.schema", "fields": fields, "file_all": file_all, "api": naming.proto_package,
                        "api_root": list(naming.module_namespace) + [naming.versioned_module_name], "deps": deps,
                        "addrs": [addr_json(idents[k]) for k in keys]}])[0]
        for (full, fname, real), fm in zip(metas, mo["fields"]):
            ctx.traces += 1
            if real is None:
                ctx.fail("schema:fields-lost", f"{full}.{fname}: the schema has no such field", payload)
                continue
            if fm["oneof"] != real.oneof:
                ctx.disagree("T2:c02.oneof_name", f"{full}.{fname}: Field.oneof={real.oneof!r}, model {fm['oneof']!r}", payload)
            t = real.type
            got = [t.ident.proto, isinstance(t, wrappers.EnumType)] if isinstance(t, (wrappers.MessageType, wrappers.EnumType)) else None
            if got != fm["resolved"]:
                ctx.disagree("T2:c02.resolve", f"{full}.{fname}: Field.type={got}, model {fm['resolved']}", payload)
        for k, am in zip(keys, mo["addrs"]):
            ctx.traces += 1
            ident = idents[k]
            if bool(ident.is_proto_plus_type) != am["proto_plus"]:
                ctx.disagree("T2:c02.is_proto_plus_type", f"{k}: impl {ident.is_proto_plus_type}, model {am['proto_plus']}", payload)
            if list(ident.python_import.package) != am["import_package"]:
                ctx.disagree("T2:c02.python_import", f"{k}: impl {list(ident.python_import.package)}, model {am['import_package']}", payload)


def t2_tables(ctx):
    """the two external type tables of the model vs descriptor_pb2 / proto-plus, the reserved table vs the
    live one, ToJsonName vs the descriptor pool, proto_type for every type number"""
    import proto
    from gapic.utils import RESERVED_NAMES
    from gapic.schema import wrappers
    from google.protobuf import descriptor_pool
    tb = ask(ctx, [{"op": "c02.tables"}])[0]
    real_desc = sorted([n, name[len("TYPE_"):]] for name, n in dp.FieldDescriptorProto.Type.items())
    if sorted(tb["descriptor_types"]) != real_desc:
        ctx.disagree("T2:c02.tables", f"descriptor type table differs: {tb['descriptor_types']} vs {real_desc}", {})
    real_plus = sorted([k, int(v)] for k, v in proto.ProtoType.__members__.items())
    if sorted(tb["plus_types"]) != real_plus:
        ctx.disagree("T2:c02.tables", f"proto-plus ProtoType differs: {tb['plus_types']} vs {real_plus}", {})
    if set(tb["reserved"]) != set(RESERVED_NAMES):
        ctx.disagree("T2:c02.tables", "reserved table differs from gapic.utils.RESERVED_NAMES: "
                     f"{sorted(set(tb['reserved']) ^ set(RESERVED_NAMES))}", {})
    for n in tb["legal"]:
        fp = dp.FieldDescriptorProto(name="f", number=1, type=n)
        real = wrappers.Field(field_pb=fp).proto_type
        want = dict((a, b) for a, b in tb["descriptor_types"])[n]
        ctx.traces += 1
        if real != want:
            ctx.disagree("T2:c02.proto_type", f"Field.proto_type for {n} = {real}, model {want}", {})
    # ToJsonName: protobuf's own computation through a pool, on every reserved word, with and without the suffix
    names, seen_json = [], set()
    for n in sorted(set(RESERVED_NAMES)) + PLAIN_FIELDS:       # one probe field per JSON name (protobuf rejects duplicates)
        if apigen.json_name(n) not in seen_json and not n.endswith("_"):
            seen_json.add(apigen.json_name(n))
            names.append(n)
    fd = dp.FileDescriptorProto(name="c02_json_probe.proto", package="c02probe", syntax="proto3")
    m = fd.message_type.add(name="P")
    for i, n in enumerate(names):
        m.field.add(name=n + "_", number=2 * i + 1, type=9, label=1)
    m2 = fd.message_type.add(name="Q")
    for i, n in enumerate(names):
        m2.field.add(name=n, number=i + 1, type=9, label=1)
    pool = descriptor_pool.DescriptorPool()
    pool.Add(fd)
    P, Q = pool.FindMessageTypeByName("c02probe.P"), pool.FindMessageTypeByName("c02probe.Q")
    res = ask(ctx, [{"op": "c02.names", "names": names, "proto_plus": True}])[0]
    for n, mo in zip(names, res):
        ctx.traces += 1
        pj, qj = P.fields_by_name[n + "_"].json_name, Q.fields_by_name[n].json_name
        if mo["json"] != qj:
            ctx.disagree("T2:c02.json_name", f"model ToJsonName({n!r}) = {mo['json']!r}, protobuf {qj!r}", {})
        if pj != qj:
            ctx.fail("json-suffix", f"protobuf json_name of {n + '_'!r} is {pj!r}, of {n!r} is {qj!r}", {"name": n})
        ctx.case(distinct_key=["name", n])
    # enum value order: proto-plus's sort vs the model's
    import enum as _enum
    r = ctx.rng("enums")
    ops, wants = [], []
    for i in range(ctx.n(20, 200)):
        vals = [["Z", 0]] + [[f"V{k}", r.pick([0, 1, 2, 3, 5, 9])] for k in range(r.randint(0, 5))]
        ops.append({"op": "c02.enum", "values": vals})
        wants.append(sorted(vals, key=lambda v: v[1]))
    for o, w, mo in zip(ops, wants, ask(ctx, ops)):
        ctx.traces += 1
        if mo.get("values") != w:
            ctx.disagree("T2:c02.enum", f"model enum order {mo} vs python sorted {w}", {})


# --------------------------------------------------------------------------------------------- corpus, run, search, replay

def corpus_specs():
    d = os.path.join(ROOT, "corpus", "C02")
    out = []
    if os.path.isdir(d):
        for fn in sorted(os.listdir(d)):
            if fn.endswith(".json"):
                with open(os.path.join(d, fn)) as fh:
                    blob = json.load(fh)
                out.append((fn, blob.get("payload", blob)))
    return out


def excluded_points():
    """inputs the generator excludes (see the assumptions): run on the real code on every check, reported under
    `excluded_points` in the evidence, never as violations (they lie outside the generator's responsibility or outside
    the names the quantifier is about)"""
    P = "acme.lib.v1"
    return [
        ("negative-enum-number", "proto-plus sorts enum values by number; protobuf rejects an open enum whose first value is not 0",
         {"package": P, "files": [{"name": "alpha", "enums": [{"name": "Kind", "values": [["KIND_UNSPECIFIED", 0], ["KIND_NEG", -1]]}],
                                   "messages": []}]}),
        ("field-named-like-pb2-import", "a field called timestamp_pb2 declared before a google.protobuf.Timestamp field shadows the import",
         {"package": P, "files": [{"name": "alpha", "enums": [], "messages": [{"name": "A", "oneofs": [], "messages": [], "enums": [], "fields": [
             {"name": "timestamp_pb2", "number": 1, "card": "single", "type": "string"},
             {"name": "at", "number": 2, "card": "single", "type": "message", "ref": "google.protobuf.Timestamp"}]}]}]}),
        ("dependency-package-with-api-prefix", "a NON-target file whose package merely starts with the target package as a string "
         "(acme.lib.v1beta vs acme.lib.v1) is generated into the target library (API.build: file_to_generate = "
         "package.startswith(...); Props.C02.proto_plus_prefix_quirk): the emitted file set is C11's subject",
         {"package": P, "dep": {"package": "acme.lib.v1beta", "files": [{"name": "dep_types", "enums": [], "messages": [
             {"name": "Thing", "oneofs": [], "messages": [], "enums": [], "fields": [{"name": "id", "number": 1, "card": "single", "type": "string"}]}]}]},
          "files": [{"name": "alpha", "enums": [], "messages": [{"name": "A", "oneofs": [], "messages": [], "enums": [], "fields": [
              {"name": "thing", "number": 1, "card": "single", "type": "message", "ref": "acme.lib.v1beta.Thing"}]}]}]}),
        ("package-level-import-cycle", "root package -> sub-package and sub-package -> root package references in one API (no cycle between "
         "FILES): <root>/__init__.py imports the sub-package first, its types module imports <root>.types, whose __init__ imports every "
         "root module, one of which reads a class of the half-initialised sub-package module",
         {"package": P, "files": [
             {"name": "base", "enums": [], "messages": [{"name": "Base", "oneofs": [], "messages": [], "enums": [], "fields": [
                 {"name": "id", "number": 1, "card": "single", "type": "string"}]}]},
             {"name": "items", "sub": "catalog", "enums": [], "messages": [{"name": "Item", "oneofs": [], "messages": [], "enums": [], "fields": [
                 {"name": "base", "number": 1, "card": "single", "type": "message", "ref": P + ".Base"}]}]},
             {"name": "order", "enums": [], "messages": [{"name": "Order", "oneofs": [], "messages": [], "enums": [], "fields": [
                 {"name": "item", "number": 1, "card": "single", "type": "message", "ref": P + ".catalog.Item"}]}]}]}),
    ]


def run_excluded(ctx):
    import common
    notes = []
    for key, why, spec in excluded_points():
        sub = common.Ctx(ctx.prop, ctx.tier, ctx.seed)
        sub.driver = ctx.driver
        try:
            run_spec(sub, sub.rng("excluded", key), spec, "excluded:" + key, nvals=1)
            notes.append({"point": key, "why_excluded": why,
                          "observed": sorted({f["key"] for f in sub.failures}) or ["holds"]})
        except Exception as e:  # noqa
            notes.append({"point": key, "why_excluded": why, "observed": ["harness-error:" + type(e).__name__]})
    ctx.notes["excluded_points"] = notes


def run(ctx):
    ctx.rule = ("file sets of one API package: 1..5 files, in ~40% of the cases spread over the API package and 1-4 SUB-PACKAGES of it "
                "(one, two or three levels down, with or without files at the intermediate levels; references root -> sub, sub -> root, sub -> sub, "
                "parent <-> child sub-package; same module name / same top-level "
                "type name in two packages), messages nested to depth <= 4, every scalar type, enums (aliases, unsorted "
                "numbers), repeated / proto3-optional / oneof members / maps over every legal key type, references to self, "
                "ancestors, descendants, later and earlier types of the file, other files of the package and dependency "
                "packages (google.protobuf / google.rpc / google.type / google.api / google.longrunning), names from pools of "
                "12-35 incl. 21 reserved words, the module names, names differing only by case or a trailing underscore, the names of the NON-FIELD members of a class body "
                "(raw_page in messages with next_page_token, done in extended-operation status messages: ~15% / ~12% of the messages get "
                "the shape) and of proto-plus's class-level API (pb, serialize, to_json, ...); in ~30% of "
                "the cases a second package generated as its own proto-plus library and named in proto-plus-deps (same-named "
                "modules and messages across the two packages); real oneofs of 1..3 members; distinct by spec; per message 2-4 random "
                "valuations plus one that SETS every explicit-presence scalar to its zero value, each sent as bytes, as JSON text and as "
                "a literal dict / keyword arguments / attribute assignments (distinct by bytes; non-trivial = non-empty valuation)")
    ctx.assume("enum numbers are non-negative: proto-plus sorts enum values by number and protobuf rejects an open enum "
               "whose first value is not zero, so a negative value makes the module fail to import "
               "(Props.C02.enum_negative_counterexample; run-time library limitation, the generator prints the values faithfully)")
    ctx.assume("no custom json_name option (the statement asks for the standard lowerCamel mapping); message, enum, "
               "enum-value, oneof and file names are not Python keywords; oneof names do not start with an underscore; "
               "target-package module names do not end in _pb2 (DESIGN 7.2 forced hypothesis)")
    ctx.assume("no field carries the alias the generator derives for a colliding module (<package initials>_<module>), "
               "the name <module>_pb2 of an imported dependency module, or the name of a Python builtin used as a bare class name")
    ctx.assume("the target files lie in the API's proto package or in sub-packages of it, at least one of them in the API package itself "
               "(the API package is the common prefix of the target files' packages); the references BETWEEN these packages form no cycle "
               "(a sub-package that needs a type of the root package while the root package needs a type of that sub-package, directly or "
               "through another sub-package, is legal for protoc but makes the emitted python packages import each other through their "
               "eager types/__init__.py: excluded point package-level-import-cycle); "
               "dependency packages outside google.* are proto-plus packages listed in proto-plus-deps")
    ctx.assume("valuations with a repeated or map field of google.protobuf.Value/ListValue/Struct are not written as literal dicts "
               "(proto-plus reads a list/dict given for those types as one value); they still go through bytes and JSON")
    ctx.assume("no field is named <reserved word>_ next to a field named <reserved word> (protoc rejects the JSON-name conflict)")
    ctx.assume("field names do not start with an underscore (legal for protoc; `_pb`, `_meta`, `__class__`, `__module__`, ... are the instance "
               "and class internals of proto-plus and Python: probed by hand, several of them break attribute assignment or the class itself)")
    ctx.assume("no random proto3-optional field is called like proto-plus's class-level API "
               "(corpus input of finding class-api-shadowed:optional-field); every other kind of field with those names is generated")
    t2_tables(ctx)
    run_excluded(ctx)
    r = ctx.rng("types")
    for fn, payload in corpus_specs():
        run_spec(ctx, r, payload["spec"], "corpus:" + fn)
    run_spec(ctx, r, coverage_spec(), "coverage", nvals=ctx.n(3, 8))
    run_spec(ctx, r, layout_spec(), "layout", nvals=ctx.n(3, 8))
    run_spec(ctx, r, subpackage_spec(), "subpackages", nvals=ctx.n(3, 8))
    run_spec(ctx, r, helper_names_spec(), "helper-names", nvals=ctx.n(3, 8))
    run_spec(ctx, r, namesake_spec(), "nested-namesakes", nvals=ctx.n(3, 8))
    run_spec(ctx, r, namesake_spec(loud=True), "nested-namesakes-loud", nvals=ctx.n(2, 4))
    n = ctx.n(40, 500)
    for i in range(n):
        run_spec(ctx, r, gen_spec(r, big=(i % 5 == 4)), f"gen{i}")


def search(ctx):
    r = ctx.rng("search")
    for i in range(60):
        run_spec(ctx, r, gen_spec(r, big=True), f"search{i}", nvals=2)


def replay(ctx, payload):
    import leanio
    ctx.driver = leanio.Driver()
    run_spec(ctx, ctx.rng("replay"), payload["spec"], "replay")
    for f in ctx.failures:
        print("  failure:", f["key"], "-", f["what"][:300])
    for d in ctx.disagreements:
        print("  model/implementation disagreement:", d["correspondence"], "-", d["what"][:300])
    return not ctx.failures


CLAIM = dict(
    text=("Lean 4 proof, on a model that follows _message.py.j2/_enum.py.j2, Field.name/proto_type/map and Address.rel/__str__, that "
          "(1) every field declaration the template prints is read back by proto-plus as the input field - same number, type, label, "
          "referenced type, oneof name, presence flag, map key/value types - for every field kind (decl_roundtrip); (2) the attribute is "
          "the proto name plus exactly one underscore iff reserved, never a keyword, idempotent, injective per message given protoc's "
          "JSON-name uniqueness, invisible in the lowerCamel JSON name, and invertible; (3) enum values survive as a multiset (in order "
          "when sorted); (4) same-module type references resolve to the referenced type under Python class-body scoping for every "
          "nesting/forward/recursive/shadowed shape (rel_resolves; the former defect X.A -> A.B is a regression theorem and corpus input); (5) the "
          "manifest lists exactly the top-level classes; (6) the module header registers the types in the proto package of THEIR file, "
          "also for files of a sub-package of the API package, all modules sharing the API package's marshal (module_header_package, "
          "module_marshal_shared, module_types_full_name); (7) in the class body the template prints (nested classes, the raw_page helper, "
          "the done helper, the fields; last binding of a name wins) a field keeps its declaration whatever it is called, in particular "
          "raw_page or done: both helpers are printed before the fields (field_kept, raw_page_field_kept, done_field_kept_general, "
          "kept_field_seen; done_field_kept = regression input of the defect repaired by 4ad018c). Tie: T1 bridge of RESERVED_NAMES and keyword.kwlist; T2 real Field.name, "
          "proto_type, Address.rel/__str__/module_alias/python_import, ToJsonName via DescriptorPool; T3 the run-time descriptor of "
          "EVERY emitted class (fresh interpreter) vs the model's predicted FieldDescriptorProtos; model-independent oracle: run-time "
          "descriptor = input descriptor aspect by aspect, two-way binary round trips and to_json/from_json against dynamic messages "
          "built from the input files, each valuation also written as a literal dict / keyword arguments / attribute assignments "
          "(a wrongly bound type cannot hide in unknown fields) and with explicit-presence scalars set to zero; type identity: the class "
          "at the place of an input type carries its full name, every target file (root package or sub-package) has its types module. "
          "Also modelled and "
          "T2-compared: _get_fields' oneof lookup (oneof_membership_preserved, any number of members), the orphan-field pass "
          "(resolution_order_irrelevant), is_proto_plus_type incl. proto-plus-deps and python_import packages."),
    technique="Lean 4 theorems (declaration round trip, naming algebra over the bridged tables, Python-scoping resolution of Address.rel) + differential T2/T3 on run-time descriptors + round-trip oracle",
    design="7.2",
    note=("proto-plus's reading of proto.Field/MapField, Python name lookup in class bodies and protobuf's ToJsonName are modelled "
          "external parameters validated by T2/T3, not verified; protobuf codecs are not modelled (equal descriptors => compatible wire "
          "is protobuf's guarantee, exercised by the round trips). Negative enum numbers are excluded (proto-plus rejects them at import)."),
)
