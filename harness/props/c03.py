"""C03 — gRPC calls reach the right RPC with the caller's request and return the reply (DESIGN §7.3).

Case = one API spec (JSON, regenerates exactly) -> descriptors -> REAL generator -> emitted sync and
asyncio clients run against a loopback gRPC server (every path handled as raw-bytes stream-stream;
the channel is instrumented to record the stub kind each path was opened with).
 * oracle (model-independent): exactly one call, path `/<pkg>.<Service>/<Method>`, declared arity,
   payload decodes under the INPUT descriptors to the caller's request, returned/streamed values
   decode to the scripted replies, None for Empty, instance ≡ dict ≡ omitted;
 * T2: Method.grpc_stub_type / transport_safe_name / client_method_name / void / _client_output,
   Address.python_import / is_proto_plus_type / __str__, utils.to_snake_case  vs  Model/Grpc.lean;
 * T3: the observed trace of every call (or the exception class)  vs  `runCall` of the model.
"""
from __future__ import annotations
import base64, copy, json, os
import apigen, genrun, libhost, rpc

PKG = "acme.lib.v1"
DEP_PKG = "acme.common.v1"
SERVICE = "Library"
WKT_MODULE = {"Duration": "duration", "Timestamp": "timestamp", "Empty": "empty", "Struct": "struct",
              "FieldMask": "field_mask"}

PLAIN_NAMES = ["GetBook", "ListShelves", "Sync", "Watch", "Upload", "Chat", "Purge", "Ping", "MoveBook", "Annotate",
               "Fetch", "Resolve", "GetIAMPolicy2FA", "List3DModels", "BatchGetV2Books", "Run", "Host", "Transport",
               "ApiEndpoint", "UniverseDomain", "FromServiceAccountFile", "GetTransportClass", "Stubs", "Wrap",
               "None", "True", "Print", "Type", "Self", "Request", "Retry", "Timeout", "Metadata"]
KEYWORD_NAMES = ["Import", "Class", "Global", "Return", "Yield", "Async", "Await", "Not", "Lambda", "Pass", "Raise",
                 "With", "From", "In", "Is", "Del", "Try", "Except", "Finally", "While", "For", "If", "Else", "Elif",
                 "Def", "Break", "Continue", "And", "Or", "As", "Assert", "Nonlocal"]
UNSAFE_NAMES = ["CreateChannel", "GrpcChannel", "OperationsClient"]
FIELD_NAMES = ["name", "title", "pages", "display_name", "note", "weight", "labels", "tags", "state", "payload",
               "count", "ratio", "flag", "owner", "extra", "inner", "ttl", "stamp", "mask", "alt"]
SCALARS = ["string", "int32", "int64", "uint32", "uint64", "sint32", "sint64", "fixed32", "fixed64", "sfixed32",
           "sfixed64", "bool", "double", "float", "bytes"]
STEMS = ["lib", "library_service", "type", "any", "service", "books"]
STEMS2 = ["shared", "resources", "common", "lib_types"]
# proto sub-packages of the API (`%sub` of the template tree): acme.lib.v1.<sub>; the initial letters are pairwise
# distinct so that two of them still have `acme.lib.v1` as the common root (Naming.build: os.path.commonprefix)
SUBS = ["keepers", "admin", "internal_api", "x", "beta.deep"]


# mix-in services a service yaml can list (google.api.Service.apis) and their RPCs; an API may declare RPCs of the SAME NAMES
# itself (on the mix-in's own request/response types where these make a plain RPC, None = an ordinary type of the API)
MIXINS = {
    "iam": ("google.iam.v1.IAMPolicy", {
        "SetIamPolicy": ("google.iam.v1.SetIamPolicyRequest", "google.iam.v1.Policy"),
        "GetIamPolicy": ("google.iam.v1.GetIamPolicyRequest", "google.iam.v1.Policy"),
        "TestIamPermissions": ("google.iam.v1.TestIamPermissionsRequest", "google.iam.v1.TestIamPermissionsResponse")}),
    "ops": ("google.longrunning.Operations", {
        "ListOperations": ("google.longrunning.ListOperationsRequest", None),
        "GetOperation": ("google.longrunning.GetOperationRequest", None),
        "DeleteOperation": ("google.longrunning.DeleteOperationRequest", "google.protobuf.Empty"),
        "CancelOperation": ("google.longrunning.CancelOperationRequest", "google.protobuf.Empty"),
        "WaitOperation": ("google.longrunning.WaitOperationRequest", None)}),
    "loc": ("google.cloud.location.Locations", {
        "GetLocation": ("google.cloud.location.GetLocationRequest", "google.cloud.location.Location"),
        "ListLocations": ("google.cloud.location.ListLocationsRequest", None)}),
}
MIXIN_FAMILY = {m: fam for fam, (_, rpcs) in MIXINS.items() for m in rpcs}
EXT_MODULE = {"google.longrunning": "operations", "google.cloud.location": "locations"}


def mixin_rule(m):
    """an http rule of the service yaml for mix-in RPC `m` (only RPCs with a rule are mixed in)"""
    fam = MIXIN_FAMILY[m]
    sel = f"{MIXINS[fam][0]}.{m}"
    if fam == "iam":
        return {"selector": sel, "post": "/v1/{resource=shelves/*}:" + m[0].lower() + m[1:], "body": "*"}
    return {"ListOperations": {"selector": sel, "get": "/v1/{name=shelves/*}/operations"},
            "GetOperation": {"selector": sel, "get": "/v1/{name=shelves/*/operations/*}"},
            "DeleteOperation": {"selector": sel, "delete": "/v1/{name=shelves/*/operations/*}"},
            "CancelOperation": {"selector": sel, "post": "/v1/{name=shelves/*/operations/*}:cancel", "body": "*"},
            "WaitOperation": {"selector": sel, "post": "/v1/{name=shelves/*/operations/*}:wait", "body": "*"},
            "GetLocation": {"selector": sel, "get": "/v1/{name=projects/*/locations/*}"},
            "ListLocations": {"selector": sel, "get": "/v1/{name=projects/*}/locations"}}[m]


def services_of(spec):
    """[(role, service name, methods)] in DECLARATION order (the order `API.services` iterates in)"""
    spec = spec.get("_whole", spec)        # (a per-service view `dict(spec, service=…, methods=…)` keeps the API it is part of)
    have = {"main": (spec.get("service", SERVICE), spec["methods"])}
    for role in ("service2", "service3"):
        if spec.get(role):
            have[role] = (spec[role]["name"], spec[role]["methods"])
    order = [x for x in spec.get("service_order") or [] if x in have]
    order += [x for x in ("main", "service2", "service3") if x in have and x not in order]
    return [(role,) + have[role] for role in order]


def mixed_in(spec):
    """RPC names the service yaml mixes into every client of the API, as the mix-in feature is specified (C17): the mix-in
    service is listed under `apis`, the RPC has an http rule, and (IAM) the API does not declare an RPC of that name itself.
    Operations and Locations know no such yielding."""
    y = spec.get("yaml")
    if not y:
        return []
    own = {me["name"] for _, _, ms in services_of(spec) for me in ms}
    ruled = {ru["selector"] for ru in y["rules"]}
    return [m for fam, (api, rpcs) in MIXINS.items() if api in y["apis"] for m in rpcs
            if f"{api}.{m}" in ruled and not (fam == "iam" and m in own)]


def pkg_of(spec, fidx):
    """proto package of target file `fidx` (0: the file that DECLARES THE SERVICES and the file-0 messages,
    1: the second target file) — read off the spec, i.e. what the `package` statement of that .proto file says"""
    sub = (spec.get("subs") or [None, None])[fidx]
    return PKG + ("." + sub if sub else "")


def svc_pkg(spec):
    """the `<proto package>` of the statement: the package of the file declaring the service"""
    return pkg_of(spec, 0)


def root_pkg(spec):
    """what the generator is told is the API: the common root of the packages of the files to generate"""
    pk = {pkg_of(spec, 0)} | ({pkg_of(spec, 1)} if spec.get("stem2") else set())
    return os.path.commonprefix(tuple(pk)).rstrip(".")



def ask(ctx, ops):
    """ctx.driver.ask, tolerant of the driver binary being relinked by a concurrent build of another property"""
    import time
    last = None
    for attempt in range(40):
        try:
            return ctx.driver.ask(ops)
        except (FileNotFoundError, PermissionError, OSError, RuntimeError) as e:
            last = e
            time.sleep(5)
    raise last

# ------------------------------------------------------------------ generator


def gen_fields(r, earlier, dep, allow_wkt=True, genre=f".{PKG}.Genre"):
    """1..5 fields over scalars / enum / earlier messages / maps / oneofs / well-known types / dependency types"""
    names = list(FIELD_NAMES)
    r.shuffle(names)
    out = []
    n = r.randint(1, 5)
    k = 0
    while len(out) < n and names:
        kind = r.pick(["scalar", "scalar", "scalar", "enum", "message", "map", "oneof", "wkt", "dep", "optional"])
        nm = names.pop()
        if kind == "scalar":
            out.append({"name": nm, "type": r.pick(SCALARS), "repeated": r.maybe(0.25)})
        elif kind == "optional":
            out.append({"name": nm, "type": r.pick(["int32", "string", "bool", "int64", "double"]), "optional": True})
        elif kind == "enum":
            out.append({"name": nm, "type": "enum", "ref": genre, "repeated": r.maybe(0.2)})
        elif kind == "message" and earlier:
            out.append({"name": nm, "type": "message", "ref": "." + r.pick(earlier), "repeated": r.maybe(0.3)})
        elif kind == "map":
            v = r.pick(["string", "int32", "message"]) if earlier else r.pick(["string", "int32"])
            out.append({"name": nm, "map": [r.pick(["string", "int32", "int64", "bool"]), v,
                                            ("." + r.pick(earlier)) if v == "message" else None]})
        elif kind == "oneof" and len(names) >= 1:
            nm2 = names.pop()
            k += 1
            out.append({"name": nm, "type": r.pick(["string", "int32"]), "oneof": f"choice{k}"})
            if earlier and r.maybe(0.5):
                out.append({"name": nm2, "type": "message", "ref": "." + r.pick(earlier), "oneof": f"choice{k}"})
            else:
                out.append({"name": nm2, "type": r.pick(["bool", "bytes", "int64"]), "oneof": f"choice{k}"})
        elif kind == "wkt" and allow_wkt:
            w = r.pick(["Duration", "Timestamp", "FieldMask", "Int32Value", "StringValue"])
            out.append({"name": nm, "type": "message", "ref": f".google.protobuf.{w}", "repeated": False})
        elif kind == "dep" and dep:
            out.append({"name": nm, "type": "message", "ref": f".{DEP_PKG}.Note", "repeated": r.maybe(0.2)})
    if not out:
        out.append({"name": "name", "type": "string"})
    return out


def gen_spec(r: apigen.Rng, idx=0):
    """one API in the "rpc" profile of DESIGN §7.3"""
    dep = r.maybe(0.6)
    stem = r.pick(STEMS)
    stem2 = r.pick([s for s in STEMS2 if s != stem]) if r.maybe(0.45) else None
    # package layout of the target files: all in acme.lib.v1 ("flat"), or the file declaring the services / the second
    # file / both in a sub-package acme.lib.v1.<sub> (then there are always two target files)
    layout = r.pick(["flat"] * 5 + ["svc-sub"] * 3 + ["types-sub", "both-sub"])
    subs = [None, None]
    if layout != "flat":
        stem2 = stem2 or r.pick([s for s in STEMS2 if s != stem])
        a = r.pick(SUBS)
        b = r.pick([s for s in SUBS if s[0] != a[0]])
        subs = {"svc-sub": [a, None], "types-sub": [None, a], "both-sub": [a, b]}[layout]
    lay = {"subs": subs, "stem2": stem2}
    genre = f".{pkg_of(lay, 1 if stem2 else 0)}.Genre"
    msgs = []
    fulls = {0: [], 1: []}
    pool = ["Book", "Shelf", "Req", "Reply", "Empty", "Item", "Query", "Status", "Operation", "Duration"]
    r.shuffle(pool)
    nm = r.randint(2, 5)
    for i in range(nm):
        name = pool[i]
        fidx = 1 if (stem2 and r.maybe(0.4)) else 0
        earlier = list(fulls[1]) if fidx == 1 else list(fulls[0]) + list(fulls[1])
        m = {"name": name, "file": fidx, "fields": gen_fields(r, earlier, dep, genre=genre), "nested": []}
        if r.maybe(0.25):
            m["nested"].append({"name": "Inner", "fields": gen_fields(r, earlier, dep, genre=genre)})
        msgs.append(m)
        fulls[fidx].append(f"{pkg_of(lay, fidx)}.{name}")
        if m["nested"]:
            fulls[fidx].append(f"{pkg_of(lay, fidx)}.{name}.Inner")
    def typeref(allow_empty):
        kinds = ["local"] * 6 + ["wkt"] * 2 + ["iam"] + (["dep"] * 2 if dep else []) + (["empty"] * 3 if allow_empty else ["empty"])
        k = r.pick(kinds)
        if k == "iam":
            return {"kind": "iam", "full": "google.iam.v1." + r.pick(["GetIamPolicyRequest", "Policy", "TestIamPermissionsRequest", "SetIamPolicyRequest"])}
        if k == "local":
            return {"kind": "local", "full": r.pick(fulls[0] + fulls[1])}
        if k == "wkt":
            return {"kind": "wkt", "full": "google.protobuf." + r.pick(["Duration", "Timestamp", "Struct", "FieldMask"])}
        if k == "dep":
            return {"kind": "dep", "full": f"{DEP_PKG}." + r.pick(["Note", "Stamp"])}
        return {"kind": "wkt", "full": "google.protobuf.Empty"}
    names = list(PLAIN_NAMES); r.shuffle(names)
    kws = list(KEYWORD_NAMES); r.shuffle(kws)
    uns = list(UNSAFE_NAMES); r.shuffle(uns)
    chosen = names[:r.randint(2, 4)] + kws[:r.randint(1, 2)] + uns[:r.randint(0, 2)]
    r.shuffle(chosen)
    methods = []
    for k, name in enumerate(chosen):
        cs, ss = (r.maybe(0.3), r.maybe(0.35))
        inp = typeref(False)
        outp = dict(inp) if (r.maybe(0.15) and inp["full"] != "google.protobuf.Empty") else typeref(True)   # same message both ways
        methods.append({"name": name, "input": inp, "output": outp, "cs": cs, "ss": ss})
    # every arity and a void method at least once per API
    want = [(False, False), (False, True), (True, False), (True, True)]
    for k, (cs, ss) in enumerate(want):
        if not any((m["cs"], m["ss"]) == (cs, ss) for m in methods):
            methods[k % len(methods)]["cs"], methods[k % len(methods)]["ss"] = cs, ss
    if not any(m["output"]["full"] == "google.protobuf.Empty" for m in methods):
        methods[0]["output"] = {"kind": "wkt", "full": "google.protobuf.Empty"}
    spec = {"stem": stem, "stem2": stem2, "dep": dep, "messages": msgs, "methods": methods, "options": ""}
    if layout != "flat":
        spec["subs"] = subs
    if r.maybe(0.4):
        # a second service of the same API (its clients may share a channel with the first one's); some RPC names coincide
        m2 = []
        for name in [methods[0]["name"], methods[-1]["name"]][:r.randint(1, 2)] + [r.pick(["Archive", "Restore", "Import", "GrpcChannel"])]:
            if name not in [x["name"] for x in m2]:
                m2.append({"name": name, "input": typeref(False), "output": typeref(True), "cs": r.maybe(0.2), "ss": r.maybe(0.25)})
        spec["service2"] = {"name": r.pick(["Archive", "LibraryAdmin", "Kind"]), "methods": m2}
    if r.maybe(0.4):
        mixin_scenario(r, spec, typeref)
    if r.maybe(0.35) and not any(me["name"].lower() == "transport" for _, _, ms in services_of(spec) for me in ms):
        # runtime configuration of the CALLER's process (see run_api).  (Not with an RPC named `Transport`: it replaces the client's
        # `transport` property, which the DEBUG branch of the client's __init__ reads — naming collision, C12's subject.)
        spec["debug_logging"] = True
    # `option deprecated = true` on some RPCs (the emitted method then warns first; everything else of the call is the same):
    # drawn last so that the rest of the spec is what it was before this option entered the generator (seed13_C03)
    for _, _, ms in services_of(spec):
        for me in ms:
            if r.maybe(0.3):
                me["deprecated"] = True
    return spec


def ext_ref(full):
    return {"kind": "iam" if full.startswith("google.iam.v1.") else "wkt" if full.startswith("google.protobuf.") else "ext", "full": full}


def mixin_scenario(r, spec, typeref):
    """A service yaml that lists mix-in services (IAMPolicy / Operations / Locations) with http rules, for an API of one, two or
    three services (declared in random order) one of which may declare RPCs NAMED like mix-in RPCs itself — on the mix-in's own
    request/response types or on ordinary ones —, with the corresponding mix-in listed or not, its rule present or not; the
    legacy option add-iam-methods on/off."""
    fam_own = r.pick(["iam", "iam", "iam", "ops", "loc", None])
    nsvc = r.pick([1, 2, 2, 3, 3])
    if nsvc == 1:
        spec.pop("service2", None)
    elif not spec.get("service2"):
        spec["service2"] = {"name": r.pick(["Archive", "LibraryAdmin"]),
                            "methods": [{"name": r.pick(["Restore", "Archive"]), "input": typeref(False), "output": typeref(True), "cs": False, "ss": r.maybe(0.3)}]}
    if nsvc == 3:
        spec["service3"] = {"name": r.pick(["Audit", "Reports"]),
                            "methods": [{"name": nm, "input": typeref(False), "output": typeref(True), "cs": False, "ss": False}
                                        for nm in ["Inspect", "Report"][:r.randint(1, 2)]]}
    roles = ["main", "service2", "service3"][:nsvc]
    r.shuffle(roles)
    spec["service_order"] = roles                     # the declaring service comes first / in the middle / last
    own, holder = [], "main"
    if fam_own:
        holder = r.pick(["main", "main", "main", "service2"]) if nsvc >= 2 else "main"
        names = list(MIXINS[fam_own][1])
        r.shuffle(names)
        own = names[:r.randint(1, 2)]
        for nm in own:
            cin, cout = MIXINS[fam_own][1][nm]
            canonical = r.maybe(0.7)
            me = {"name": nm, "input": ext_ref(cin) if canonical else typeref(False),
                  "output": ext_ref(cout) if (canonical and cout) else typeref(True),
                  "cs": (not canonical) and r.maybe(0.2), "ss": (not canonical) and r.maybe(0.25)}
            if holder == "main":
                spec["methods"].insert(r.randint(0, len(spec["methods"])), me)
            else:
                spec["service2"]["methods"].insert(0, me)          # among the RPCs the shared-channel program calls
    if fam_own != "iam" and r.maybe(0.2):
        # (an API that declares IAM-named RPCs itself is not generated with the option that ADDS the IAM methods: assumption)
        spec["options"] = ",".join(x for x in [spec.get("options"), "add-iam-methods"] if x)
    listed, rules = [], []
    for fam, (api, rpcs) in MIXINS.items():
        on = r.maybe(0.8 if fam == fam_own else 0.45)
        if on:
            listed.append(api)
        dense = r.pick([0.5, 1.0]) if on else r.pick([0.0, 0.5])
        for m in rpcs:
            if m in own:
                # Operations / Locations mix-ins do not yield to a same-named RPC of the API (open finding): produced seldom
                # (and never for service2, whose client is only exercised by the shared-channel program)
                want = r.maybe((0.12 if holder == "main" else 0.0) if (on and fam != "iam") else 0.75)
            else:
                want = r.maybe(dense)
            if want:
                rules.append(mixin_rule(m))
    if r.maybe(0.3):
        listed.append(r.pick([f"{svc_pkg(spec)}.{SERVICE}", "google.cloud.location.Location", "google.iam.v1.IAMPolicy2"]))   # noise
    r.shuffle(listed)
    r.shuffle(rules)
    spec["yaml"] = {"apis": listed, "rules": rules}


def shadowed_by_mixin(spec, me):
    """an RPC of the API whose name is also mixed in (statement level: only Operations / Locations names can be), or added by
    the legacy option add-iam-methods (excluded point)"""
    return me is not None and (me["name"] in mixed_in(spec) or
                               (MIXIN_FAMILY.get(me["name"]) == "iam" and "add-iam-methods" in spec.get("options", "")))


# ------------------------------------------------------------------ spec -> descriptors


def add_fields(msg, fields):
    # members of real oneofs first: protoc requires synthetic (proto3-optional) oneofs after all real ones
    for f in sorted(fields, key=lambda f: bool(f.get("optional"))):
        if "map" in f:
            k, v, vref = f["map"]
            msg.map_field(f["name"], k, v, vtype_name=vref)
        else:
            msg.field(f["name"], f["type"], repeated=f.get("repeated", False), type_name=f.get("ref"),
                      oneof=f.get("oneof"), optional=f.get("optional", False))


def build_files(spec):
    """-> (all files in dependency order, target files, dependency-package files)"""
    deps = []
    if spec.get("dep"):
        d = apigen.File(f"{spec.get('dep_dir', 'acme/common/v1')}/common.proto", spec.get("dep_pkg", DEP_PKG),
                        deps=["google/protobuf/duration.proto"])
        lvl = d.enum("Level", ["LEVEL_UNSPECIFIED", "LOW", "HIGH"])
        note = d.msg("Note")
        note.field("text"); note.field("n", "int32", optional=True); note.field("tags", repeated=True)
        note.field("ttl", "message", type_name=".google.protobuf.Duration"); note.field("level", "enum", type_name=lvl)
        st = d.msg("Stamp"); st.field("id", "int64"); st.field("note", "message", type_name=note, optional=True)
        deps.append(d)
    depnames = [d.name for d in deps]
    targets = []
    f2 = None
    if spec.get("stem2"):
        f2 = apigen.File(f"{pkg_of(spec, 1).replace('.', '/')}/{spec['stem2']}.proto", pkg_of(spec, 1)).dep(*depnames)
        targets.append(f2)
    f = apigen.File(f"{pkg_of(spec, 0).replace('.', '/')}/{spec['stem']}.proto", pkg_of(spec, 0)).dep(*depnames)
    if f2:
        f.dep(f2.name)
    # the shared enum lives in the first target file that holds messages referencing it
    holder = f2 if f2 else f
    holder.enum("Genre", ["GENRE_UNSPECIFIED", "FICTION", "POETRY"])
    for m in spec["messages"]:
        tf = f2 if (m["file"] == 1 and f2) else f
        mm = tf.msg(m["name"])
        add_fields(mm, m["fields"])
        for nst in m.get("nested", []):
            add_fields(mm.nested(nst["name"]), nst["fields"])
    f.dep("google/iam/v1/iam_policy.proto", "google/iam/v1/policy.proto")
    for _, sname, smethods in services_of(spec):
        svc = f.service(sname)
        for me in smethods:
            if "google.cloud.location." in me["input"]["full"] + me["output"]["full"]:
                f.dep("google/cloud/location/locations.proto")
            svc.method(me["name"], "." + me["input"]["full"], "." + me["output"]["full"], cs=me["cs"], ss=me["ss"],
                       deprecated=me.get("deprecated", False))
    targets.append(f)
    return deps + targets, targets, deps


PB2_TEMPLATE = '''# stand-in for protoc --python_out (descriptor built by harness/apigen.py)
from google.protobuf import descriptor_pool as _descriptor_pool
from google.protobuf.internal import builder as _builder
{imports}
DESCRIPTOR = _descriptor_pool.Default().AddSerializedFile({blob!r})
_globals = globals()
_builder.BuildMessageAndEnumDescriptors(DESCRIPTOR, _globals)
_builder.BuildTopDescriptorsAndMessages(DESCRIPTOR, {mod!r}, _globals)
'''


def write_pb2(root, fdp):
    """what protoc's python plugin would put on the path for a DEPENDENCY package (never for the API itself)"""
    rel = fdp.name[:-len(".proto")] + "_pb2.py"
    mod = rel[:-3].replace("/", ".")
    imports = "\n".join(f"import {d[:-len('.proto')].replace('/', '.')}_pb2  # noqa" for d in fdp.dependency)
    path = os.path.join(root, rel)
    os.makedirs(os.path.dirname(path), exist_ok=True)
    with open(path, "w") as fh:
        fh.write(PB2_TEMPLATE.format(imports=imports, blob=fdp.SerializeToString(), mod=mod))


def addr_of(spec, ref, alias=""):
    """metadata.Address of a request/response type AS THE SPEC GIVES IT (package, file stem, parents, name)"""
    full = ref["full"]
    if full.startswith("google.protobuf."):
        n = full.rsplit(".", 1)[1]
        return {"package": ["google", "protobuf"], "module": WKT_MODULE[n], "parent": [], "name": n, "alias": alias}
    if full.startswith("google.iam.v1."):
        n = full.rsplit(".", 1)[1]
        return {"package": ["google", "iam", "v1"], "module": "policy" if n == "Policy" else "iam_policy", "parent": [], "name": n, "alias": alias}
    for xp, xm in EXT_MODULE.items():
        if full.startswith(xp + "."):
            return {"package": xp.split("."), "module": xm, "parent": [], "name": full[len(xp) + 1:], "alias": alias}
    dep_pkg = spec.get("dep_pkg", DEP_PKG)
    if ref["kind"] == "dep":
        return {"package": dep_pkg.split("."), "module": "common", "parent": [], "name": full[len(dep_pkg) + 1:], "alias": alias}
    rest = full[len(PKG) + 1:].split(".")
    tops = {m["name"]: m["file"] for m in spec["messages"]}
    k = next(i for i, seg in enumerate(rest) if seg in tops)       # segments before the top-level message: the sub-package
    sub, rest = rest[:k], rest[k:]
    top = rest[0]
    fidx = tops[top] if spec.get("stem2") else 0
    assert PKG.split(".") + sub == pkg_of(spec, fidx).split("."), (full, fidx, spec.get("subs"))
    stem = spec["stem2"] if (fidx == 1 and spec.get("stem2")) else spec["stem"]
    stem = spec.get("module_of", {}).get(top, stem)
    return {"package": PKG.split(".") + sub, "module": stem, "parent": rest[:-1], "name": rest[-1], "alias": alias}


def model_service(spec, aliases):
    ms = []
    for me in spec["methods"]:
        ms.append({"name": me["name"], "cs": me["cs"], "ss": me["ss"],
                   "input": addr_of(spec, me["input"], aliases.get(me["input"]["full"], "")),
                   "output": addr_of(spec, me["output"], aliases.get(me["output"]["full"], ""))})
    return {"package": svc_pkg(spec).split("."), "name": spec.get("service", SERVICE), "methods": ms, "has_lro": False, "mixins": mixed_in(spec)}


def model_naming(spec):
    deps = [o.split("=", 1)[1] for o in spec.get("options", "").split(",") if o.startswith("proto-plus-deps=")]
    return {"proto_package": root_pkg(spec), "proto_plus_deps": [x for d in deps for x in d.split("+")]}


# ------------------------------------------------------------------ helpers

def canon(d):
    return json.dumps(d, sort_keys=True, ensure_ascii=False)


def attr_family(qualname):
    if "SerializeToString" in qualname or "FromString" in qualname:
        return "pb2"
    if "serialize" in qualname:          # serialize / deserialize
        return "plus"
    return "?" + qualname


MULTI_TAGS = ("multi-client:", "client-after-close:", "shared-channel:", "context-manager:")


def pb2_stem_typed(spec, methods):
    """methods (of one service) whose request or response type is a message of the API defined in a target file NAMED *_pb2.proto"""
    out = []
    for me in methods or []:
        for ref in (me["input"], me["output"]):
            if ref["kind"] == "local" and addr_of(spec, ref)["module"].endswith("_pb2"):
                out.append(me["name"])
    return out


def classify(spec, me, asy, what, detail="", paths=None, scope=None, evidence=None):
    """signature key of a failing input for the OPEN findings: assigned only when the input has the recorded defect's TRIGGER
    (decided from the spec) AND the failure is the recorded SYMPTOM at the recorded site (failure class, exception text, the path the
    server saw, which stubs the transport opened); every other failure on the same input keeps its own, unlisted key.
    detail: the failure text; paths: paths the server saw for this call; scope: methods of the service whose client/transport
    failed (session failures); evidence: {(asy, method): the constructed transport never opened the service's own stub for that RPC}"""
    import re
    whole = spec.get("_whole", spec)
    # ---- pb2-named-proto-file: trigger = a request/response type of THIS service from a file named *_pb2.proto;
    # symptom = the transport cannot be constructed because that class lacks SerializeToString / FromString
    if what == "session:AttributeError" and pb2_stem_typed(whole, spec["methods"] if scope is None else scope) \
            and re.search(r"has no attribute '(SerializeToString|FromString)'", detail):
        return "pb2-named-proto-file"
    if what == "serializer-family" and me is not None and pb2_stem_typed(whole, [me]):
        return "pb2-named-proto-file"
    # ---- mixin-shadows-own-rpc: trigger = an own RPC named like an Operations/Locations mix-in RPC that is listed AND has a rule;
    # site = the constructed transport never opened the service's own stub (it was replaced); symptom = what the mix-in method does with the call
    if me is not None and me["name"] in mixed_in(spec) and MIXIN_FAMILY[me["name"]] in ("ops", "loc") \
            and (evidence or {}).get((bool(asy), me["name"])):
        mp = f"/{MIXINS[MIXIN_FAMILY[me['name']]][0]}/{me['name']}"
        base = next((what[len(t):] for t in MULTI_TAGS if what.startswith(t)), what)
        if base in ("path", "arity", "payload", "return", "own-server-calls") and paths == [mp]:
            return "mixin-shadows-own-rpc:operations-locations"
        own = f"/{svc_pkg(spec)}.{spec.get('service', SERVICE)}/{me['name']}"
        if base.startswith("raised:") and paths is not None and own not in paths:
            # the mix-in method was handed the own RPC's request (None / a dict / an instance of another class / an iterator) and
            # raised — AttributeError, TypeError, ValueError, InternalServerError, ResourceExhausted … depending on the request —
            # while no call reached the service's own path
            return "mixin-shadows-own-rpc:operations-locations"
    # ---- void-streaming:async-call-dropped: trigger = asyncio AND reply Empty AND (server- or client-streaming) — never a void
    # UNARY RPC; symptom = NO call reached the server, or (client-streaming) the released call was cut short
    if me is not None and asy and me["output"]["full"] == "google.protobuf.Empty" and (me["ss"] or me["cs"]):
        if what == "call-count:none" or (what == "call-count:cut-short" and me["cs"]):
            return "void-streaming:async-call-dropped"
    return None


def expected_ret(me, replies_json):
    if me["output"]["full"] == "google.protobuf.Empty":
        return {"kind": "none"}
    if me["ss"]:
        return {"kind": "stream", "items": replies_json}
    return {"kind": "value", "item": replies_json[0]}


def observed_ret(codec, me, ok):
    """canonicalise what the client method handed back: decode under the OUTPUT descriptor of the spec"""
    full = me["output"]["full"]

    def one(x):
        if x.get("kind") == "none":
            return None
        if x.get("kind") != "message":
            return {"?": x}
        if x["type"] != full:
            return {"?type": x["type"]}
        return codec.decode(full, x["b64"])
    if ok.get("kind") == "none":
        return {"kind": "none"}
    if ok.get("kind") == "stream":
        return {"kind": "stream", "items": [one(x) for x in ok["items"]]}
    if ok.get("kind") == "message":
        return {"kind": "value", "item": one(ok)}
    return {"kind": "other", "repr": ok}


# ------------------------------------------------------------------ one API


def tagged_literal(codec, full, val, generated_is_pb2):
    """The dict a caller would write by hand for valuation `val` of message `full`: proto field names -> native python
    values, built from the DYNAMIC message of the input descriptors (never through the generated classes, so a wrongly
    bound field cannot hide among unknown fields).  Tags carry what JSON cannot: bytes, non-string map keys; for a
    protobuf (pb2) request class map values of message type must be instances."""
    from google.protobuf import json_format
    m = codec.cls(full)()
    json_format.ParseDict(val, m, descriptor_pool=codec.pool)

    def pyname(desc):
        mod = desc.file.name[:-len(".proto")].replace("/", ".") + "_pb2"
        return f"{mod}:{desc.full_name[len(desc.file.package) + 1:]}"

    def val_of(fd, v, in_map=False):
        if fd.message_type is not None:
            if in_map and generated_is_pb2:
                return {"@pb": pyname(fd.message_type), "b64": base64.b64encode(v.SerializeToString()).decode()}
            return conv(v)
        if fd.type == fd.TYPE_BYTES:
            return {"@b": base64.b64encode(v).decode()}
        return v

    def conv(msg):
        out = {}
        for fd, v in msg.ListFields():
            if fd.message_type is not None and fd.message_type.GetOptions().map_entry:
                vf = fd.message_type.fields_by_name["value"]
                out[fd.name] = {"@map": [[k, val_of(vf, x, True)] for k, x in v.items()]}
            elif fd.label == fd.LABEL_REPEATED:
                out[fd.name] = [val_of(fd, x) for x in v]
            else:
                out[fd.name] = val_of(fd, v)
        return out
    return conv(m)


def enlarge(r, codec, full, val):
    """a very large message: one top-level string/bytes field of ~300 kB (below gRPC's 4 MB default limit)"""
    if not isinstance(val, dict):
        return val
    desc = codec.pool.FindMessageTypeByName(full)
    cands = [fd for fd in desc.fields if fd.type in (fd.TYPE_STRING, fd.TYPE_BYTES) and fd.label != fd.LABEL_REPEATED
             and fd.containing_oneof is None]
    if not cands:
        return val
    fd = r.pick(cands)
    big = dict(val)
    big[fd.name] = ("x" * 300_000) if fd.type == fd.TYPE_STRING else base64.b64encode(b"\x01\x02\x03" * 100_000).decode()
    return codec.normal(full, big)


def plan_calls(ctx, r, spec, codec, svc_obj, per_method):
    """the op script: for every method, the request given as instance / dict / omitted (unary request) or as an
    iterator (client streaming), with random request and reply valuations"""
    import gapic.utils as gu
    plans = []
    for mi, me in enumerate(spec["methods"]):
        m = svc_obj.methods[me["name"]]
        attr = gu.to_snake_case(m.client_method_name)      # plumbing: how to reach the method; checked by T2 below
        in_full, out_full = me["input"]["full"], me["output"]["full"]
        # the reply script is installed for every RPC whose client method has the same name (normally: this one)
        paths = [f"/{svc_pkg(spec)}.{spec.get('service', SERVICE)}/{m2['name']}" for m2 in spec["methods"]
                 if gu.to_snake_case(svc_obj.methods[m2["name"]].client_method_name) == attr]
        pb2_cls = not m.input.ident.is_proto_plus_type      # plumbing: which constructor the literal is written for
        for rep in range(per_method):
            nrep = (r.pick([0, 1, 1, 2, 3, 25]) if me["ss"] else 1)          # zero / one / many
            replies = [rpc.rand_msg(r, codec, out_full) for _ in range(nrep)]
            if out_full == "google.protobuf.Empty":
                replies = [{} for _ in replies]
            elif replies and r.maybe(0.04):
                replies[-1] = enlarge(r, codec, out_full, replies[-1])
                ctx.count("shape", "big-reply")
            tagno = len(plans)
            # a server with STATE: a second call on the same path within one invocation would be answered differently
            decoy = [] if (not spec.get("debug_logging") or out_full == "google.protobuf.Empty") else \
                [{"replies": [codec.encode_b64(out_full, rpc.rand_msg(r, codec, out_full, p_set=0.9)) for _ in range(len(replies) + 1)]}]
            base = {"method": attr, "py_request": rpc.py_type(m.input), "consume": "auto", "probe_bool": True,
                    "script": {pth: [{"replies": [codec.encode_b64(out_full, x) for x in replies]}] + decoy for pth in paths}}

            def kwargs(n):
                # a deadline, so that a mis-wired stub fails instead of hanging; caller metadata must pass through
                return {"timeout": 6.0, "metadata": [["x-verif-call", f"c{n}"]]}
            if me["cs"]:
                reqs = [rpc.rand_msg(r, codec, in_full) for _ in range(r.pick([0, 1, 1, 2, 3, 25]))]
                if reqs and r.maybe(0.04):
                    reqs[0] = enlarge(r, codec, in_full, reqs[0])
                    ctx.count("shape", "big-request")
                call = dict(base, mode="request-none", stream_requests=[codec.encode_b64(in_full, x) for x in reqs],
                            call_kwargs=kwargs(tagno), positional=r.maybe(0.3))
                plans.append({"mi": mi, "mode": "iter", "requests": [codec.normal(in_full, x) for x in reqs], "replies": replies,
                              "call": call, "tag": f"c{tagno}"})
            else:
                val = rpc.rand_msg(r, codec, in_full, p_set=r.pick([0.3, 0.6, 0.9]))
                forced = spec.get("force_request")
                if forced is not None and forced["method"] == me["name"]:
                    val = codec.normal(in_full, forced["value"])
                elif r.maybe(0.04):
                    val = enlarge(r, codec, in_full, val)
                    ctx.count("shape", "big-request")
                b = codec.encode_b64(in_full, val)
                for mode, hmode in (("inst", "request-instance"), ("dict", "request-tagged-literal"), ("omitted", "request-none")):
                    want = codec.decode(in_full, b"") if mode == "omitted" else codec.normal(in_full, val)
                    n = len(plans)
                    call = dict(base, mode=hmode, request_b64=b, call_kwargs=kwargs(n), positional=(mode != "omitted" and r.maybe(0.3)))
                    if mode == "dict":
                        call["request_literal"] = tagged_literal(codec, in_full, val, pb2_cls)
                    plans.append({"mi": mi, "mode": mode, "requests": [want], "replies": replies, "call": call, "tag": f"c{n}"})
    return plans


def plan_multi(r, spec, codec, svc_obj, spec2=None, svc2_obj=None, loc2=None):
    """Two clients of the same service in one interpreter, each bound to ITS OWN loopback server (a@A, b@B),
    calls interleaved in random order; then `a` is closed, a new client c@A is created and c and b call again.
    For every call the addressed server is scripted with the reply, the other server with a DIFFERENT decoy."""
    import gapic.utils as gu
    out = {}
    for asy in (False, True):
        usable = [(mi, me) for mi, me in enumerate(spec["methods"])
                  if not (asy and me["output"]["full"] == "google.protobuf.Empty" and (me["cs"] or me["ss"]))   # open finding: call dropped
                  and me["name"].lower() not in ()]
        r.shuffle(usable)
        usable = usable[:4]
        steps = []
        first = ["a", "b"] if r.maybe() else ["b", "a"]
        home = {"a": "A", "b": "B", "c": "A"}
        for nm in first:
            steps.append({"step": {"do": "create", "name": nm, "server": home[nm]}})

        def call_step(cl, mi, me, sx=None, svx=None):
            sx, svx = sx or spec, svx or svc_obj
            m = svx.methods[me["name"]]
            in_full, out_full = me["input"]["full"], me["output"]["full"]
            path = f"/{svc_pkg(sx)}.{sx.get('service', SERVICE)}/{me['name']}"
            nrep = r.randint(1, 3) if me["ss"] else 1
            void = out_full == "google.protobuf.Empty"
            replies = [({} if void else rpc.rand_msg(r, codec, out_full, p_set=0.9)) for _ in range(nrep)]
            decoy = [({} if void else rpc.rand_msg(r, codec, out_full, p_set=0.9)) for _ in range(nrep + (1 if me["ss"] else 0))]
            target, other = home[cl], ("B" if home[cl] == "A" else "A")
            step = {"do": "call", "client": cl, "method": gu.to_snake_case(m.client_method_name),
                    "py_request": rpc.py_type(m.input), "consume": "auto", "call_kwargs": {"timeout": 6.0},
                    "script": {target: {path: [{"replies": [codec.encode_b64(out_full, x) for x in replies]}]},
                               other: {path: [{"replies": [codec.encode_b64(out_full, x) for x in decoy]}]}}}
            if me["cs"]:
                reqs = [rpc.rand_msg(r, codec, in_full, p_set=0.9) for _ in range(r.randint(1, 2))]
                step.update(mode="request-none", stream_requests=[codec.encode_b64(in_full, x) for x in reqs])
                want = [codec.normal(in_full, x) for x in reqs]
            else:
                val = rpc.rand_msg(r, codec, in_full, p_set=0.9)
                step.update(mode="request-instance", request_b64=codec.encode_b64(in_full, val))
                want = [codec.normal(in_full, val)]
            return {"step": step, "mi": mi, "me": me, "client": cl, "target": target, "requests": want, "replies": replies, "path": path,
                    "phase": "after-close" if cl == "c" else "interleaved"}
        for mi, me in usable:
            order = ["a", "b"] if r.maybe() else ["b", "a"]
            if r.maybe(0.3):
                order.append(r.pick(["a", "b"]))
            for cl in order:
                steps.append(call_step(cl, mi, me))
        if spec2 is not None:
            # a client of the API's OTHER service on client a's channel: calls interleaved with a's and b's
            home["s"] = "A"
            steps.append({"step": {"do": "create", "name": "s", "server": "A", "channel_of": "a",
                                   "client_cls": loc2["async_client" if asy else "client"],
                                   "transport_cls": loc2["grpc_asyncio" if asy else "grpc"]}})
            us2 = [(mi, me) for mi, me in enumerate(spec2["methods"])
                   if not (asy and me["output"]["full"] == "google.protobuf.Empty" and (me["cs"] or me["ss"]))]
            for mi, me in us2[:3]:
                st = call_step("s", mi, me, spec2, svc2_obj)
                st["phase"] = "shared-channel"
                steps.append(st)
                if usable:
                    steps.append(call_step(r.pick(["a", "b"]), *usable[0]))
        steps.append({"step": {"do": "close", "name": "a"}})
        steps.append({"step": {"do": "create", "name": "c", "server": "A"}})
        for mi, me in usable[:2]:
            for cl in (["c", "b"] if r.maybe() else ["b", "c"]):
                st = call_step(cl, mi, me)
                st["phase"] = "after-close"
                steps.append(st)
        if usable:
            # `with client as c: c.method(...)`: an ordinary call; leaving the block closes c's transport only
            st = call_step("c", *usable[0]); st["phase"] = "context-manager"; st["step"]["with_ctx"] = True
            steps.append(st)
            st = call_step("b", *usable[0]); st["phase"] = "after-close"
            steps.append(st)
        out[asy] = steps
    return out


def judge_multi(ctx, spec, codec, mplan, mout, fail, payload):
    """oracle: per server exactly the calls addressed to it arrived (path, request), each client got the reply
    of ITS OWN server; a client created after another one was closed works."""
    for asy, sess in zip((False, True), mout):
        fl = "async" if asy else "sync"
        steps = mplan[asy]
        if "steps" not in sess:
            exc = sess.get("op_error") or "child_error"
            fail("multi-client:session:" + exc, f"{fl}: two clients in one interpreter: {exc}: {(sess.get('trace') or str(sess.get('child_error', '')))[-300:]}", None, asy)
            continue
        missing = set()          # clients whose construction failed: later steps naming them are not judged
        for st, res_ in zip(steps, sess["steps"]):
            step = st["step"]
            if step["do"] == "create":
                if "raised" in res_:
                    missing.add(step["name"])
                    # same failure class as a single client that cannot be constructed
                    fail("session:" + res_["raised"], f"{fl}: client {step['name']} could not be constructed: {res_['raised']}: {res_.get('msg')}", None, asy,
                         scope=(spec.get("service2") or {}).get("methods", []) if step["name"] == "s" else spec["methods"])
                continue
            if step["do"] == "close":
                if "raised" in res_ and step["name"] not in missing:
                    fail("multi-client:close-raised", f"{fl}: closing client {step.get('name')} raised {res_['raised']}: {res_.get('msg')}", None, asy)
                continue
            if st["client"] in missing:
                continue
            me = st["me"]
            in_full = me["input"]["full"]
            tag = {"after-close": "client-after-close", "shared-channel": "shared-channel", "context-manager": "context-manager"}.get(st["phase"], "multi-client")
            extra = {"method": me["name"], "flavor": fl, "client": st["client"], "own_server": st["target"], "phase": st["phase"]}
            ctx.case({"multi_client": True, "method": me["name"], "flavor": fl, "client": st["client"], "phase": st["phase"]},
                     distinct_key=["multi", canon(me), fl, st["client"], st["phase"], canon(st["requests"]), canon(st["replies"])])
            ctx.count("multi_client", f"{fl}:{st['phase']}")
            ctx.traces += 1
            if "ok" not in res_:
                fail(f"{tag}:raised:{res_.get('raised')}", f"{fl} client {st['client']}@{st['target']} {me['name']} raised {res_.get('raised')}: {res_.get('msg')}", me, asy, extra=extra,
                     paths=[x["path"] for recs in (res_.get("servers") or {}).values() for x in recs])
                continue
            seen = [x["path"] for x in res_["servers"].get(st["target"], [])]
            for sn, recs in res_["servers"].items():
                if sn == st["target"]:
                    if len(recs) != 1 or recs[0]["path"] != st["path"]:
                        fail(f"{tag}:own-server-calls", f"{fl} client {st['client']}@{sn} {me['name']}: its own server saw {[x['path'] for x in recs]}, expected exactly one call to {st['path']}", me, asy, extra=extra, paths=seen)
                    elif [codec.decode(in_full, b) for b in recs[0]["requests"]] != st["requests"]:
                        fail(f"{tag}:payload", f"{fl} client {st['client']}@{sn} {me['name']}: server decoded {[codec.decode(in_full, b) for b in recs[0]['requests']]}, caller sent {st['requests']}", me, asy, extra=extra, paths=seen)
                elif recs:
                    fail(f"{tag}:call-on-other-channel", f"{fl} client {st['client']}@{st['target']} {me['name']}: server {sn} (another client's channel) received {[x['path'] for x in recs]}", me, asy, extra=extra)
            if res_.get("exit_raised"):
                # leaving `with client:` runs `self.transport.close()`; an RPC named `Transport` replaces the client's
                # `transport` property by the RPC method (a naming collision: C12's subject, not part of this statement)
                if any(m2["name"].lower() == "transport" for m2 in spec["methods"]):
                    ctx.assume("no RPC is named `Transport` when the client is used as a context manager (its `transport` property is "
                               "replaced by the RPC method; `__exit__` raises AttributeError after the call has completed)")
                    ctx.count("excluded_points", "context-manager-exit:rpc-named-transport")
                else:
                    fail("context-manager:exit-raised", f"{fl} client {st['client']}: leaving the with-block raised {res_['exit_raised']}", me, asy, extra=extra)
            ret = observed_ret(codec, me, res_["ok"])
            want = expected_ret(me, st["replies"])
            if ret != want and not (want["kind"] == "none" and ret == {"kind": "stream", "items": [None] * len(st["replies"])}):
                fail(f"{tag}:return", f"{fl} client {st['client']}@{st['target']} {me['name']}: returned {str(ret)[:200]}, its server sent {str(want)[:200]}", me, asy, extra=extra, paths=seen)


def safe_decode(codec, full, data):
    """bytes the server received, read under the INPUT descriptor; bytes that are not a message of that type
    (a call that went to another RPC's path) are shown as such instead of crashing the harness"""
    try:
        return codec.decode(full, data)
    except Exception:
        return {"<undecodable as %s>" % full: data if isinstance(data, str) else bytes(data).hex()}


def safe_unknown(codec, full, data):
    try:
        return codec.unknown_fields(full, data)
    except Exception:
        return True


def run_api(ctx, r, spec, label, per_method=1, informational=None, multi_client=True):
    """informational: None, or the text of the hypothesis this spec probes (failures are recorded as an
    assumption, not as oracle failures)"""
    files, targets, deps = build_files(spec)
    params = "transport=grpc,autogen-snippets=false" + ("," + spec["options"] if spec.get("options") else "")
    ypath = None
    if spec.get("yaml"):
        # the service yaml (google.api.Service) handed to the generator: mix-in services under `apis`, their http rules
        import tempfile, yaml
        fd, ypath = tempfile.mkstemp(prefix="c03_", suffix=".yaml", dir=genrun.SCRATCH)
        with os.fdopen(fd, "w") as fh:
            yaml.safe_dump({"type": "google.api.Service", "config_version": 3, "name": "lib.example.com",
                            "apis": [{"name": a} for a in spec["yaml"]["apis"]], "http": {"rules": spec["yaml"]["rules"]}}, fh)
        params += f",service-yaml={ypath}"
    try:
        return _run_api(ctx, r, spec, label, per_method, informational, multi_client, files, targets, deps, params)
    finally:
        if ypath:
            try:
                os.unlink(ypath)
            except OSError:
                pass


def _run_api(ctx, r, spec, label, per_method, informational, multi_client, files, targets, deps, params):
    req = apigen.request(files, params, targets=targets)
    payload = {"spec": spec}

    shadow_ev = {}          # filled from the single-client sessions (see below)

    def fail(key, what, me=None, asy=None, kind=None, extra=None, paths=None, scope=None):
        k = classify(spec, me, asy, kind or key, detail=what, paths=paths, scope=scope, evidence=shadow_ev) or key
        if informational:
            ctx.assume(f"{informational} [probed: {k}: {what[:160]}]")
            ctx.count("excluded_points", k)
            return
        ctx.fail(k, what, dict(payload, **(extra or {})))

    try:
        api, _ = genrun.build_api(req)
    except BaseException as e:  # noqa
        fail("generation-crash:" + genrun.crash_signature(e), f"API.build raised {type(e).__name__}: {e}")
        return
    svc = api.services[f"{svc_pkg(spec)}.{spec.get('service', SERVICE)}"]
    loc = rpc.py_locations(api, svc)
    codec = rpc.Codec(files)
    import gapic.utils as gu
    # ---------------------------------------------------------------- T2 (generator-side functions vs model)
    def t2(sx, svx):
        aliases = {}
        for me in sx["methods"]:
            m = svx.methods[me["name"]]
            aliases[me["input"]["full"]] = m.input.ident.module_alias or ""
            aliases[me["output"]["full"]] = m.output.ident.module_alias or ""
        msvc, mnam = model_service(sx, aliases), model_naming(sx)
        mo = ask(ctx, [{"op": "c03.service", "naming": mnam, "service": msvc}])[0]
        if "methods" not in mo:
            ctx.unsupported += 1
            mo = {"methods": [None] * len(sx["methods"]), "construct": None}
        for me, mm in zip(sx["methods"], mo["methods"]):
            if mm is None:
                continue
            m = svx.methods[me["name"]]
            ctx.traces += 1

            def ainfo(t):
                return {"proto": t.ident.proto, "is_proto_plus": bool(t.ident.is_proto_plus_type),
                        "import_module": t.ident.python_import.module, "ident_module": str(t.ident).split(".")[0]}
            co = m.client_output
            real = {"kind": m.grpc_stub_type, "void": bool(m.void), "stub_key": gu.to_snake_case(m.transport_safe_name),
                    "client_attr": gu.to_snake_case(m.client_method_name),
                    "diff_package": m.input.ident.package != m.ident.package,
                    "input": ainfo(m.input), "output": ainfo(m.output)}
            model = {k: mm[k] for k in ("kind", "void", "stub_key", "client_attr", "diff_package")}
            model["input"] = {k: mm["input"][k] for k in real["input"]}
            model["output"] = {k: mm["output"][k] for k in real["output"]}
            if real != model:
                diff = {k: (real[k], model[k]) for k in real if real[k] != model[k]}
                ctx.disagree("T2:c03.method", f"{me['name']}: (impl, model) {diff}", dict(payload, method=me["name"]))
            # `_client_output`: None for void, the output message otherwise (plain methods only)
            co_kind = "none" if getattr(co, "ident", None) is not None and str(co.ident) == "None" else ("message" if co is m.output else "other")
            if co_kind != ("none" if mm["void"] else "message"):
                ctx.disagree("T2:c03.client_output", f"{me['name']}: _client_output is {co_kind}, model void={mm['void']}", dict(payload, method=me["name"]))
            if m.client_output_async is not m.client_output and not (mm["void"] and str(m.client_output_async.ident) == "None"):
                ctx.disagree("T2:c03.client_output_async", f"{me['name']}: async output differs", dict(payload, method=me["name"]))
            # statement-level oracle on the generator side: arity and voidness as the proto declares them
            want_kind = ("stream" if me["cs"] else "unary") + "_" + ("stream" if me["ss"] else "unary")
            if m.grpc_stub_type != want_kind:
                fail("arity", f"{me['name']}: grpc_stub_type {m.grpc_stub_type}, proto declares {want_kind}", me)
            if bool(m.void) != (me["output"]["full"] == "google.protobuf.Empty"):
                fail("void", f"{me['name']}: void={m.void} for output {me['output']['full']}", me)
        return mo, msvc, mnam
    mo, msvc, mnam = t2(spec, svc)
    svc2 = loc2 = spec2 = None
    if spec.get("service2") and not informational:
        spec2 = dict(spec, service=spec["service2"]["name"], methods=spec["service2"]["methods"], _whole=spec)
        svc2 = api.services[f"{svc_pkg(spec2)}.{spec2['service']}"]
        loc2 = rpc.py_locations(api, svc2)
        t2(spec2, svc2)
        ctx.count("shape", "two-services")
    if spec.get("service3") and not informational:
        spec3 = dict(spec, service=spec["service3"]["name"], methods=spec["service3"]["methods"], _whole=spec)
        t2(spec3, api.services[f"{svc_pkg(spec3)}.{spec3['service']}"])
        ctx.count("shape", "three-services")
    # ---------------------------------------------------------------- T3
    res, err = genrun.try_generate(req)
    if err:
        fail("generation-crash:" + err[0], f"generator raised {err[0]}: {err[1]}")
        return
    root = genrun.materialise(res)
    try:
        for d in deps:
            if spec.get("dep_as_library"):
                # the dependency package is itself a GAPIC library (proto-plus-deps): generate it with the real generator
                dres, derr = genrun.try_generate(apigen.request([d], "transport=grpc,autogen-snippets=false"))
                if derr:
                    ctx.fail("generation-crash:" + derr[0], f"dependency library: {derr[1]}", payload)
                    return
                genrun.materialise(dres, root)
            else:
                write_pb2(root, d.pb)
        plans = plan_calls(ctx, r, spec, codec, svc, per_method)
        # runtime configuration: the emitted library's top-level logger at DEBUG (google.api_core.client_logging is importable in
        # the venv, so CLIENT_LOGGING_SUPPORTED holds and the transports' logging interceptors take their logging branch)
        dbg = {"debug_loggers": [loc["package"].split(".")[0]]} if spec.get("debug_logging") else {}
        ctx.count("runtime", "debug-logging" if dbg else "default-logging")
        sessions = [{"op": "grpc_session", "client": loc["async_client" if asy else "client"],
                     "transport": loc["grpc_asyncio" if asy else "grpc"], "async": asy,
                     "calls": [copy.deepcopy(p["call"]) for p in plans], **dbg} for asy in (False, True)]
        import time
        for attempt in range(8):
            out = libhost.run(root, sessions, timeout=150)
            bad = [str(o.get("child_error", "")) for o in out if "child_error" in o]
            if bad and any("/verif/harness/" in b and ("IndentationError" in b or "SyntaxError" in b) for b in bad):
                time.sleep(5)          # a shared harness file is being edited by a concurrent builder
                continue
            if any(b == "timeout" for b in bad) and attempt < 2:
                ctx.count("infrastructure", "session-timeout-retried")   # sporadic hang of the run-time shell: retry
                continue
            break
        multi = None
        if multi_client and not informational:
            mplan = plan_multi(r, spec, codec, svc, spec2, svc2, loc2)
            mops_ = [{"op": "grpc_multi_session", "client": loc["async_client" if asy else "client"],
                      "transport": loc["grpc_asyncio" if asy else "grpc"], "async": asy, "servers": ["A", "B"],
                      "steps": [copy.deepcopy(st["step"]) for st in mplan[asy]], **dbg} for asy in (False, True)]
            for attempt in range(3):
                mout = libhost.run(root, mops_, timeout=120)      # a FRESH interpreter: no transport of this service exists yet
                bad = [str(o.get("child_error", "")) for o in mout if "child_error" in o]
                if bad and attempt < 2:
                    time.sleep(3)
                    continue
                break
            multi = (mplan, mout)
    finally:
        genrun.cleanup(root)
    for asy, sess in zip((False, True), out):
        opened = {x[0] for x in sess.get("stubs_all", [])}
        for me in spec["methods"]:
            if me["name"] in mixed_in(spec) and MIXIN_FAMILY[me["name"]] in ("ops", "loc"):
                # construction opens every stub of the transport's wrapped-method table: the service's OWN stub is not among them
                # (the sync transport opens the mix-in's stub only when a call gets that far)
                shadow_ev[(asy, me["name"])] = "calls" in sess and f"/{svc_pkg(spec)}.{spec.get('service', SERVICE)}/{me['name']}" not in opened
    if multi is not None:
        judge_multi(ctx, spec, codec, multi[0], multi[1], fail, payload)
    # model traces
    mops = []
    for asy in (False, True):
        for p in plans:
            if p["mode"] == "iter":
                arg = {"kind": "iter", "msgs": [canon(x) for x in p["requests"]]}
            elif p["mode"] == "omitted":
                arg = {"kind": "omitted"}
            else:
                arg = {"kind": p["mode"], "msg": canon(p["requests"][0])}
            mops.append({"op": "c03.run", "naming": mnam, "service": msvc, "method": p["mi"],
                         "empty": canon(codec.decode(spec["methods"][p["mi"]]["input"]["full"], b"")),
                         "flavor": "async" if asy else "sync", "arg": arg, "replies": [canon(x) for x in p["replies"]]})
    mres = ask(ctx, mops)
    k = 0
    for asy, sess in zip((False, True), out):
        fl = "async" if asy else "sync"
        if "calls" not in sess:
            # the transport/client could not even be constructed (or the package not imported)
            exc = sess.get("op_error") or "child_error"
            trace = (sess.get("trace") or str(sess.get("child_error", "")))[-500:]
            ctx.case({"api": label, "flavor": fl, "session": "failed"}, distinct_key=["session", canon(spec), fl])
            fail("session:" + exc, f"{fl} client/transport could not be constructed: {exc}: {trace[-300:]}", None, asy)
            ms = mres[k:k + len(plans)]
            k += len(plans)
            if exc in ("ModuleNotFoundError", "ImportError", "child_error", "NameError", "SyntaxError"):
                ctx.unsupported += 1          # importing the emitted package is C01's subject, not modelled here
            else:
                ctx.traces += 1
                if not all(m.get("error") == exc for m in ms):
                    ctx.disagree("T3:c03.construct", f"{fl}: impl {exc} at construction, model {str(ms[:1])[:300]}", payload)
            continue
        kinds_by_path = {}
        fam_by_path = {}
        for path, kind, ser, des in sess.get("stubs_all", []):
            kinds_by_path.setdefault(path, set()).add(kind)
            if ser != "None" or des != "None":
                fam_by_path.setdefault(path, set()).add((attr_family(ser), attr_family(des)))
        # asyncio + void + client-streaming (open finding): the released call completes (or not) in the background; its server
        # record may surface in the log slice of a LATER call.  A record is such a stray exactly when it carries the caller tag
        # (x-verif-call) of an EARLIER call of such an RPC; only those are not attributed to the later call.
        stray_tags = set()
        for p, res_ in zip(plans, sess["calls"]):
            mr = mres[k]; k += 1
            me = spec["methods"][p["mi"]]
            mm = mo["methods"][p["mi"]]
            in_full = me["input"]["full"]
            want_path = f"/{svc_pkg(spec)}.{spec.get('service', SERVICE)}/{me['name']}"      # package of the file that declares the service
            want_kind = ("stream" if me["cs"] else "unary") + "_" + ("stream" if me["ss"] else "unary")
            extra = {"method": me["name"], "mode": p["mode"], "flavor": fl, "requests": p["requests"], "replies": p["replies"]}
            ctx.case({"method": me["name"], "arity": want_kind, "mode": p["mode"], "flavor": fl, "input": in_full,
                      "output": me["output"]["full"]},
                     distinct_key=["call", canon(spec["methods"][p["mi"]]), p["mode"], fl, canon(p["requests"]), canon(p["replies"])])
            ctx.count("arity", want_kind); ctx.count("request_mode", p["mode"] + (":positional" if p["call"].get("positional") else "")); ctx.count("flavor", fl)
            ctx.count("stream_len", f"req{min(len(p['requests']), 4)}:rep{min(len(p['replies']), 4)}")
            ctx.count("request_type", me["input"]["kind"] + (":nested" if in_full.count(".") > 3 and me["input"]["kind"] == "local" else ""))
            ctx.count("response_type", "void" if me["output"]["full"].endswith(".Empty") and me["output"]["kind"] == "wkt" else me["output"]["kind"])
            ctx.count("package_layout", "flat" if not spec.get("subs") else "svc-sub" if not spec["subs"][1] else "types-sub" if not spec["subs"][0] else "both-sub")
            if spec.get("yaml") or "add-iam-methods" in spec.get("options", ""):
                svs = services_of(spec)
                pos = [("only" if len(svs) == 1 else "first" if i == 0 else "last" if i == len(svs) - 1 else "middle")
                       for i, (_, _, ms) in enumerate(svs) if any(x["name"] in MIXIN_FAMILY for x in ms)]
                fam = MIXIN_FAMILY.get(me["name"])
                ctx.count("mixin_setting", f"{len(svs)}svc:declaring={'+'.join(pos) or 'none'}" + (":add-iam" if "add-iam-methods" in spec.get("options", "") else ""))
                if fam:
                    y = spec.get("yaml") or {"apis": [], "rules": []}
                    ctx.count("mixin_named_rpc", f"{fam}:{'listed' if MIXINS[fam][0] in y['apis'] else 'unlisted'}:"
                              f"{'ruled' if any(ru['selector'] == MIXINS[fam][0] + '.' + me['name'] for ru in y['rules']) else 'no-rule'}")
            ctx.count("name_class", "keyword" if me["name"] in KEYWORD_NAMES else "unsafe" if me["name"] in UNSAFE_NAMES else "plain")
            # ---------------- impl trace, canonical
            if "ok" not in res_:
                impl = {"error": res_.get("raised")}
                fail("raised:" + str(res_.get("raised")), f"{fl} {me['name']}({p['mode']}) raised {res_.get('raised')}: {res_.get('msg')}", me, asy, extra=extra,
                     paths=[rec["path"] for rec in res_.get("server") or []])
            else:
                srv = [rec for rec in res_["server"]
                       if not ({v for k_, v in (list(x) for x in rec.get("metadata", [])) if k_ == "x-verif-call"} & stray_tags)]
                seen = [rec["path"] for rec in srv]
                calls = []
                for rec in srv:
                    sent = [safe_decode(codec, in_full, b) for b in rec["requests"]]
                    kinds = sorted(kinds_by_path.get(rec["path"], []))
                    calls.append({"path": rec["path"], "kind": kinds[0] if len(kinds) == 1 else "|".join(kinds), "sent": [canon(x) for x in sent]})
                ret = observed_ret(codec, me, res_["ok"])
                impl = {"calls": calls, "ret": {"kind": ret["kind"], **({"item": canon(ret["item"])} if ret["kind"] == "value" else {}),
                                               **({"items": [canon(x) for x in ret["items"]]} if ret["kind"] == "stream" else {})}}
                # ---------------- oracle (restates the property; independent of the model)
                void_stream = me["output"]["full"] == "google.protobuf.Empty" and me["ss"]
                if len(srv) != 1:
                    fail("call-count", f"{fl} {me['name']}({p['mode']}): {len(srv)} calls on the channel, expected exactly one", me, asy,
                         "call-count:none" if not srv else "call-count:many", extra)
                else:
                    rec = srv[0]
                    if rec["path"] != want_path:
                        fail("path", f"{fl} {me['name']}: call went to {rec['path']}, expected {want_path}", me, asy, extra=extra, paths=seen)
                    if kinds_by_path.get(rec["path"]) != {want_kind}:
                        fail("arity", f"{fl} {me['name']}: stub opened as {sorted(kinds_by_path.get(rec['path'], []))}, proto declares {want_kind}", me, asy, extra=extra, paths=seen)
                    sent = [safe_decode(codec, in_full, b) for b in rec["requests"]]
                    unknown = any(safe_unknown(codec, in_full, b) for b in rec["requests"])
                    if sent != p["requests"] or unknown:
                        dropped = (asy and me["cs"] and me["output"]["full"] == "google.protobuf.Empty" and not unknown
                                   and sent == p["requests"][:len(sent)])      # the released call was cut short (same defect)
                        fail("payload" if not dropped else "call-count", f"{fl} {me['name']}({p['mode']}): server decoded {sent}, caller's request is {p['requests']}", me, asy, "call-count:cut-short" if dropped else "payload", extra, paths=seen)
                    # the caller's metadata travels with the call (the wrapped method is invoked with `metadata=metadata`)
                    ctx.traces += 1
                    if ["x-verif-call", p.get("tag")] not in [list(x) for x in rec["metadata"]]:
                        ctx.disagree("T3:c03.metadata-passthrough", f"{fl} {me['name']}({p['mode']}): caller metadata x-verif-call={p.get('tag')} not among {[x for x in rec['metadata'] if x[0].startswith('x-')]}", dict(payload, **extra))
                want_ret = expected_ret(me, p["replies"])
                ok_ret = (ret == want_ret)
                if void_stream and ret == {"kind": "stream", "items": [None] * len(p["replies"])}:
                    ok_ret = True       # "None for Empty", item-wise: accepted as well
                if not ok_ret:
                    fail("return", f"{fl} {me['name']}: returned {str(ret)[:300]}, server sent {str(want_ret)[:300]}", me, asy, extra=extra, paths=seen)
            if asy and me["cs"] and me["output"]["full"] == "google.protobuf.Empty":
                stray_tags.add(p.get("tag"))
            # ---------------- correspondence with the model
            if shadowed_by_mixin(spec, me):
                ctx.unsupported += 1          # WF.later violated: what a mix-in stub does is outside the model (C17)
                continue
            if "unsupported" in mr:
                ctx.unsupported += 1
                continue
            ctx.traces += 1
            if asy and me["output"]["full"] == "google.protobuf.Empty" and me["cs"] and "calls" in impl and "calls" in mr:
                # the released StreamUnaryCall is cancelled asynchronously: whether the server logs a (partial)
                # call is a race of the run-time shell; compare the return value only
                impl, mr = dict(impl, calls=[]), dict(mr, calls=[])
            if mr != impl:
                ctx.disagree("T3:c03.trace", f"{fl} {me['name']}({p['mode']}): model {str(mr)[:400]} vs impl {str(impl)[:400]}", dict(payload, **extra))
        # serializer families actually handed to the channel vs the model's template decision
        for me, mm in zip(spec["methods"], mo["methods"]):
            if mm is None:
                continue
            fams = fam_by_path.get(mm["path"])
            if fams is None:
                continue
            ctx.traces += 1
            if fams != {(mm["input"]["attr"], mm["output"]["attr"])}:
                ctx.disagree("T3:c03.serializer", f"{fl} {me['name']}: channel got {sorted(fams)}, model ({mm['input']['attr']}, {mm['output']['attr']})", dict(payload, method=me["name"]))
            if (mm["input"]["attr"], mm["output"]["attr"]) != (mm["input"]["class"], mm["output"]["class"]):
                fail("serializer-family", f"{me['name']}: attribute family {mm['input']['attr']}/{mm['output']['attr']} on classes {mm['input']['class']}/{mm['output']['class']}", me, asy)


# ------------------------------------------------------------------ function-level T2 on names


def names_t2(ctx, r, n):
    from gapic.schema import wrappers
    from gapic import utils
    from google.protobuf import descriptor_pb2
    import keyword
    alphabet = "abcXYZIAM_019"
    names = list(PLAIN_NAMES) + KEYWORD_NAMES + UNSAFE_NAMES + [k.capitalize() for k in keyword.kwlist] + list(keyword.kwlist) + \
        [k.upper() for k in keyword.kwlist[:8]] + ["Close", "Kind", "Get_book", "createChannel", "CREATECHANNEL", "Grpc_Channel", "operationsclient"]
    for _ in range(n):
        k = r.randint(1, 12)
        s = r.pick("abcXYZIAM_") + "".join(r.pick(alphabet) for _ in range(k - 1))
        names.append(s)
    mo = ask(ctx, [{"op": "c03.names", "name": s} for s in names])
    for s, m in zip(names, mo):
        me = wrappers.Method(method_pb=descriptor_pb2.MethodDescriptorProto(name=s), input=None, output=None)
        real = {"snake": utils.to_snake_case(s), "client_method_name": me.client_method_name,
                "transport_safe_name": me.transport_safe_name,
                "client_attr": utils.to_snake_case(me.client_method_name), "stub_key": utils.to_snake_case(me.transport_safe_name)}
        ctx.case(distinct_key=["name", s])
        ctx.traces += 1
        if real != m:
            ctx.disagree("T2:c03.names", f"{s!r}: impl {real} vs model {m}", {"name": s})
        ctx.count("name_t2", "suffixed" if real["transport_safe_name"] != s else "plain")


# ------------------------------------------------------------------ corpus (known findings and excluded points)


def _base_spec(methods, **kw):
    spec = {"stem": "lib", "stem2": None, "dep": False, "options": "",
            "messages": [{"name": "Book", "file": 0, "nested": [], "fields": [{"name": "name", "type": "string"}, {"name": "pages", "type": "int32"}]},
                         {"name": "Req", "file": 0, "nested": [], "fields": [{"name": "name", "type": "string"}, {"name": "n", "type": "int32", "optional": True}]}],
            "methods": methods}
    spec.update(kw)
    return spec


def _m(name, inp="Req", out="Book", cs=False, ss=False):
    def ref(x):
        if x.startswith("google.protobuf."):
            return {"kind": "wkt", "full": x}
        if x.startswith("google.iam.v1."):
            return {"kind": "iam", "full": x}
        if x.startswith(tuple(k + "." for k in EXT_MODULE)):
            return {"kind": "ext", "full": x}
        if x.startswith(DEP_PKG + ".") or x.startswith("acme.lib.v1beta."):
            return {"kind": "dep", "full": x}
        if x.startswith(PKG + "."):
            return {"kind": "local", "full": x}          # full name given (a message of a sub-package)
        return {"kind": "local", "full": f"{PKG}.{x}"}
    return {"name": name, "input": ref(inp), "output": ref(out), "cs": cs, "ss": ss}


def corpus_specs():
    E = "google.protobuf.Empty"
    out = []
    # §9-F10: request/response type from a target file named *_pb2.proto
    out.append(("pb2_named_proto_file", _base_spec(
        [_m("GetBook"), _m("GetExtra", "Extra", "Book"), _m("PutExtra", "Req", "Extra")], stem2="extra_pb2",
        messages=[{"name": "Extra", "file": 1, "nested": [], "fields": [{"name": "id", "type": "string"}]},
                  {"name": "Book", "file": 0, "nested": [], "fields": [{"name": "name", "type": "string"}]},
                  {"name": "Req", "file": 0, "nested": [], "fields": [{"name": "name", "type": "string"}]}]), None))
    # §9-F12: server-streaming (and bidi) RPC returning Empty
    out.append(("void_streaming", _base_spec([_m("GetBook"), _m("WatchVoid", "Req", E, False, True), _m("ChatVoid", "Req", E, True, True),
                                                     _m("UploadVoid", "Req", E, True, False), _m("Purge", "Req", E)]), None))
    # regression inputs of repaired defects (findings/C03.json "fixed"): they must PASS
    out.append(("rpc_named_close", _base_spec([_m("GetBook"), _m("Close")]), None))
    out.append(("rpc_named_kind", _base_spec([_m("GetBook"), _m("Kind")]), None))
    # request type from a proto-plus dependency library, falsy instance (explicitly present default value)
    out.append(("falsy_request_replaced", _base_spec([_m("Annotate", DEP_PKG + ".Note", "Book"), _m("Fetch", "Book", DEP_PKG + ".Note")],
                                                     dep=True, dep_as_library=True, options=f"proto-plus-deps={DEP_PKG}",
                                                     force_request={"method": "Annotate", "value": {"n": 0}}), None))
    # deepening round: dependency-package (pb2) requests and responses in all forms, the same message both ways
    I = "google.iam.v1."
    out.append(("dependency_package_types", _base_spec(
        [_m("GetPolicy", I + "GetIamPolicyRequest", I + "Policy"), _m("SetPolicy", I + "SetIamPolicyRequest", I + "Policy"),
         _m("Ping", E, E), _m("Mask", "google.protobuf.FieldMask", "google.protobuf.FieldMask"), _m("Echo", "Book", "Book"),
         _m("WatchPolicy", I + "TestIamPermissionsRequest", I + "Policy", False, True), _m("Feed", "google.protobuf.Struct", "Book", True, False)]), None))
    # two services of one API, equal RPC names (one a keyword), clients sharing a channel
    out.append(("two_services_shared_channel", _base_spec(
        [_m("GetBook"), _m("Import"), _m("Watch", "Req", "Book", False, True)],
        service2={"name": "Archive", "methods": [_m("GetBook", "Book", "Req"), _m("Import", "Req", "Book", False, True), _m("GrpcChannel")]}), None))
    # services declared in a file of a proto SUB-PACKAGE of the API (acme.lib.v1.keepers next to acme.lib.v1): the RPC path
    # carries the package of the declaring file; request/response types from the sub-package and from the root package
    K = PKG + ".keepers."
    out.append(("service_in_sub_package", _base_spec(
        [_m("GetKeeper", K + "Req", K + "Keeper"), _m("GetBook", "Book", "Book"), _m("FireKeeper", K + "Req", E),
         _m("WatchKeepers", "Book", K + "Keeper", False, True), _m("Upload", K + "Keeper.Inner", "Book", True, False),
         _m("Roster", K + "Req", K + "Keeper", True, True), _m("Import", K + "Req", "Book")],
        stem="keepers", stem2="shared", subs=["keepers", None],
        messages=[{"name": "Book", "file": 1, "nested": [], "fields": [{"name": "name", "type": "string"}, {"name": "pages", "type": "int32"}]},
                  {"name": "Req", "file": 0, "nested": [], "fields": [{"name": "name", "type": "string"}, {"name": "shift", "type": "int32", "optional": True},
                                                                      {"name": "book", "type": "message", "ref": f".{PKG}.Book"}]},
                  {"name": "Keeper", "file": 0, "nested": [{"name": "Inner", "fields": [{"name": "badge", "type": "int64"}]}],
                   "fields": [{"name": "name", "type": "string"}, {"name": "badge", "type": "int64"}]}],
        service2={"name": "Archive", "methods": [_m("GetKeeper", "Book", K + "Req"), _m("Import", K + "Req", "Book", False, True)]}), None))
    # both target files in (different, one of them nested) sub-packages: no file of the API is in acme.lib.v1 itself
    D = PKG + ".beta.deep."
    out.append(("services_in_nested_sub_package", _base_spec(
        [_m("GetBook", D + "Req", PKG + ".admin.Book"), _m("Purge", PKG + ".admin.Book", E), _m("Watch", D + "Req", D + "Req", False, True),
         _m("Chat", PKG + ".admin.Book", D + "Req", True, True), _m("Feed", D + "Req", PKG + ".admin.Book", True, False)],
        stem="lib", stem2="resources", subs=["beta.deep", "admin"],
        messages=[{"name": "Book", "file": 1, "nested": [], "fields": [{"name": "name", "type": "string"}, {"name": "pages", "type": "int32"}]},
                  {"name": "Req", "file": 0, "nested": [], "fields": [{"name": "name", "type": "string"}, {"name": "n", "type": "int32", "optional": True}]}]), None))
    # RPCs NAMED like mix-in RPCs, declared by the API itself, next to a service yaml that lists the mix-in with http rules.
    # IAM mix-ins yield to them (whichever service declares them: first, middle or last of three): these must PASS
    IA, L, C = "google.iam.v1.", "google.longrunning.", "google.cloud.location."

    def yml(fams, ms):
        return {"apis": [MIXINS[x][0] for x in fams], "rules": [mixin_rule(m) for m in ms]}
    all_iam = ["SetIamPolicy", "GetIamPolicy", "TestIamPermissions"]
    s2 = {"name": "Archive", "methods": [_m("Restore"), _m("Import", "Req", "Book", False, True)]}
    s3 = {"name": "Audit", "methods": [_m("Inspect")]}
    own_iam = [_m("GetBook"), _m("SetIamPolicy", IA + "SetIamPolicyRequest", IA + "Policy"), _m("Watch", "Req", "Book", False, True),
               _m("TestIamPermissions", "Req", "Book", True, True), _m("Purge", "Req", E)]
    for order in (["main", "service2", "service3"], ["service2", "main", "service3"], ["service3", "service2", "main"]):
        out.append(("own_iam_rpcs_declared_" + {0: "first", 1: "middle", 2: "last"}[order.index("main")] + "_of_three", _base_spec(
            copy.deepcopy(own_iam), service2=copy.deepcopy(s2), service3=copy.deepcopy(s3), service_order=order,
            yaml=yml(["iam", "ops", "loc"], all_iam + ["GetOperation", "ListLocations"])), None))
    # ... also when ANOTHER service of the API (first of two) declares them and is called over a shared channel
    out.append(("own_iam_rpc_of_other_service", _base_spec(
        [_m("GetBook"), _m("Purge", "Req", E)], service_order=["service2", "main"],
        service2={"name": "Archive", "methods": [_m("GetIamPolicy", IA + "GetIamPolicyRequest", IA + "Policy"), _m("Restore")]},
        yaml=yml(["iam"], all_iam)), None))
    # mix-ins next to RPCs of other names; own Operations/Locations-named RPCs whose mix-in is not listed / has no rule; add-iam-methods
    out.append(("mixins_listed_no_name_shared", _base_spec(
        [_m("GetBook"), _m("Purge", "Req", E), _m("Watch", "Req", "Book", False, True), _m("GetOperation", L + "GetOperationRequest", "Book"),
         _m("GetLocation", C + "GetLocationRequest", C + "Location"), _m("DeleteOperation", L + "DeleteOperationRequest", E)],
        service2=copy.deepcopy(s2), options="add-iam-methods",
        yaml=yml(["iam", "ops"], all_iam + ["ListOperations", "CancelOperation", "GetLocation", "ListLocations"])), None))
    # OPEN finding: Operations / Locations mix-ins do NOT yield: the API's own RPC of that name is shadowed in client and transport
    out.append(("own_rpc_named_like_operations_locations_mixin", _base_spec(
        [_m("GetBook"), _m("DeleteOperation", L + "DeleteOperationRequest", E), _m("GetOperation", L + "GetOperationRequest", "Book"),
         _m("GetLocation", C + "GetLocationRequest", C + "Location"), _m("ListLocations", "Req", "Book", False, True)],
        yaml=yml(["ops", "loc"], ["DeleteOperation", "GetOperation", "ListOperations", "GetLocation", "ListLocations"])), None))
    # runtime configuration: the library's logger enabled for DEBUG (logging interceptors of both gRPC transports active)
    out.append(("debug_logging_enabled", _base_spec(
        [_m("GetBook"), _m("Purge", "Req", E), _m("Watch", "Req", "Book", False, True), _m("Upload", "Req", "Book", True, False),
         _m("Chat", "Req", "Book", True, True), _m("Echo", "Book", "Book"), _m("GetPolicy", IA + "GetIamPolicyRequest", IA + "Policy")],
        service2={"name": "Archive", "methods": [_m("Restore"), _m("GetBook", "Book", "Req")]}, debug_logging=True), None))
    # excluded points of `WF` that are NOT findings of this property (recorded as assumptions)
    out.append(("own_iam_rpc_with_add_iam_methods", _base_spec(
        [_m("GetBook"), _m("SetIamPolicy", IA + "SetIamPolicyRequest", IA + "Policy")], options="add-iam-methods"),
                "the option add-iam-methods (which ADDS set_iam_policy / get_iam_policy / test_iam_permissions to every client) is not given "
                "for an API that declares IAM-named RPCs itself (the added methods replace the API's own)"))
    out.append(("snake_collision", _base_spec([_m("GetBook"), _m("Get_book")]),
                "RPC names of one service have pairwise distinct snake_case forms (WF.keys / WF.attrs; naming collisions are C12's subject)"))
    out.append(("string_prefix_package", _base_spec([_m("GetBook"), _m("Annotate", "acme.lib.v1beta.Note", "Book")], dep=True,
                                                    dep_pkg="acme.lib.v1beta", dep_dir="acme/lib/v1beta"),
                None))   # is_proto_plus_type uses str.startswith: acme.lib.v1beta counts as part of the API, and its types ARE emitted (consistent)
    return out


def write_corpus(ctx=None):
    """(maintenance, not called by the check) rewrite corpus/C03/*.json from the specs above:
    /venv/bin/python -c "import sys; sys.path[:0]=['harness','harness/props']; import c03; c03.write_corpus()" """
    cdir = os.path.join(os.path.dirname(os.path.dirname(os.path.dirname(os.path.abspath(__file__)))), "corpus", "C03")
    os.makedirs(cdir, exist_ok=True)
    for name, spec, info in corpus_specs():
        path = os.path.join(cdir, name + ".json")
        blob = json.dumps({"property": "C03", "name": name, "informational": info, "payload": {"spec": spec}}, indent=1, sort_keys=True)
        if not os.path.exists(path) or open(path).read() != blob:
            with open(path, "w") as fh:
                fh.write(blob)


def run_corpus(ctx):
    cdir = os.path.join(os.path.dirname(os.path.dirname(os.path.dirname(os.path.abspath(__file__)))), "corpus", "C03")
    r = ctx.rng("corpus")
    blobs = []
    for fn in sorted(os.listdir(cdir)) if os.path.isdir(cdir) else []:
        if fn.endswith(".json"):
            blobs.append((fn, json.load(open(os.path.join(cdir, fn)))))
    if not blobs:       # corpus directory missing: fall back to the specs it was written from
        blobs = [(n, {"payload": {"spec": sp}, "informational": info}) for n, sp, info in corpus_specs()]
    for fn, blob in blobs:
        ctx.count("corpus", fn)
        run_api(ctx, r, blob["payload"]["spec"], "corpus:" + fn, per_method=1, informational=blob.get("informational"))


def member_collision_sweep(ctx, r):
    """excluded-point stream for WF.later: one API per public attribute of the emitted client/transport classes,
    with an RPC whose snake_case name IS that attribute"""
    import gapic.utils as gu
    spec0 = _base_spec([_m("GetBook")])
    files, targets, _ = build_files(spec0)
    req = apigen.request(files, "transport=grpc,autogen-snippets=false", targets=targets)
    api, _ = genrun.build_api(req)
    loc = rpc.py_locations(api, api.services[f"{PKG}.{SERVICE}"])
    res, err = genrun.try_generate(req)
    root = genrun.materialise(res)
    try:
        out = libhost.run(root, [{"op": "dir", "module": loc[k].split(":")[0], "attr": loc[k].split(":")[1]}
                                 for k in ("client", "async_client", "grpc", "grpc_asyncio")])
    finally:
        genrun.cleanup(root)
    names = set()
    for o in out:
        names |= {n for n in o.get("names", []) if not n.startswith("_")}
    names.discard("get_book")
    for a in sorted(names):
        camel = "".join(p.capitalize() for p in a.split("_"))
        if gu.to_snake_case(camel) != a:
            continue
        ctx.count("member_collision_probe", a)
        run_api(ctx, r, _base_spec([_m("GetBook"), _m(camel)]), "member:" + a)


def run(ctx):
    ctx.rule = ("APIs of the 'rpc' profile (2..5 random messages over scalar/enum/message/map/oneof/optional/well-known/"
                "dependency-package fields in one or two target files — all in one proto package, or the file declaring the services / the other "
                "file / both in a (possibly nested) sub-package of the API —, 4..8 RPCs covering all four arities, void, request/response "
                "from the package, nested, well-known and a second (pb2) package, keyword and transport-unsafe names; in 4 of 10 APIs a service "
                "yaml listing mix-in services (IAMPolicy / Operations / Locations, with http rules) for one, two or three services declared in "
                "random order, one of which may declare RPCs NAMED like mix-in RPCs itself, add-iam-methods on/off; in 35% of the APIs the "
                "caller's process has the library's logger at DEBUG and the server answers a second call differently) x random request "
                "and reply valuations x request given as instance/dict/omitted/iterator x {sync, asyncio}; distinct by (method shape, "
                "mode, flavour, valuations); non-trivial = every call")
    ctx.assume("LRO, paginated and extended-operation methods are outside this check (C07, C08); no flattened fields (C05), no mixins (C17), no selective generation (C16)")
    ctx.assume("RPC names are ASCII identifiers; every API is generated with autogen-snippets=false (snippet generation for a service of a "
               "sub-package raises KeyError: finding of C14/C01, not this property's subject); sub-package names differ in their first letter "
               "(so that the common root of the packages is acme.lib.v1: Naming.build is C11's subject)")
    ctx.assume("only the API's OWN RPCs are called (what a mixed-in RPC does is C17's subject); the option add-iam-methods is not given for an "
               "API that declares IAM-named RPCs itself (probed: corpus own_iam_rpc_with_add_iam_methods)")
    ctx.assume("DEBUG logging is not combined with an RPC named `Transport` (the client's `transport` property is replaced by the RPC method and "
               "the logging branch of __init__ raises AttributeError: naming collision, C12's subject)")
    ctx.assume("a unary-response RPC is answered with exactly one message; replies of a void RPC are empty messages")
    ctx.assume("the dict form of a request is the mapping a caller writes by hand: proto field names -> native python values")
    run_corpus(ctx)
    names_t2(ctx, ctx.rng("names"), ctx.n(300, 4000))
    r = ctx.rng("apis")
    import time
    t0 = time.time()
    for a in range(ctx.n(24, 260)):
        if _trouble(ctx) and time.time() - t0 > ctx.n(150, 600):
            break          # something is already wrong and slow (deadlines expiring): report what we have
        run_api(ctx, r, gen_spec(r, a), f"api{a}", per_method=ctx.n(1, 2))
    if not ctx.quick and not _trouble(ctx):
        member_collision_sweep(ctx, ctx.rng("members"))


def _trouble(ctx):
    known = {f["key"] for f in ctx.known}
    return bool(ctx.disagreements) or any(f["key"] not in known for f in ctx.failures)


def search(ctx):
    """failing-input search after a broken obligation/correspondence (time-boxed)"""
    import time
    t0 = time.time()
    r = ctx.rng("search")
    known = {f["key"] for f in ctx.known}
    for a in range(40):
        if time.time() - t0 > 240 or any(f["key"] not in known for f in ctx.failures):
            return
        run_api(ctx, r, gen_spec(r, a), f"search{a}", per_method=2)
    member_collision_sweep(ctx, ctx.rng("search-members"))


def replay(ctx, payload):
    import leanio
    ctx.driver = leanio.Driver()
    if "spec" in payload:
        run_api(ctx, ctx.rng("replay"), payload["spec"], "replay", per_method=2)
    elif "name" in payload:
        names_t2(ctx, ctx.rng("replay"), 0)
    for f in ctx.failures:
        print("  failure:", f["key"], "-", f["what"][:300])
    for d in ctx.disagreements:
        print("  disagreement:", d["correspondence"], "-", d["what"][:300])
    return not ctx.failures


CLAIM = dict(
    text="Lean 4 proof, for every well-formed service, every method, both client flavours, every way of passing the request (instance, dict, omitted, iterator) and every list of replies, that the model of the emitted call path constructs the transport and issues exactly one call to /<package of the file declaring the service>.<Service>/<Method> (also for services of a sub-package of the API: rpc_path_ignores_api_root, rpc_path_sub_package_counterexample, rpc_path_qualified_injective) with the declared arity carrying the caller's request, and returns None for Empty, the reply stream for server-streaming RPCs and the reply otherwise (call_reaches_rpc); with the supporting theorems (path from wire names, stub kind bijection, the three stub-naming sites agree, attribute lookup reaches the own stub, serializer family = class family, coercion equivalence) and counterexample theorems for every forced hypothesis. Tie: T1 bridge of keyword/transport-unsafe tables and the four to_snake_case regexes; T2 of the real wrappers/metadata/utils functions vs the model; T3 of emitted sync and asyncio clients against a loopback gRPC server vs the model's trace; a model-independent oracle decoding wire bytes under the input descriptors.",
    technique="Lean 4 theorems over an executable model of class-body attribute resolution, stub creation and request coercion + translator bridge + differential T2/T3 on generated APIs",
    design="7.3",
    note="Hypotheses of call_reaches_rpc (WF, asyncio void streaming) are each probed on the real code; the ones inside the property's quantifier are listed in findings/C03.json. gRPC itself, interceptors/logging, LRO/paging wrappers, mixins and flattened arguments are not covered.",
)
