"""C04 — REST calls transcode each request exactly as its google.api.http rule prescribes (DESIGN §7.4).

Three layers:
  * oracle  — model-independent: match the observed verb/path against the method's DECLARED bindings with a
              template matcher of our own, rebuild the request from path variables + JSON body + query string
              under the INPUT descriptors, demand "no loss, no duplication", JSON names, enum encoding, `$alt`,
              required scalar defaults, typed reply, NotImplementedError for methods without binding;
  * T2      — real `HttpRule.try_parse_http_rule`, `Method.http_options/path_params/query_params`,
              `convert_uri_fieldnames`, `to_camel_case`, and `google.api_core.path_template.transcode`
              against the Lean model (`Model/Http.lean`, `Model/Rest.lean`);
  * T3      — the emitted REST transport against a loopback HTTP server vs `restCall` of the model.
"""
from __future__ import annotations
import base64, copy, json, re, urllib.parse
import apigen, genrun, libhost, rpc

PKG = "acme.rest.v1"
SVC = "Catalog"

# --------------------------------------------------------------------------------------------- API specs

SCALAR_EXTRAS = [
    ("filter", "string"), ("page_size", "int32"), ("force", "bool"), ("ratio", "double"), ("weight", "float"),
    ("count64", "int64"), ("ucount", "uint32"), ("big", "uint64"), ("sf", "sfixed32"), ("sf64", "sfixed64"),
    ("f32", "fixed32"), ("f64", "fixed64"), ("si", "sint32"), ("si64", "sint64"), ("blob", "bytes"),
    ("order_by", "string"), ("format", "string"), ("max", "int32"), ("in", "bool"),
]
OTHER_EXTRAS = [
    {"name": "view", "type": "enum", "type_name": "Genre"},
    {"name": "tags", "type": "string", "repeated": True},
    {"name": "nums", "type": "int32", "repeated": True},
    {"name": "kinds", "type": "enum", "type_name": "Genre", "repeated": True},
    {"name": "list", "type": "string", "repeated": True},
    {"name": "author", "type": "message", "type_name": "Author"},
    {"name": "update_mask", "type": "message", "type_name": ".google.protobuf.FieldMask"},
    {"name": "read_time", "type": "message", "type_name": ".google.protobuf.Timestamp"},
    {"name": "ttl", "type": "message", "type_name": ".google.protobuf.Duration"},
    {"name": "limit", "type": "message", "type_name": ".google.protobuf.Int32Value"},
    {"name": "strict", "type": "message", "type_name": ".google.protobuf.BoolValue"},
    {"name": "note", "type": "message", "type_name": ".google.protobuf.StringValue"},
    {"name": "opt_s", "type": "string", "optional": True},
    {"name": "opt_n", "type": "int32", "optional": True},
    {"name": "labels", "map": ["string", "string", None]},
    {"name": "chapters", "type": "message", "type_name": "Chapter", "repeated": True},
    {"name": "meta", "type": "message", "type_name": ".google.protobuf.Struct"},
    {"name": "choice_a", "type": "string", "oneof": "choice"},
    {"name": "choice_b", "type": "int32", "oneof": "choice"},
]
# fields WITH PRESENCE (round 10): proto3 `optional` scalars / enums (a synthetic oneof: `Field.oneof` is set for them too) and
# the members of a real oneof; each may be REQUIRED, and then belongs to the required scalars the query must carry
PRESENCE_EXTRAS = [
    {"name": "opt_count", "type": "int32", "optional": True}, {"name": "show_deleted", "type": "bool", "optional": True},
    {"name": "opt_ratio", "type": "double", "optional": True}, {"name": "opt_big", "type": "int64", "optional": True},
    {"name": "opt_label", "type": "string", "optional": True}, {"name": "opt_view", "type": "enum", "type_name": "Genre", "optional": True},
]
PICK_ONEOF = [{"name": "pick_s", "type": "string", "oneof": "pick"}, {"name": "pick_n", "type": "int32", "oneof": "pick"},
              {"name": "pick_b", "type": "bool", "oneof": "pick"}]
# path-capable fields: (dotted field path, scalar type, sub-templates)
VARS = [
    ("name", "string", ["shelves/*/books/*", "shelves/*", "things/*", "**", None]),
    ("parent", "string", ["projects/*/locations/*", "shelves/*", None]),
    ("shelf_id", "string", [None]),
    ("book_id", "string", [None, "*"]),
    ("class", "string", ["classes/*", None]),
    ("type", "string", [None]),
    ("import", "string", ["imports/*"]),
    ("rev", "int32", [None]),
    ("uid", "int64", [None]),
    ("book.name", "string", ["shelves/*/books/*"]),
    ("item.id", "string", [None, "items/*"]),
    ("item.owner.id", "string", [None]),
    ("type.name", "string", ["kinds/*"]),          # reserved NON-leaf segment (possible since the C12 repairs a11332b/52dedca)
    ("book.class", "string", ["classes/*", None]),  # reserved leaf segment
    ("object.import.id", "string", [None]),         # reserved segments at depth 1 and 2
]
HOLDERS = {"book": "Book", "item": "Item", "type": "Kind", "object": "Crate"}
BODY_FIELDS = [("book", "Book"), ("item", "Item"), ("payload", "Book"), ("object", "Crate")]
LITS = ["shelves", "books", "items", "archives", "v2.1", "things-x", "a_b"]
VERBS_TAIL = ["move", "batchGet", "undelete"]
SEGS = ["s1", "b-2", "héllo", "a b", "x&y=z", "a+b", "q~r", "c.d", "UPPER", "7", "k:v", "semi;colon", "at@sign", "com,ma"]


def gen_binding(r, mvars, k, verb=None, body_like=None, body_fields=()):
    verb = verb or r.pick(["get", "get", "post", "post", "put", "patch", "delete"])
    nv = 1 if r.maybe(0.65) else min(2, len(mvars))
    chosen = r.sample(mvars, nv)
    chosen.sort(key=lambda v: v[2] == "**")          # `**` only as the last path part
    uri = "/v1" if k == 0 or r.maybe(0.3) else f"/v1/alt{k}"
    for (path, typ, tmpl) in chosen:
        if tmpl is None:
            uri += "/" + r.pick(LITS) + "/{" + path + "}"
        else:
            if r.maybe(0.25):
                uri += "/" + r.pick(LITS)
            uri += "/{" + path + "=" + tmpl + "}"
    if not (chosen and chosen[-1][2] == "**") and r.maybe(0.3):
        uri += "/" + r.pick(LITS)
    if r.maybe(0.25):
        uri += ":" + r.pick(VERBS_TAIL)
    if body_like is not None and r.maybe(0.6):
        body = body_like[0]
    elif verb == "get":
        body = None
    elif verb == "delete":
        body = None if r.maybe(0.85) else "*"
    else:
        body = r.pick(["*", "*", None] + [b for b in body_fields] * 2) if body_fields else r.pick(["*", "*", None])
    return {"verb": verb, "uri": uri, "body": body, "vars": [[p, t, s] for (p, t, s) in chosen]}


def gen_method(r, idx, kind="http", nbind=None, required_kinds=None, no_required=None):
    m = {"name": f"{r.pick(['Get', 'Update', 'Create', 'Move', 'Delete', 'Lookup'])}Thing{idx}", "kind": kind,
         "out": r.pick(["Book", "Book", "Empty", "Same"]), "fields": [], "bindings": []}
    pool = r.sample(VARS, r.randint(1, 3))
    mvars = []
    seen = set()
    for (path, typ, tmpls) in pool:
        top = path.split(".")[0]
        if top in seen:
            continue
        seen.add(top)
        mvars.append((path, typ, r.pick(tmpls)))
    fields, names = [], set()

    def add(f):
        if f["name"] in names:
            return
        names.add(f["name"])
        fields.append(f)
    for (path, typ, _t) in mvars:
        top = path.split(".")[0]
        if "." in path:
            add({"name": top, "type": "message", "type_name": HOLDERS[top], "required": r.maybe(0.3)})
        else:
            add({"name": top, "type": typ, "required": r.maybe(0.6)})
    body_fields = []
    for (bn, bt) in r.sample(BODY_FIELDS, r.randint(0, 2)):
        if bn in names and bn not in HOLDERS:
            continue
        add({"name": bn, "type": "message", "type_name": bt, "required": r.maybe(0.3)})
        body_fields.append(bn)
    body_fields += [f["name"] for f in fields if f["name"] in HOLDERS and f.get("type") == "message" and f["name"] not in body_fields]
    body_fields = [b for b in body_fields if any(f["name"] == b and f.get("type") == "message" for f in fields)]
    nreq = 0
    for (n, t) in r.sample(SCALAR_EXTRAS, r.randint(2, 6)):
        req = r.maybe(0.35)
        nreq += req
        add({"name": n, "type": t, "required": req})
    for (n, t) in (required_kinds or []):
        add({"name": n, "type": t, "required": True})
    for f in r.sample(OTHER_EXTRAS, r.randint(1, 5)):
        f = dict(f)
        if f.get("oneof"):
            for g in OTHER_EXTRAS:
                if g.get("oneof") == f["oneof"]:
                    add({**g, **({"required": True} if r.maybe(0.3) else {})})
            continue
        if f.get("optional") and r.maybe(0.4):
            f["required"] = True
        if f.get("type") == "enum" and not f.get("repeated") and r.maybe(0.3):
            f["required"] = True
        if f.get("repeated") and f.get("type") != "message" and r.maybe(0.08):
            f["required"] = True
        add(f)
    if r.maybe(0.5):              # fields with presence, mostly REQUIRED
        for f in r.sample(PRESENCE_EXTRAS, r.randint(1, 3)):
            add({**f, **({"required": True} if r.maybe(0.7) else {})})
        if r.maybe(0.4):
            for g in r.sample(PICK_ONEOF, r.randint(1, 3)):
                add({**g, **({"required": True} if r.maybe(0.6) else {})})
    if no_required if no_required is not None else r.maybe(0.2):      # a request without any REQUIRED field
        for f in fields:
            f.pop("required", None)
    r.shuffle(fields)
    m["fields"] = fields
    if kind in ("http", "cstream"):
        nb = nbind or r.pick([1, 1, 1, 2, 2, 3])
        first = gen_binding(r, mvars, 0, body_fields=body_fields)
        m["bindings"].append(first)
        for k in range(1, nb):
            m["bindings"].append(gen_binding(r, mvars, k, verb=first["verb"] if r.maybe(0.5) else None,
                                             body_like=(first["body"],), body_fields=body_fields))
    elif kind == "custom":
        m["bindings"].append({"verb": "HEAD", "uri": "/v1/things/{name}" if "name" in names else "/v1/things", "body": None, "vars": []})
    return m


def gen_update_method(r, idx):
    """the AIP-134 shape: PATCH, nested path variable inside the body field, update_mask left to the query"""
    fields = [{"name": "book", "type": "message", "type_name": "Book", "required": r.maybe(0.7)},
              {"name": "update_mask", "type": "message", "type_name": ".google.protobuf.FieldMask", "required": r.maybe(0.3)},
              {"name": "allow_missing", "type": "bool", "required": r.maybe(0.3)},
              {"name": "validate_only", "type": "bool"}, {"name": "view", "type": "enum", "type_name": "Genre"}]
    v = r.pick([["book.name", "string", "shelves/*/books/*"], ["book.class", "string", "classes/*"]])
    uri = "/v1/{" + v[0] + "=" + v[2] + "}" + r.pick(["", ":patch"])
    return {"name": f"UpdateBook{idx}", "kind": "http", "out": r.pick(["Book", "Same"]), "fields": fields, "update_shape": True,
            "bindings": [{"verb": "patch", "uri": uri, "body": r.pick(["book", "book", "*"]), "vars": [v]}]}


# ---- package layouts (the property does not distinguish them; the generator renders sub-package services with a VIEW of the API)
SUBS = ["stacks", "stacks", "admin", "stacks.inner"]
LAYOUTS = ["flat", "svc-sub", "svc-both", "msg-sub"]


def services_of(spec):
    return spec.get("services") or [{"name": SVC, "sub": False}]


def sub_pkg(spec):
    return f"{PKG}.{spec['sub']}" if spec.get("sub") else PKG


def svc_full(spec, i):
    s = services_of(spec)[i]
    return f"{sub_pkg(spec) if s.get('sub') else PKG}.{s['name']}"


def apply_layout(r, spec, layout, sub=None):
    """flat     — one file, everything in the API package (the only layout before round 7);
    svc-sub  — (a) every service in ONE sub-package, the shared messages in the API package, each request next to the service or in the API package;
    svc-both — (b) one service in the API package and one in a sub-package, methods dealt to both, requests in either package;
    msg-sub  — (c) the service in the API package, its request/response messages in a sub-package."""
    spec["layout"] = layout
    if layout == "flat":
        return spec
    spec["sub"] = sub or r.pick(SUBS)
    if layout == "svc-sub":
        spec["services"] = [{"name": SVC, "sub": True}]
        spec["types_sub"] = False
        for m in spec["methods"]:
            m["svc"], m["req_sub"] = 0, r.maybe(0.35)
    elif layout == "svc-both":
        spec["services"] = [{"name": SVC, "sub": False}, {"name": "Stacks", "sub": True}]
        spec["types_sub"] = r.maybe(0.3)
        for i, m in enumerate(spec["methods"]):
            m["svc"] = i % 2 if i < 2 else r.randrange(2)
            m["req_sub"] = bool(m["svc"]) if r.maybe(0.6) else not m["svc"]
    elif layout == "msg-sub":
        spec["services"] = [{"name": SVC, "sub": False}]
        spec["types_sub"] = r.maybe(0.7)
        for m in spec["methods"]:
            m["svc"], m["req_sub"] = 0, r.maybe(0.8)
        if not spec["types_sub"]:
            spec["methods"][0]["req_sub"] = True
    else:
        raise ValueError(layout)
    if r.maybe(0.3):
        # `catalog.proto` in the API package and `<sub>/catalog.proto` (the same python module name twice, one importing the
        # other); requests sit where that keeps the two files acyclic
        spec["one_file_per_package"] = True
        spec["types_sub"] = layout == "msg-sub"
        for m in spec["methods"]:
            m["req_sub"] = True if layout == "msg-sub" else bool(spec["services"][m["svc"]]["sub"])
    return finish_layout(spec)


def finish_layout(spec):
    for m in spec["methods"]:
        m["req_pkg"] = sub_pkg(spec) if m["req_sub"] else PKG
        m["types_pkg"] = sub_pkg(spec) if spec["types_sub"] else PKG
    return spec


def gen_api(r, idx, nmethods=6, layout=None):
    spec = {"numeric": r.maybe(0.5), "transport": r.pick(["rest", "grpc+rest"]), "methods": []}
    for i in range(nmethods):
        spec["methods"].append(gen_method(r, i))
    spec["methods"].append(gen_method(r, nmethods, kind=r.pick(["nohttp", "nohttp", "custom"])))
    if r.maybe(0.4):
        spec["methods"].append(gen_update_method(r, nmethods + 2))
    if r.maybe(0.25):            # a client-streaming method WITH a binding: refused as well (model correspondence only)
        spec["methods"].append(gen_method(r, nmethods + 1, kind="cstream", nbind=1))
    return apply_layout(r, spec, layout or r.pick(["flat"] * 3 + ["svc-sub", "svc-both", "msg-sub"]))


def one_method_spec(spec, m):
    """the payload of a failure: the API reduced to one method, layout kept"""
    return {**{k: v for k, v in spec.items() if k != "methods"}, "methods": [m]}


def build_files(spec):
    flat = spec.get("layout", "flat") == "flat"
    made = {}

    def file_for(role, sub):
        """flat: one file; otherwise one file per (role, package): shared types < request messages < services"""
        if flat:
            role, sub = "all", False
        elif spec.get("one_file_per_package"):      # `catalog.proto` in the API package and `<sub>/catalog.proto`: same module name twice
            role = "all"
        if (role, sub) not in made:
            base = "acme/rest/v1" + ("/" + spec["sub"].replace(".", "/") if sub else "")
            made[(role, sub)] = apigen.File(f"{base}/{'catalog' if role == 'all' else role}.proto", sub_pkg(spec) if sub else PKG)
        return made[(role, sub)]
    f = file_for("shared", bool(spec.get("types_sub")))
    genre = f.enum("Genre", ["GENRE_UNSPECIFIED", "FICTION", "POETRY", ("DRAMA", 5)])
    author = f.msg("Author"); author.field("given"); author.field("family"); author.field("kind", "enum", type_name=genre); author.field("age", "int32")
    chapter = f.msg("Chapter"); chapter.field("title"); chapter.field("pages", "int32"); chapter.field("tone", "enum", type_name=genre)
    owner = f.msg("Owner"); owner.field("id"); owner.field("rank", "int32")
    item = f.msg("Item"); item.field("id"); item.field("owner", "message", type_name=owner); item.field("qty", "int32"); item.field("shade", "enum", type_name=genre)
    book = f.msg("Book")
    book.field("name"); book.field("title"); book.field("pages", "int32"); book.field("genre", "enum", type_name=genre)
    book.field("tags", repeated=True); book.field("class"); book.field("rating", "double"); book.field("author", "message", type_name=author)
    book.map_field("labels"); book.field("isbn", "int64"); book.field("blob", "bytes"); book.field("ok", "bool")
    book.field("update_time", "message", type_name=".google.protobuf.Timestamp"); book.field("stock", "int32", repeated=True)
    book.field("chapters", "message", repeated=True, type_name=chapter); book.field("extra", "message", type_name=".google.protobuf.Struct")
    book.field("moods", "enum", repeated=True, type_name=genre); book.map_field("shelf_genres", "string", "enum", vtype_name=genre)
    kind = f.msg("Kind"); kind.field("name"); kind.field("level", "int32"); kind.field("tone", "enum", type_name=genre)
    imp = f.msg("Import"); imp.field("id"); imp.field("from"); imp.field("weight", "int32")
    crate = f.msg("Crate"); crate.field("import", "message", type_name=imp); crate.field("given"); crate.field("list", repeated=True)
    types = {"Genre": genre, "Author": author, "Chapter": chapter, "Owner": owner, "Item": item, "Book": book,
             "Kind": kind, "Import": imp, "Crate": crate}
    shared = f
    svcs = []
    for s in services_of(spec):
        sf = file_for("service_" + s["name"].lower(), bool(s.get("sub")))
        svcs.append((sf, sf.service(s["name"], host="catalog.example.com")))
    used = set()
    for m in spec["methods"]:
        sf, svc = svcs[m.get("svc", 0)]
        used.add(m.get("svc", 0))
        rf = file_for("requests", bool(m.get("req_sub")))
        rq = rf.msg(m["name"] + "Request")
        for on in sorted({fs["oneof"] for fs in m["fields"] if fs.get("oneof")}):
            rq.pb.oneof_decl.add(name=on)           # real oneofs precede the synthetic ones of proto3-optional fields
        for fs in m["fields"]:
            if fs.get("map"):
                kt, vt, vn = fs["map"]
                rq.map_field(fs["name"], kt, vt, vtype_name=types.get(vn) if vn else None)
                continue
            tn = fs.get("type_name")
            if tn and not tn.startswith("."):
                tn = types[tn]
            rq.field(fs["name"], fs["type"], repeated=bool(fs.get("repeated")), type_name=tn, required=bool(fs.get("required")),
                     optional=bool(fs.get("optional")), oneof=fs.get("oneof"))
        out = {"Book": book, "Empty": ".google.protobuf.Empty", "Same": rq}[m["out"]]
        for (a_, b_) in ((rf, shared), (sf, rf)) + (((sf, shared),) if m["out"] == "Book" else ()):
            if a_ is not b_:
                a_.dep(b_.name)
        if m["kind"] == "nohttp" or not m["bindings"]:
            svc.method(m["name"], rq, out)
        else:
            b0 = m["bindings"][0]
            svc.method(m["name"], rq, out, http=(b0["verb"], b0["uri"]), body=b0["body"],
                       bindings=[(b["verb"], b["uri"], b["body"]) for b in m["bindings"][1:]], cs=(m["kind"] == "cstream"))
    for i, (sf, svc) in enumerate(svcs):
        if i not in used:                # a payload reduced to one method: the other service stays, with a filler method
            nq = sf.msg(f"Noop{i}Request"); nq.field("note")
            svc.method(f"Noop{i}", nq, ".google.protobuf.Empty", http=("get", f"/v1/noop{i}"))
    order = {"all": 0, "shared": 0, "requests": 1}
    todo = [fl for (_k, fl) in sorted(made.items(), key=lambda kv: (order.get(kv[0][0], 2), kv[0][1], kv[0][0]))]
    ours, done = {fl.name for fl in todo}, []
    while todo:                           # dependencies first (descriptor pools and the plug-in request want that order)
        fl = next(x for x in todo if all(d not in ours or d in {y.name for y in done} for d in x.pb.dependency))
        todo.remove(fl)
        done.append(fl)
    return done


def out_full(m):
    return {"Book": f"{m.get('types_pkg', PKG)}.Book", "Empty": "google.protobuf.Empty", "Same": in_full(m)}[m["out"]]


def in_full(m):
    return f"{m.get('req_pkg', PKG)}.{m['name']}Request"


def params_of(spec):
    p = f"transport={spec['transport']},autogen-snippets=false"
    if spec["numeric"]:
        p += ",rest-numeric-enums=True"
    return p

# --------------------------------------------------------------------------------------------- templates (oracle side)


def parse_template(uri):
    """our own reading of the google.api.http path template syntax (well-formed templates only):
    [('lit', text) | ('var', dotted, [sub-segments])] + verb suffix; sub-segment = literal | '*' | '**'"""
    verb = None
    depth, cut = 0, None
    for i, ch in enumerate(uri):
        depth += ch == "{"
        depth -= ch == "}"
        if ch == ":" and depth == 0:
            cut = i
    if cut is not None:
        uri, verb = uri[:cut], uri[cut + 1:]
    toks, i = [], 0
    while i < len(uri):
        if uri[i] == "{":
            j = uri.index("}", i)
            inner = uri[i + 1:j]
            name, _, sub = inner.partition("=")
            toks.append(("var", name, (sub or "*").split("/")))
            i = j + 1
        else:
            j = uri.find("{", i)
            j = len(uri) if j < 0 else j
            toks.append(("lit", uri[i:j]))
            i = j
    return toks, verb


def template_regex(uri):
    toks, verb = parse_template(uri)
    out, names = "", []
    for t in toks:
        if t[0] == "lit":
            out += "/".join({"*": "[^/]+", "**": ".+"}.get(s, re.escape(s)) for s in t[1].split("/"))
        else:
            names.append(t[1])
            out += f"(?P<g{len(names) - 1}>" + "/".join({"*": "[^/]+", "**": ".+"}.get(s, re.escape(s)) for s in t[2]) + ")"
    if verb is not None:
        out += ":" + re.escape(verb)
    return re.compile(out, re.S), names


def match_binding(b, verb, path):
    if b["verb"].upper() != verb.upper():
        return None
    rx, names = template_regex(b["uri"])
    mo = rx.fullmatch(path)
    if not mo:
        return None
    return {n: mo.group(f"g{i}") for i, n in enumerate(names)}


def instantiate(r, tmpl):
    segs = []
    for s in (tmpl or "*").split("/"):
        if s == "*":
            segs.append(r.pick(SEGS))
        elif s == "**":
            segs.append("/".join(r.pick(SEGS) for _ in range(r.randint(1, 3))))
        else:
            segs.append(s)
    return "/".join(segs)


def conforms(tmpl, value):
    rx = re.compile("/".join({"*": "[^/]+", "**": ".+"}.get(s, re.escape(s)) for s in (tmpl or "*").split("/")), re.S)
    return bool(rx.fullmatch(value))

# --------------------------------------------------------------------------------------------- descriptors / valuations

STRUCTISH = {"google.protobuf.Struct", "google.protobuf.Value", "google.protobuf.ListValue", "google.protobuf.Any"}
WKT_LEAF = {"google.protobuf.FieldMask", "google.protobuf.Timestamp", "google.protobuf.Duration", "google.protobuf.Int32Value",
            "google.protobuf.UInt32Value", "google.protobuf.StringValue", "google.protobuf.BoolValue", "google.protobuf.Int64Value",
            "google.protobuf.UInt64Value", "google.protobuf.DoubleValue", "google.protobuf.FloatValue", "google.protobuf.BytesValue"}
FD = rpc.FD


def is_map(fd):
    return fd.message_type is not None and fd.message_type.GetOptions().map_entry


def is_plain_msg(fd):
    """a singular message field we descend into (not a map, not a well-known leaf)"""
    return (fd.message_type is not None and not is_map(fd) and fd.label != fd.LABEL_REPEATED
            and fd.message_type.full_name not in WKT_LEAF and fd.message_type.full_name not in STRUCTISH)


def query_invalid(fd):
    """google.api.http: a field left to the query string must be primitive, repeated primitive or a non-repeated message"""
    if is_map(fd):
        return True
    if fd.message_type is not None and fd.label == fd.LABEL_REPEATED:
        return True
    return fd.message_type is not None and fd.message_type.full_name in STRUCTISH


def prune(desc, d, strip_query_invalid=False):
    """drop set-but-empty plain sub-messages (not representable in a query string); optionally the query-invalid fields"""
    out = {}
    for k, v in d.items():
        fd = desc.fields_by_name[k]
        if strip_query_invalid and query_invalid(fd):
            continue
        if is_plain_msg(fd):
            v = prune(fd.message_type, v, strip_query_invalid)
            if not v:
                continue
        out[k] = v
    return out


def get_path(d, dotted):
    for p in dotted.split("."):
        if not isinstance(d, dict) or p not in d:
            return None
        d = d[p]
    return d


def set_path(d, dotted, v):
    ps = dotted.split(".")
    for p in ps[:-1]:
        d = d.setdefault(p, {})
    d[ps[-1]] = v


def del_path(d, dotted):
    ps = dotted.split(".")
    for p in ps[:-1]:
        d = d.get(p)
        if not isinstance(d, dict):
            return
    d.pop(ps[-1], None)


def var_value(r, typ, tmpl):
    if typ == "string":
        return instantiate(r, tmpl)
    if typ == "int64":
        return str(r.pick([1, 7, 2**40 + 1]))
    return r.pick([1, 7, 42])


def truthy(v):
    return v not in (None, "", 0, "0", False)


def select_binding(m, val):
    """the statement's reading: the first declared binding all of whose path variables are set and conform"""
    for k, b in enumerate(m["bindings"]):
        ok = True
        for (path, typ, tmpl) in b["vars"]:
            v = get_path(val, path)
            if not truthy(v) or (typ == "string" and not conforms(tmpl, v)):
                ok = False
        if ok:
            return k
    return None


def gen_valuation(r, codec, m):
    desc = codec.pool.FindMessageTypeByName(in_full(m))
    val = rpc.rand_msg(r, codec, in_full(m), p_set=r.pick([0.3, 0.55, 0.8]))
    allvars = {}
    for b in m["bindings"]:
        for (path, typ, tmpl) in b["vars"]:
            allvars[path] = (typ, tmpl)
    target = r.randrange(len(m["bindings"])) if m["bindings"] else None
    for path, (typ, tmpl) in allvars.items():
        if r.maybe(0.55):
            del_path(val, path)
        else:
            set_path(val, path, var_value(r, typ, tmpl))
    if target is not None and not r.maybe(0.06):
        tv = {p for (p, _t, _s) in m["bindings"][target]["vars"]}
        for b in m["bindings"][:target]:             # make the earlier bindings inapplicable where that is possible
            others = [p for (p, _t, _s) in b["vars"] if p not in tv]
            if others and r.maybe(0.85):
                del_path(val, r.pick(others))
        for (path, typ, tmpl) in m["bindings"][target]["vars"]:
            set_path(val, path, var_value(r, typ, tmpl))
    for fs in m["fields"]:                 # fields with presence: unset / explicitly the default value / something else
        if not (fs.get("optional") or fs.get("oneof")) or fs.get("type") in ("message",) or fs.get("repeated"):
            continue
        how = r.pick(["as-is", "as-is", "unset", "default", "default", "non-default"])
        if how == "as-is":
            continue
        if how != "unset" and fs.get("oneof"):
            for g in m["fields"]:
                if g.get("oneof") == fs["oneof"]:
                    val.pop(g["name"], None)
        if how == "unset":
            val.pop(fs["name"], None)
        elif how == "default":
            val[fs["name"]] = {"string": "", "bool": False, "double": 0.0, "float": 0.0, "bytes": "",
                               "enum": "GENRE_UNSPECIFIED"}.get(fs["type"], 0)
        else:
            val[fs["name"]] = {"string": "x y", "bool": True, "double": 2.5, "float": 0.5, "bytes": "AQI=", "enum": "POETRY"}.get(fs["type"], 7)
    val = prune(desc, codec.normal(in_full(m), val))
    k = select_binding(m, val) if m["kind"] == "http" else None
    if k is not None:
        b = m["bindings"][k]
        if b["body"] != "*":
            keep = {}
            for name, v in val.items():
                fd = desc.fields_by_name[name]
                if name == b["body"]:
                    keep[name] = v
                elif query_invalid(fd):
                    continue
                elif is_plain_msg(fd):
                    keep[name] = prune(fd.message_type, v, strip_query_invalid=True)
                    if not keep[name]:
                        del keep[name]
                else:
                    keep[name] = v
            val = codec.normal(in_full(m), keep)
            val = prune(desc, val)
    return val


def to_reply_json(r, codec, full, val, numeric):
    """what a server would answer: lowerCamel or proto names, enums as names or (numeric) numbers, an unknown field"""
    camel = r.maybe(0.6)

    def conv(desc, d):
        out = {}
        for k, v in d.items():
            fd = desc.fields_by_name[k]
            key = fd.json_name if camel else k
            out[key] = conv_val(fd, v)
        return out

    def conv_one(fd, v):
        if fd.enum_type is not None:
            return fd.enum_type.values_by_name[v].number if numeric else v
        if fd.message_type is not None and fd.message_type.full_name not in WKT_LEAF | STRUCTISH:
            return conv(fd.message_type, v)
        return v

    def conv_val(fd, v):
        if is_map(fd):
            vf = fd.message_type.fields_by_name["value"]
            return {kk: conv_one(vf, vv) for kk, vv in v.items()}
        if fd.label == fd.LABEL_REPEATED:
            return [conv_one(fd, x) for x in v]
        return conv_one(fd, v)
    if full == "google.protobuf.Empty":
        return {}
    out = conv(codec.pool.FindMessageTypeByName(full), val)
    if r.maybe(0.3):
        out["someUnknownField"] = {"x": 1}
    return out

# --------------------------------------------------------------------------------------------- oracle

INT32S = (FD.TYPE_INT32, FD.TYPE_SINT32, FD.TYPE_SFIXED32, FD.TYPE_UINT32, FD.TYPE_FIXED32)
INT64S = (FD.TYPE_INT64, FD.TYPE_SINT64, FD.TYPE_SFIXED64, FD.TYPE_UINT64, FD.TYPE_FIXED64)
SCALAR_TYPES = INT32S + INT64S + (FD.TYPE_STRING, FD.TYPE_BYTES, FD.TYPE_BOOL, FD.TYPE_DOUBLE, FD.TYPE_FLOAT)
WRAPPED = {"Int32Value": FD.TYPE_INT32, "UInt32Value": FD.TYPE_UINT32, "StringValue": FD.TYPE_STRING, "BoolValue": FD.TYPE_BOOL,
           "Int64Value": FD.TYPE_INT64, "UInt64Value": FD.TYPE_UINT64, "DoubleValue": FD.TYPE_DOUBLE, "FloatValue": FD.TYPE_FLOAT,
           "BytesValue": FD.TYPE_BYTES}


def find_field(desc, key):
    """JSON member name -> field: the lowerCamel json_name or the proto field name, nothing else"""
    for fd in desc.fields:
        if key == fd.json_name or key == fd.name:
            return fd
    return None


class Bad(Exception):
    pass


def parse_query_scalar(typ, s):
    if typ in (FD.TYPE_STRING, FD.TYPE_BYTES):
        return s
    if typ == FD.TYPE_BOOL:
        if s not in ("true", "false"):
            raise Bad(f"bool spelled {s!r}")
        return s == "true"
    if typ in INT32S:
        return int(s)
    if typ in INT64S:
        int(s)
        return s
    if typ in (FD.TYPE_DOUBLE, FD.TYPE_FLOAT):
        return float(s)
    raise Bad(f"type {typ}")


def query_to_dict(desc, pairs, numeric, problems):
    """query string -> nested dict keyed by proto field names (values in protobuf-JSON form)"""
    out = {}
    for key, raw in pairs:
        d, cur = out, desc
        segs = key.split(".")
        for i, sname in enumerate(segs):
            fd = find_field(cur, sname) if cur is not None else None
            if fd is None:
                problems.append(("unknown-json-key:query", f"query parameter {key!r}: no field {sname!r}"))
                break
            if i < len(segs) - 1:
                if not is_plain_msg(fd):
                    problems.append(("bad-query-key", f"query parameter {key!r} descends into {fd.name}"))
                    break
                d = d.setdefault(fd.name, {})
                cur = fd.message_type
                continue
            try:
                if fd.enum_type is not None:
                    isnum = bool(re.fullmatch(r"-?\d+", raw))
                    if isnum != bool(numeric):
                        problems.append(("enum-encoding:query", f"{key}={raw!r} with rest-numeric-enums={numeric}"))
                    v = int(raw) if isnum else raw
                elif fd.message_type is not None:
                    short = fd.message_type.full_name.rsplit(".", 1)[-1]
                    if fd.message_type.full_name not in WKT_LEAF or fd.label == fd.LABEL_REPEATED:
                        problems.append(("bad-query-key", f"query parameter {key!r} gives a scalar to message field {fd.name}"))
                        break
                    v = parse_query_scalar(WRAPPED[short], raw) if short in WRAPPED else raw
                else:
                    v = parse_query_scalar(fd.type, raw)
            except (Bad, ValueError) as e:
                problems.append((f"bad-query-value:{FD.Type.Name(fd.type)}", f"{key}={raw!r}: {e}"))
                break
            if fd.label == fd.LABEL_REPEATED:
                d.setdefault(fd.name, []).append(v)
            elif fd.name in d:
                problems.append(("dup:query+query", f"query parameter {key!r} occurs twice"))
            else:
                d[fd.name] = v
    return out


def body_to_dict(desc, obj, numeric, problems, where="body"):
    """JSON object -> dict keyed by proto field names; checks member names and the enum encoding on the way"""
    if not isinstance(obj, dict):
        problems.append(("bad-body", f"{where}: JSON {type(obj).__name__} where an object is expected"))
        return {}
    out = {}

    def one(fd, v, w):
        if fd.enum_type is not None:
            if isinstance(v, bool) or isinstance(v, int) != bool(numeric):
                problems.append(("enum-encoding:body", f"{w}={v!r} with rest-numeric-enums={numeric}"))
            return v
        if fd.message_type is not None and fd.message_type.full_name not in WKT_LEAF | STRUCTISH:
            return body_to_dict(fd.message_type, v, numeric, problems, w)
        return v
    for k, v in obj.items():
        fd = find_field(desc, k)
        if fd is None:
            problems.append((f"unknown-json-key:{'body'}", f"{where}: member {k!r} is not a field of {desc.full_name}"))
            continue
        w = f"{where}.{k}"
        if is_map(fd):
            vf = fd.message_type.fields_by_name["value"]
            out[fd.name] = {kk: one(vf, vv, f"{w}[{kk}]") for kk, vv in v.items()}
        elif fd.label == fd.LABEL_REPEATED:
            out[fd.name] = [one(fd, x, w) for x in v]
        else:
            out[fd.name] = one(fd, v, w)
    return out


def leaf_paths(desc, d, prefix=()):
    out = set()
    for k, v in d.items():
        fd = desc.fields_by_name[k]
        if is_plain_msg(fd) and isinstance(v, dict):
            out |= leaf_paths(fd.message_type, v, prefix + (k,)) or {prefix + (k,)}
        else:
            out.add(prefix + (k,))
    return out


def deep_merge(a, b):
    out = dict(a)
    for k, v in b.items():
        if k in out and isinstance(out[k], dict) and isinstance(v, dict):
            out[k] = deep_merge(out[k], v)
        elif k not in out:
            out[k] = v
    return out


def is_default_text(fd, raw):
    if fd.type == FD.TYPE_STRING:
        return raw == ""
    if fd.type == FD.TYPE_BYTES:
        return raw in ("", "b''")
    if fd.type == FD.TYPE_BOOL:
        return raw == "false"
    try:
        return float(raw) == 0
    except ValueError:
        return False


def required_scalars(desc, m):
    out = []
    for fs in m["fields"]:
        if fs.get("required") and not fs.get("repeated") and not fs.get("map") and fs.get("type") not in ("message", "enum"):
            out.append(desc.fields_by_name[fs["name"]])
    return out


def reassemble(codec, m, k, pathvars, rec, numeric, sent, presence_defaults=None):
    """problems [(key, text)] of reading the observed request as an instance of declared binding k"""
    desc = codec.pool.FindMessageTypeByName(in_full(m))
    b = m["bindings"][k]
    primary = m["bindings"][0]
    problems = []
    ctx_presence_defaults = presence_defaults if presence_defaults is not None else []
    # the known `additional-binding` / `primary-has-no-body` classes need their trigger: an ADDITIONAL binding that the request
    # really selects (first declared binding whose path variables are set and conform) — not merely a binding whose template
    # happens to match the observed path as well
    in_use = k != 0 and select_binding(m, sent) == k

    def bound_by(bb, name):
        return bb["body"] in ("*", name) or any(p == name for (p, _t, _s) in bb["vars"])

    def reason_for(name, dup):
        """`additional-binding` ONLY for the recorded root cause: the defaults table is computed from the primary binding,
        so with another binding in use a field the primary leaves unbound is defaulted although bound now (dup), or a field
        the primary binds is not defaulted although unbound now (missing); anything else keeps a generic reason"""
        if k != 0 and in_use and bound_by(primary, name) != dup and bound_by(b, name) == dup:
            return "additional-binding"
        return "primary-binding" if k == 0 else "binding-in-use"
    # --- path
    P = {}
    for (path, typ, tmpl) in b["vars"]:
        raw = pathvars[path]
        try:
            set_path(P, path, raw if typ == "string" else parse_query_scalar({"int32": FD.TYPE_INT32, "int64": FD.TYPE_INT64}[typ], raw))
        except (Bad, ValueError) as e:
            problems.append(("bad-path-value", f"{path}={raw!r}: {e}"))
    # --- body
    B = {}
    text = rec["body"]
    if b["body"]:
        if text == "":
            lost = sent if b["body"] == "*" else sent.get(b["body"])
            tag = "primary-has-no-body" if (in_use and not primary["body"]) else ("same-binding" if k == 0 else "binding-in-use")
            if lost:
                problems.append((f"body-not-sent:{tag}", f"binding {k} ({b['verb']} {b['uri']}, body={b['body']!r}) was used but no body was sent; "
                                 f"{'the request' if b['body'] == '*' else 'field ' + b['body']} is lost"))
        else:
            try:
                obj = json.loads(text)
            except ValueError:
                obj = None
                problems.append(("bad-body", f"body is not JSON: {text[:80]!r}"))
            if obj is not None:
                if b["body"] == "*":
                    B = body_to_dict(desc, obj, numeric, problems)
                else:
                    fd = desc.fields_by_name[b["body"]]
                    sub = body_to_dict(fd.message_type, obj, numeric, problems, b["body"])
                    B = {b["body"]: sub} if sub else {}       # `{}` is also how an unset body field travels
    elif text != "":
        problems.append(("body-unexpected", f"binding {k} has no body but {text[:60]!r} was sent"))
    # --- query
    pairs = urllib.parse.parse_qsl(rec["query"], keep_blank_values=True)
    alt = [v for (kk, v) in pairs if kk == "$alt"]
    pairs = [(kk, v) for (kk, v) in pairs if kk != "$alt"]
    if numeric and alt != ["json;enum-encoding=int"]:
        problems.append(("alt-param", f"rest-numeric-enums is on but $alt={alt}"))
    if not numeric and alt:
        problems.append(("alt-param", f"rest-numeric-enums is off but $alt={alt}"))
    # required bytes default spelled as a python literal
    fixed = []
    for (kk, v) in pairs:
        fd = find_field(desc, kk)
        if (fd is not None and fd.type == FD.TYPE_BYTES and fd.label != fd.LABEL_REPEATED and v == "b''" and fd.name not in sent
                and any(fs["name"] == fd.name and fs.get("required") for fs in m["fields"])):
            problems.append(("required-default-bytes-literal", f"query parameter {kk}=b'' (python repr of bytes) for an unset required bytes field"))
            v = ""
        fixed.append((kk, v))
    pairs = fixed
    # a default keyed by something that is not the field's JSON name (field names that are not lower snake_case)
    miskeyed, kept = set(), []
    for (kk, v) in pairs:
        if find_field(desc, kk.split(".")[0]) is None:
            cand = [fd for fd in required_scalars(desc, m) if fd.name != fd.name.lower() and fd.json_name.lower() == kk.lower()
                    and is_default_text(fd, v)]
            if cand:
                miskeyed.add(cand[0].name)
                problems.append(("required-default-key:non-snake-case-name", f"default of required field {cand[0].name} (JSON name "
                                 f"{cand[0].json_name}) is sent as {kk}={v!r}"))
                continue
        kept.append((kk, v))
    pairs = kept
    if b["body"] == "*" and pairs:
        defaults = [kk for (kk, v) in pairs if (fd := find_field(desc, kk)) is not None and fd.type in SCALAR_TYPES and is_default_text(fd, v)]
        isreq = {fs["name"] for fs in m["fields"] if fs.get("required")}
        if len(defaults) == len(pairs) and all(find_field(desc, kk).name in isreq for kk in defaults):
            why = "additional-binding" if all(reason_for(find_field(desc, kk).name, True) == "additional-binding" for kk in defaults) else \
                ("primary-binding" if k == 0 else "binding-in-use")
            problems.append((f"dup:body+query-required-default:{why}", f"body is `*` yet default-valued {defaults} travel in the query"))
        else:
            problems.append(("query-with-star-body", f"body is `*` yet query carries {pairs}"))
        pairs = []
    Q = query_to_dict(desc, pairs, numeric, problems)
    # --- no duplication
    lp, lb, lq = leaf_paths(desc, P), leaf_paths(desc, B), leaf_paths(desc, Q)
    for (x, y, nx, ny) in ((lp, lq, "path", "query"), (lb, lq, "body", "query"), (lp, lb, "path", "body")):
        for pth in sorted(x & y):
            name = ".".join(pth)
            key = f"dup:{nx}+{ny}"
            if ny == "query" and len(pth) == 1:
                fd = desc.fields_by_name[pth[0]]
                raw = [v for (kk, v) in pairs if find_field(desc, kk) is fd]
                isreq = any(fs["name"] == pth[0] and fs.get("required") for fs in m["fields"])
                if isreq and raw and fd.type in SCALAR_TYPES and all(is_default_text(fd, v) for v in raw):
                    key = f"dup:{nx}+query-required-default:{reason_for(pth[0], True)}"
            problems.append((key, f"field {name} travels in the {nx} and in the {ny}"))
    # bodies that overlap at message level (body field also spread over the query)
    if b["body"] and b["body"] != "*" and b["body"] in Q:
        problems.append(("dup:body+query", f"body field {b['body']} also in the query"))
    # --- no loss
    # a REQUIRED scalar with presence (proto3 `optional`, member of a real oneof) that the caller left unset must travel
    # default-valued like any required scalar; on the receiving side that is "set to the default", not "unset" — the
    # statement prescribes exactly this, so exactly these query parameters are set aside before the comparison
    for fd in required_scalars(desc, m):
        if fd.has_presence and fd.name not in sent and fd.name in Q and fd.name not in P and fd.name not in B:
            raws = [v for (kk, v) in pairs if find_field(desc, kk) is fd]
            if len(raws) == 1 and is_default_text(fd, raws[0]):
                ctx_presence_defaults.append(fd.name)
                del Q[fd.name]
    merged = deep_merge(deep_merge(P, B), Q)
    body_unsent = any(p[0].startswith("body-not-sent") for p in problems)
    if body_unsent:                       # already reported; everything ELSE (path, query) must still be rebuilt exactly
        rest = {} if b["body"] == "*" else {k_: v for k_, v in sent.items() if k_ != b["body"]}
        for (path, _typ, _tmpl) in b["vars"]:
            if get_path(sent, path) is not None:
                set_path(rest, path, get_path(sent, path))
        sent = rest
    try:
        got = codec.encode(in_full(m), merged)
        if got != codec.encode(in_full(m), sent):
            gd = codec.decode(in_full(m), got)
            lost = sorted(".".join(p) for p in leaf_paths(desc, sent) - leaf_paths(desc, gd))
            extra = sorted(".".join(p) for p in leaf_paths(desc, gd) - leaf_paths(desc, sent))
            tag = "value"
            if lost:
                tag = "lost"
            elif extra:
                tag = "extra"
                reqrep = [e for e in extra if any(fs["name"] == e and fs.get("required") and fs.get("repeated") for fs in m["fields"])]
                one_default = all(isinstance(gd.get(e), list) and len(gd[e]) == 1 and gd[e][0] in ("", 0, "0", False, 0.0)
                                  and e not in sent for e in reqrep)
                if reqrep and len(reqrep) == len(extra) and one_default:
                    # ONLY: an unset required repeated scalar sent as one default element, and NOTHING else differs
                    same_otherwise = codec.encode(in_full(m), {k_: v for k_, v in gd.items() if k_ not in reqrep}) == codec.encode(in_full(m), sent)
                    tag = "required-repeated-default" if same_otherwise else "value"
            problems.append((f"reassembly:{tag}", f"path+body+query rebuild {gd}, sent{' (besides the unsent body)' if body_unsent else ''} "
                             f"{sent} (lost {lost}, extra {extra})"))
    except Exception as e:  # noqa: ParseError
        problems.append(("reassembly:unparsable", f"{type(e).__name__}: {str(e)[:200]}"))
    # --- required scalars not bound by path or body must be in the query
    bound_top = {p.split(".")[0] for (p, _t, _s) in b["vars"] if "." not in p}
    for fd in required_scalars(desc, m):
        if fd.name in bound_top or b["body"] == "*" or b["body"] == fd.name or fd.name in miskeyed:
            continue
        if not any(find_field(desc, kk.split(".")[0]) is fd for (kk, _v) in pairs):
            problems.append((f"required-default-missing:{reason_for(fd.name, False)}", f"required field {fd.name} is not bound by binding {k} and is absent from the query"))
    return problems


RESERVED = None


def load_reserved():
    """the repo's table, used ONLY to label failure classes and to enumerate the sweep"""
    global RESERVED
    if RESERVED is None:
        from gapic.utils.reserved_names import RESERVED_NAMES
        RESERVED = set(RESERVED_NAMES)
    return RESERVED

# --------------------------------------------------------------------------------------------- running one API


def snake(name):
    import gapic.utils as gu
    return gu.to_snake_case(name)


def classify_raise(m, val, res):
    """signature key for a client call that raised although a declared binding matches the request"""
    k = select_binding(m, val)
    exc = res.get("raised")
    if (exc == "KeyError" and res.get("msg", "") == "'body'" and not res.get("server") and k is not None and k != 0
            and not m["bindings"][k]["body"] and m["bindings"][0]["body"]):
        return "body-of-primary-binding-assumed:KeyError"
    return f"call-raised:{exc}"


LOCAL_ERRORS = ("ValueError", "KeyError", "NotImplementedError", "AttributeError", "TypeError", "ParseError", "NameError")
STATUSES = [201, 399, 400, 401, 404, 409, 429, 500, 503]


def to_literal(desc, d):
    """the dict a caller writes by hand for the proto-plus request (python values, NOT derived from bytes through the
    generated classes); None when a value has no plain-python spelling that survives JSON (bytes, Timestamp, …)"""
    out = {}
    for k, v in d.items():
        fd = desc.fields_by_name[k]

        def one(x):
            if fd.message_type is not None and not is_map(fd):
                full = fd.message_type.full_name
                if full in WKT_LEAF:
                    short = full.rsplit(".", 1)[-1]
                    if short in WRAPPED and WRAPPED[short] != FD.TYPE_BYTES:
                        return int(x) if WRAPPED[short] in INT64S else x
                    raise Bad(full)
                if full in STRUCTISH:
                    raise Bad(full)
                sub = to_literal(fd.message_type, x)
                if sub is None:
                    raise Bad(full)
                return sub
            if fd.type == FD.TYPE_BYTES:
                raise Bad("bytes")
            if fd.type in INT64S:
                return int(x)
            return x
        try:
            if is_map(fd):
                vf = fd.message_type.fields_by_name["value"]
                if vf.message_type is not None or vf.type == FD.TYPE_BYTES:
                    return None
                out[k] = dict(v)
            elif fd.label == fd.LABEL_REPEATED:
                out[k] = [one(x) for x in v]
            else:
                out[k] = one(v)
        except Bad:
            return None
    return out


def plan_calls(ctx, r, codec, spec, ncalls):
    plans = []
    for m in spec["methods"]:
        n = ncalls if m["kind"] == "http" else 1
        desc = codec.pool.FindMessageTypeByName(in_full(m))
        for _ in range(n):
            val = gen_valuation(r, codec, m)
            if m.get("update_shape") and r.maybe(0.7):      # FieldMask in its JSON spelling: lowerCamel, dotted, several paths
                val["update_mask"] = r.pick(["title", "updateTime,author.givenName", "shelfGenres,pages", "class"])
                val = codec.normal(in_full(m), val)
            reply_val = {} if m["out"] == "Empty" else rpc.rand_msg(r, codec, out_full(m), p_set=0.5)
            reply_json = to_reply_json(r, codec, out_full(m), reply_val, spec["numeric"])
            plan = {"method": m["name"], "request": val, "reply": reply_val, "reply_json": reply_json,
                    "mode": r.pick(["request-instance", "request-instance", "request-dict", "request-literal-dict"])}
            if plan["mode"] == "request-literal-dict":
                lit = to_literal(desc, val) if m["kind"] != "cstream" else None
                if lit is None:
                    plan["mode"] = "request-dict"
                else:
                    plan["literal"] = lit
            if m["kind"] == "http" and r.maybe(0.15):
                plan["status"] = r.pick(STATUSES)
            plans.append(plan)
    # a call repeated on the same client with the same request: nothing may leak from the first into the second
    sendable = [p for p in plans if p.get("status", 200) == 200 and next(x for x in spec["methods"] if x["name"] == p["method"])["kind"] == "http"]
    for p in r.sample(sendable, min(2, len(sendable))):
        q = copy.deepcopy(p)
        q["repeat"] = True
        plans.append(q)
    return plans


def oracle_call(ctx, codec, spec, m, plan, res, label):
    payload = {"spec": one_method_spec(spec, m), "plan": plan}
    val = plan["request"]
    server = res.get("server", [])
    if m["kind"] == "cstream":
        ctx.count("calls", "client-streaming-with-binding")      # the statement is silent; compared with the model only
        return None
    if m["kind"] != "http":
        ctx.count("calls", f"no-usable-binding:{m['kind']}")
        if res.get("raised") != "NotImplementedError" or server:
            ctx.fail("no-binding-not-refused", f"{m['name']} has no usable http binding but the REST call gave "
                     f"{res.get('raised') or 'a result'} with {len(server)} request(s) sent", payload)
        return None
    expected_k = select_binding(m, val)
    status = plan.get("status", 200)
    http_error = ("ok" not in res and status >= 400 and len(server) == 1 and res.get("raised") not in LOCAL_ERRORS)
    ctx.count("reply_status", status)
    if "ok" not in res and not http_error:
        if expected_k is None:
            ctx.count("calls", "no-binding-matches-request")
            if server:
                ctx.fail("sent-despite-error", f"{m['name']} raised {res.get('raised')} after sending a request", payload)
            return None
        ctx.count("calls", "raised")
        ctx.fail(classify_raise(m, val, res), f"{m['name']}: binding {expected_k} matches the request but the call raised "
                 f"{res.get('raised')}: {res.get('msg')}", payload)
        return None
    if len(server) != 1:
        ctx.fail("request-count", f"{m['name']}: {len(server)} HTTP requests for one call", payload)
        return None
    rec = server[0]
    path = urllib.parse.unquote(rec["path"])
    cands = []
    for k, b in enumerate(m["bindings"]):
        pv = match_binding(b, rec["verb"], path)
        if pv is not None:
            cands.append((k, pv))
    if not cands:
        ctx.count("calls", "undeclared-path")
        ctx.fail("path-not-a-declared-binding", f"{m['name']}: {rec['verb']} {path} instantiates none of {[(b['verb'], b['uri']) for b in m['bindings']]}", payload)
        return None
    best = None
    for (k, pv) in cands:
        probs = reassemble(codec, m, k, pv, rec, spec["numeric"], val)
        score = (any(key.startswith(("reassembly:lost", "reassembly:value", "reassembly:unparsable")) for key, _ in probs), len(probs))
        if best is None or score < best[2]:
            best = (k, probs, score)
    k, probs, _ = best
    ctx.count("calls", "sent" + (":repeat" if plan.get("repeat") else ""))
    ctx.count("binding_used", "primary" if k == 0 else "additional")
    ctx.count("body_kind", {None: "none", "*": "star"}.get(m["bindings"][k]["body"], "field"))
    for fs in m["fields"]:
        if fs.get("required") and (fs.get("optional") or fs.get("oneof")) and fs.get("type") not in ("message", "enum"):
            v = val.get(fs["name"])
            ctx.count("required_field_with_presence", ("proto3 optional" if fs.get("optional") else "oneof member") + ": " +
                      ("unset" if fs["name"] not in val else "set to the default" if v in ("", 0, "0", False, 0.0) else "set, non-default"))
    seen = set()
    for key, text in probs:
        if key in seen:
            continue
        seen.add(key)
        ctx.fail(key, f"{m['name']} {rec['verb']} {rec['path']}?{rec['query']} body={rec['body'][:120]!r}: {text}", payload)
    # content type header
    hdr = {a.lower(): b for a, b in rec["headers"]}
    if hdr.get("content-type") != "application/json":
        ctx.fail("content-type", f"{m['name']}: Content-Type {hdr.get('content-type')!r}", payload)
    result = {"k": k, "keys": seen, "candidates": len(cands)}
    if http_error:           # the statement is silent about error replies; the `>= 400` split is compared with the model
        return result
    if status >= 400:
        ctx.fail("error-status-returned", f"{m['name']}: HTTP {status} reply was returned as a result", payload)
        return result
    # reply decoded into the declared type
    ok = res["ok"]
    if m["out"] == "Empty":
        if ok.get("kind") != "none":
            ctx.fail("reply-type", f"{m['name']}: returns {ok} for an Empty response", payload)
    else:
        if ok.get("kind") != "message" or ok.get("type") != out_full(m):
            ctx.fail("reply-type", f"{m['name']}: returned {ok.get('type') or ok.get('kind')}, declared {out_full(m)}", payload)
        else:
            got = codec.decode(out_full(m), ok["b64"])
            if got != plan["reply"]:
                ctx.fail("reply-value", f"{m['name']}: reply {plan['reply_json']} decoded to {got}, expected {plan['reply']}", payload)
    return result


def run_api(ctx, r, spec, label, ncalls=None, model=True, plans=None):
    load_reserved()
    files = build_files(spec)
    req = apigen.request(files, params_of(spec))
    api, _ = genrun.build_api(req)
    svcs = [api.services[svc_full(spec, i)] for i in range(len(services_of(spec)))]
    locs = [rpc.py_locations(api, sv) for sv in svcs]
    codec = rpc.Codec(files)

    def wm_of(m):
        return svcs[m.get("svc", 0)].methods[m["name"]]
    if model:
        t2_schema(ctx, spec, wm_of)
    ctx.count("layout", spec.get("layout", "flat") + (":nested-sub-package" if "." in spec.get("sub", "") else ""))
    for m in spec["methods"]:
        if spec.get("layout", "flat") != "flat":
            where = lambda sub: "sub-package" if sub else "api-package"   # noqa: E731
            ctx.count("layout_method", f"service in {where(services_of(spec)[m.get('svc', 0)].get('sub'))}, request in "
                      f"{where(m.get('req_sub'))}, shared messages in {where(spec.get('types_sub'))}")
    for m in spec["methods"]:
        ctx.count("bindings_per_method", len(m["bindings"]) if m["kind"] == "http" else 0)
        for b in m["bindings"] if m["kind"] == "http" else []:
            ctx.count("verb", b["verb"])
            for (pth, _t, tm) in b["vars"]:
                ctx.count("path_variable", ("nested" if "." in pth else "top") + ("+template" if tm else ""))
        for fs in m["fields"]:
            if fs.get("required"):
                ctx.count("required_field_kind", ("repeated " if fs.get("repeated") else "") + fs.get("type", "map"))
    ctx.count("numeric_enums", spec["numeric"])
    res, err = genrun.try_generate(req)
    if err:
        ctx.fail("generation-crash:" + err[0], f"generator raised {err[0]}: {err[1]}", {"spec": spec})
        return
    root = genrun.materialise(res)
    try:
        if plans is None:
            plans = plan_calls(ctx, r, codec, spec, ncalls or ctx.n(4, 6))
            if model:
                t2_transcode(ctx, r, spec, codec, ctx.n(3, 6))
        calls = [[] for _ in svcs]
        slots = []
        for p in plans:
            m = next(x for x in spec["methods"] if x["name"] == p["method"])
            wm = wm_of(m)
            st = p.get("status", 200)
            rbody = p["reply_json"] if st < 400 else {"error": {"code": st, "message": "scripted", "status": "SCRIPTED"}}
            call = {"method": snake(wm.client_method_name), "mode": p["mode"], "py_request": rpc.py_type(wm.input),
                    "request_b64": codec.encode_b64(in_full(m), p["request"]),
                    "script": [{"status": st, "body": json.dumps(rbody)}]}
            if p["mode"] == "request-literal-dict":
                call["request_literal"] = p["literal"]
            ctx.count("mode", p["mode"])
            if m["kind"] == "cstream":
                call["mode"] = "request-none"
                call["stream_requests"] = [call["request_b64"]]
            slots.append((m.get("svc", 0), len(calls[m.get("svc", 0)])))
            calls[m.get("svc", 0)].append(call)
        live = [i for i in range(len(svcs)) if calls[i]]            # one session per service (its own client and transport)
        out = libhost.run(root, [{"op": "rest_session", "client": locs[i]["client"], "transport": locs[i]["rest"], "calls": calls[i]}
                                 for i in live], timeout=600)
        for i, o in zip(live, out):
            if "calls" not in o:
                ctx.fail("session-failed", f"REST session of {svc_full(spec, i)} failed: {str(o)[-600:]}", {"spec": spec})
                return
        by_svc = dict(zip(live, out))
        results = [by_svc[i]["calls"][j] for (i, j) in slots]
        mres = t3_model(ctx, spec, codec, plans) if model else [None] * len(plans)
        for p, res_, mo in zip(plans, results, mres):
            m = next(x for x in spec["methods"] if x["name"] == p["method"])
            ctx.case({"method": {k: v for k, v in m.items() if k != "fields"}, "request": p["request"], "numeric": spec["numeric"]},
                     distinct_key=[json.dumps(m["bindings"], sort_keys=True), json.dumps(p["request"], sort_keys=True), spec["numeric"]],
                     nontrivial=bool(p["request"]) or m["kind"] != "http")
            orc = oracle_call(ctx, codec, spec, m, p, res_, label)
            if mo is not None:
                t3_compare(ctx, spec, codec, m, p, res_, mo, orc)
    finally:
        genrun.cleanup(root)


# --------------------------------------------------------------------------------------------- model inputs

KIND = {"string": "str", "bytes": "bytes", "bool": "bool", "double": "float", "float": "float", "enum": "enum", "message": "msg"}


def method_json(m):
    def rule(b):
        return {"pattern": b["verb"] if b["verb"] in ("get", "put", "post", "delete", "patch") else "custom", "uri": b["uri"], "body": b["body"] or ""}
    if m["kind"] == "nohttp" or not m["bindings"]:
        http, add = {"pattern": None, "uri": "", "body": ""}, []
    else:
        http, add = rule(m["bindings"][0]), [rule(b) for b in m["bindings"][1:]]
    fields = []
    for fs in m["fields"]:
        kind = "msg" if fs.get("map") else KIND.get(fs["type"], "int")
        fields.append([fs["name"], kind, bool(fs.get("repeated") or fs.get("map")), bool(fs.get("required")),
                       "optional" if fs.get("optional") else ("oneof" if fs.get("oneof") else "implicit")])
    return {"http": http, "additional": add, "fields": fields, "client_streaming": m["kind"] == "cstream"}


def text_of(v):
    if isinstance(v, bool):
        return "true" if v else "false"
    if isinstance(v, str):
        return v
    if isinstance(v, int):
        return str(v)
    if isinstance(v, float):
        return repr(float(v))
    return json.dumps(v, sort_keys=True, ensure_ascii=False)


def jdump(x):
    return json.dumps(x, sort_keys=True, ensure_ascii=False)


def opaque_text(v):
    return json.dumps(v, sort_keys=True, ensure_ascii=False)


def leaves_of(desc, d, prefix=()):
    """the set leaf fields of a valuation (proto names): [{"path": [...], "atoms": [...]}]"""
    out = []
    for k, v in d.items():
        fd = desc.fields_by_name[k]
        path = list(prefix) + [k]
        if is_plain_msg(fd):
            out += leaves_of(fd.message_type, v, path)
            continue

        def atom(x):
            if fd.enum_type is not None and not is_map(fd):
                return ["e", x, str(fd.enum_type.values_by_name[x].number)]
            return text_of(x)
        if is_map(fd) or (fd.message_type is not None and (fd.label == fd.LABEL_REPEATED or fd.message_type.full_name in STRUCTISH)):
            atoms = [opaque_text(v)]
        elif fd.label == fd.LABEL_REPEATED:
            atoms = [atom(x) for x in v]
        else:
            atoms = [atom(v)]
        out.append({"path": path, "atoms": atoms})
    return out


def observed_leaves(codec, desc, obj, prefix=()):
    """an observed JSON object as [[member path], [texts]] under the INPUT descriptors; member names as sent.
    Opaque sub-trees (maps, repeated messages, Struct) are normalised through the descriptor (names for enums)."""
    out = []
    for k, v in obj.items():
        fd = find_field(desc, k)
        path = list(prefix) + [k]
        if fd is None:
            out.append([path, ["?unknown-member"]])
            continue
        if is_plain_msg(fd) and isinstance(v, dict):
            out += observed_leaves(codec, fd.message_type, v, path)
        elif is_map(fd) or (fd.message_type is not None and (fd.label == fd.LABEL_REPEATED or fd.message_type.full_name in STRUCTISH)):
            try:
                norm = codec.normal(desc.full_name, {fd.name: v}).get(fd.name)
            except Exception:  # noqa
                norm = {"?unparsable": repr(v)[:60]}
            out.append([path, [opaque_text(norm)]])
        elif fd.label == fd.LABEL_REPEATED:
            out.append([path, [text_of(x) for x in v]])
        else:
            out.append([path, [text_of(v)]])
    return out

# --------------------------------------------------------------------------------------------- T2


def t2_schema(ctx, spec, wm_of):
    """generator-side functions of the real schema objects vs `Model/Http.lean`"""
    ops = [{"op": "c04.schema", "method": method_json(m)} for m in spec["methods"]]
    for m, mo in zip(spec["methods"], ctx.driver.ask(ops)):
        wm = wm_of(m)
        ctx.traces += 1
        impl_opts = [{"method": o.method, "uri": o.uri, "body": o.body} for o in wm.http_options]
        if mo["http_options"] != impl_opts:
            ctx.disagree("T2:c04.http_options", f"model {mo['http_options']} vs impl {impl_opts}", {"spec": one_method_spec(spec, m)})
        if m["kind"] == "http":
            if mo["path_params"] != list(wm.path_params):
                ctx.disagree("T2:c04.path_params", f"model {mo['path_params']} vs impl {list(wm.path_params)}", {"spec": one_method_spec(spec, m)})
            if sorted(mo["query_params"] or []) != sorted(wm.query_params):
                ctx.disagree("T2:c04.query_params", f"model {sorted(mo['query_params'])} vs impl {sorted(wm.query_params)}", {"spec": one_method_spec(spec, m)})
        avail = bool(wm.http_options) and not wm.client_streaming
        if mo["available"] != avail:
            ctx.disagree("T2:c04.available", f"model {mo['available']} vs impl {avail}", {"spec": one_method_spec(spec, m)})


def gen_uri_strings(r, n):
    """well-formed templates plus malformed text around braces (both readings of the syntax must agree with the model)"""
    out = []
    names = ["name", "class", "book.name", "a.import.b", "in", "x_1", "type", "parent", "format_", "class_", "__peg_parser__", "a=b", "{a", "a}"]
    subs = ["*", "**", "shelves/*", "shelves/*/books/**", "a.b/*", "x=y", "}", "a\nb"]
    for _ in range(n):
        s = "/v1"
        for _k in range(r.randint(0, 3)):
            kind = r.randrange(8)
            nm = r.pick(names)
            if kind <= 2:
                s += "/{" + nm + "}"
            elif kind <= 5:
                s += "/{" + nm + "=" + r.pick(subs).replace("\\n", "\n") + "}"
            elif kind == 6:
                s += r.pick(["/{", "/}", "/{}", "/{=}", "/*", "/**", "/{/x}", "/{a/b}", "{{a}", "/{a=}", "/{a=}}", "/{a}{b}", "/é{ü}"])
            else:
                s += "/" + r.pick(LITS)
        if r.maybe(0.2):
            s += ":" + r.pick(VERBS_TAIL)
        out.append(s)
    return out


def t2_functions(ctx, r, n):
    """convert_uri_fieldnames, the path_params regex, to_camel_case, ToJsonName vs the model"""
    from gapic.utils import convert_uri_fieldnames, to_camel_case, RESERVED_NAMES
    from gapic.schema import wrappers
    from google.protobuf import descriptor_pb2, descriptor_pool
    uris = gen_uri_strings(r, n)
    for u, mo in zip(uris, ctx.driver.ask([{"op": "c04.uri", "uri": u} for u in uris])):
        ctx.traces += 1
        ctx.case(distinct_key=["uri", u], nontrivial="{" in u)
        impl = convert_uri_fieldnames(u)
        if mo["converted"] != impl:
            ctx.disagree("T2:c04.convert_uri_fieldnames", f"{u!r}: model {mo['converted']!r} vs impl {impl!r}", {"uri": u})
        pp = re.findall(r"\{(\w+)(?:=.+?)?\}", u)
        if u.isascii() and mo["path_params"] != pp:
            ctx.disagree("T2:c04.path_params_regex", f"{u!r}: model {mo['path_params']} vs impl {pp}", {"uri": u})
        if mo["rendered"] != u:
            ctx.disagree("T2:c04.scan_lossless", f"render(scan({u!r})) = {mo['rendered']!r}", {"uri": u})
    # names: every reserved word, the generator's pools, random lower snake_case
    names = sorted(RESERVED_NAMES) + [n_ for n_, _ in SCALAR_EXTRAS] + [f["name"] for f in OTHER_EXTRAS] + [v[0].split(".")[0] for v in VARS]
    alpha = "abcxyz019_"
    for _ in range(n):
        s = r.choice("abcxyz_") + "".join(r.choice(alpha) for _ in range(r.randint(0, 9)))
        names.append(s)
    names = sorted(set(names))
    fdp = descriptor_pb2.FileDescriptorProto(name="c04names.proto", package="c04names", syntax="proto3")
    for i, nm in enumerate(names):           # one message per name: protoc rejects two fields with one JSON name
        fdp.message_type.add(name=f"M{i}").field.add(name=nm, number=1, type=9, label=1)
    pool = descriptor_pool.DescriptorPool()
    pool.Add(fdp)
    mo = ctx.driver.ask([{"op": "c04.names", "names": names}])[0]
    for i, nm in enumerate(names):
        ctx.traces += 1
        lower_snake = nm == nm.lower()
        if lower_snake and mo["camel"][i] != to_camel_case(nm):
            ctx.disagree("T2:c04.to_camel_case", f"{nm!r}: model {mo['camel'][i]!r} vs impl {to_camel_case(nm)!r}", {"name": nm})
        pj = pool.FindMessageTypeByName(f"c04names.M{i}").fields_by_name[nm].json_name
        if mo["json"][i] != pj:
            ctx.disagree("T2:c04.ToJsonName", f"{nm!r}: model {mo['json'][i]!r} vs protobuf {pj!r}", {"name": nm})
        rt = nm + "_" if nm in RESERVED_NAMES else nm
        if mo["rt"][i] != rt:
            ctx.disagree("T2:c04.Field.name", f"{nm!r}: model {mo['rt'][i]!r} vs impl {rt!r}", {"name": nm})
        hr = annotations_rule("get", "/v1/x", nm)
        parsed = wrappers.HttpRule.try_parse_http_rule(hr)
        if mo["body"][i] != parsed.body:
            ctx.disagree("T2:c04.body_rename", f"{nm!r}: model {mo['body'][i]!r} vs impl {parsed.body!r}", {"name": nm})


def annotations_rule(verb, uri, body):
    from google.api import http_pb2
    hr = http_pb2.HttpRule()
    setattr(hr, verb, uri)
    hr.body = body
    return hr


def t2_transcode(ctx, r, spec, codec, per_method):
    """reference transcode of the model vs google.api_core.path_template.transcode on dynamic messages"""
    from google.api_core import path_template
    from google.protobuf import json_format
    ops, metas = [], []
    for m in spec["methods"]:
        if m["kind"] != "http":
            continue
        desc = codec.pool.FindMessageTypeByName(in_full(m))
        for _ in range(per_method):
            val = gen_valuation(r, codec, m)
            if r.maybe(0.25):              # perturb a path variable: wrong literal, extra segment, empty
                allv = [v for b in m["bindings"] for v in b["vars"] if v[1] == "string"]
                if allv:
                    pth, _t, tm = r.pick(allv)
                    set_path(val, pth, r.pick(["x/y", "shelves", instantiate(r, tm) + "/z", "wrong/" + instantiate(r, tm), "a.b"]))
                    val = prune(desc, codec.normal(in_full(m), val))
            opts = [{"method": b["verb"], "uri": b["uri"], **({"body": b["body"]} if b["body"] else {})} for b in m["bindings"]]
            ops.append({"op": "c04.transcode", "fields": [fs["name"] for fs in m["fields"]],
                        "opts": [{"method": b["verb"], "uri": b["uri"], "body": b["body"]} for b in m["bindings"]],
                        "msg": leaves_of(desc, val)})
            metas.append((m, desc, val, opts))
    for (m, desc, val, opts), mo in zip(metas, ctx.driver.ask(ops)):
        if "unsupported" in mo:
            ctx.unsupported += 1
            continue
        ctx.traces += 1
        pb = codec.cls(in_full(m))()
        json_format.ParseDict(val, pb, descriptor_pool=codec.pool)
        try:
            t = path_template.transcode(opts, pb)
            def dump(x):
                return json_format.MessageToDict(x, preserving_proto_field_name=True, descriptor_pool=codec.pool)
            impl = {"method": t["method"], "uri": t["uri"], "query": sorted(map(jdump, leaves_of(desc, dump(t["query_params"]))))}
            if "body" in t:
                bdesc = t["body"].DESCRIPTOR
                impl["body"] = sorted(map(jdump, leaves_of(bdesc, dump(t["body"]))))
            else:
                impl["body"] = None
        except ValueError:
            impl = None
        mr = mo["result"]
        if mr is not None:
            mr = {"method": mr["method"], "uri": mr["uri"], "query": sorted(map(jdump, mr["query"])),
                  "body": None if mr["body"] is None else sorted(map(jdump, mr["body"]))}
        ctx.count("transcode", "no-binding" if impl is None else "ok")
        if mr != impl:
            ctx.disagree("T2:c04.transcode", f"model {mr} vs api-core {impl}", {"method": m, "request": val})

# --------------------------------------------------------------------------------------------- T3


def t3_model(ctx, spec, codec, plans):
    ops = []
    for p in plans:
        m = next(x for x in spec["methods"] if x["name"] == p["method"])
        desc = codec.pool.FindMessageTypeByName(in_full(m))
        ops.append({"op": "c04.call", "method": method_json(m), "numeric": spec["numeric"], "req": leaves_of(desc, p["request"])})
    out = ctx.driver.ask(ops)
    sts = sorted({p.get("status", 200) for p in plans})
    raises = {st: x["raises"] for st, x in zip(sts, ctx.driver.ask([{"op": "c04.reply", "status": st} for st in sts]))}
    for p, mo in zip(plans, out):
        mo["reply_raises"] = raises[p.get("status", 200)]
    return out


DEFAULT_FAMILY = ("dup:path+query-required-default", "dup:body+query-required-default", "required-default-missing")


def t3_compare(ctx, spec, codec, m, p, res, mo, orc=None):
    payload = {"spec": one_method_spec(spec, m), "plan": p}
    if "unsupported" in mo:
        ctx.unsupported += 1
        return
    ctx.traces += 1
    if "raised" in mo:
        ctx.count("model_outcome", mo["raised"])
        if res.get("raised") != mo["raised"] or res.get("server"):
            ctx.disagree("T3:c04.outcome", f"{m['name']}: model raises {mo['raised']}, impl {res.get('raised') or 'returns'} "
                         f"({res.get('msg', '')[:120]})", payload)
        return
    ctx.count("model_outcome", "sent")
    if len(res.get("server", [])) != 1 or ("ok" not in res and res.get("raised") in LOCAL_ERRORS):
        ctx.disagree("T3:c04.outcome", f"{m['name']}: model sends {mo['verb']} {mo['uri']}, impl raised {res.get('raised')}: {res.get('msg', '')[:200]}", payload)
        return
    if mo["reply_raises"] != ("ok" not in res):
        ctx.disagree("T3:c04.reply_status", f"{m['name']}: HTTP {p.get('status', 200)}: model {'raises' if mo['reply_raises'] else 'parses'}, "
                     f"impl {'raised ' + str(res.get('raised')) if 'ok' not in res else 'returned'}", payload)
    # hypothesis coverage of `no_duplication`/`added_iff_unbound_unset`: where `Agree` holds the oracle must be silent about defaults
    ctx.count("agree_hypothesis", {True: "holds", False: "fails", None: "n/a"}[mo.get("agree")])
    if orc is not None:
        fam = sorted(k_ for k_ in orc["keys"] if k_.startswith(DEFAULT_FAMILY))
        if mo.get("agree") is True and fam:
            ctx.disagree("T3:c04.agree_implies_no_default_defect", f"{m['name']}: Agree holds for binding {mo.get('binding')} yet the oracle reports {fam}", payload)
        if orc["candidates"] == 1 and mo.get("binding") is not None and orc["k"] != mo["binding"]:
            ctx.disagree("T3:c04.binding", f"{m['name']}: model uses binding {mo['binding']}, the observed path instantiates binding {orc['k']}", payload)
    rec = res["server"][0]
    desc = codec.pool.FindMessageTypeByName(in_full(m))
    if rec["verb"].lower() != mo["verb"] or urllib.parse.unquote(rec["path"]) != mo["uri"]:
        ctx.disagree("T3:c04.verb_path", f"{m['name']}: model {mo['verb']} {mo['uri']!r} vs impl {rec['verb']} {urllib.parse.unquote(rec['path'])!r}", payload)
    got_q = sorted(urllib.parse.parse_qsl(rec["query"], keep_blank_values=True))
    want_q = sorted((a, b) for a, b in mo["flat"])
    if got_q != want_q:
        ctx.disagree("T3:c04.query", f"{m['name']}: model {want_q} vs impl {got_q}", payload)
    if rec["body"] == "":
        got_b = None
    else:
        try:
            obj = json.loads(rec["body"])
            k = select_binding(m, p["request"])
            bd = m["bindings"][k]["body"] if k is not None else None
            bdesc = desc if bd in (None, "*") else desc.fields_by_name[bd].message_type
            got_b = sorted(map(jdump, observed_leaves(codec, bdesc, obj)))
        except Exception as e:  # noqa
            got_b = [f"?{type(e).__name__}"]
    want_b = None if mo["body"] is None else sorted(map(jdump, mo["body"]))
    if got_b != want_b:
        ctx.disagree("T3:c04.body", f"{m['name']}: model {want_b} vs impl {got_b}", payload)

# --------------------------------------------------------------------------------------------- corpus, sweep, entry points

import os
CORPUS = os.path.join(os.path.dirname(os.path.dirname(os.path.dirname(os.path.abspath(__file__)))), "corpus", "C04")


def run_corpus(ctx):
    """minimised past failures first, on every run (DESIGN §3.1): each must still fail with its recorded key;
    `subpkg_*.json` are the deterministic sub-package layout cases (several plans, must pass)"""
    r = ctx.rng("corpus")
    stale = []
    known = {f["key"] for f in ctx.known}
    for fn in sorted(os.listdir(CORPUS)) if os.path.isdir(CORPUS) else []:
        if not fn.endswith(".json"):
            continue
        with open(os.path.join(CORPUS, fn)) as fh:
            blob = json.load(fh)
        before = len(ctx.failures)
        pl = blob["payload"]
        run_api(ctx, r, pl["spec"], "corpus:" + fn, plans=pl.get("plans") or [pl["plan"]])
        keys = {f["key"] for f in ctx.failures[before:]}
        if blob["key"] not in known:        # a repaired defect: kept as a regression input, any failure is a violation
            ctx.count("corpus", fn + (":regression-passes" if not keys else ":REGRESSION-FAILS"))
            continue
        ctx.count("corpus", fn + (":reproduced" if blob["key"] in keys else ":NOT-reproduced"))
        if blob["key"] not in keys:
            stale.append(fn)
    if stale:
        ctx.notes["corpus_entries_not_reproduced"] = stale


def sweep_spec(words, numeric):
    """every reserved word as path variable, as body field, as (required) query field"""
    methods = []
    for i, w in enumerate(words):
        methods.append({"name": f"PathWord{i}", "kind": "http", "out": "Book",
                        "fields": [{"name": w, "type": "string"}, {"name": "q", "type": "string"}],
                        "bindings": [{"verb": "get", "uri": "/v1/{" + w + "=things/*}", "body": None, "vars": [[w, "string", "things/*"]]}]})
        methods.append({"name": f"BodyWord{i}", "kind": "http", "out": "Empty",
                        "fields": [{"name": "id", "type": "string"}, {"name": w, "type": "message", "type_name": "Book"}, {"name": "note", "type": "string"}],
                        "bindings": [{"verb": "post", "uri": "/v1/things/{id}", "body": w, "vars": [["id", "string", None]]}]})
        methods.append({"name": f"QueryWord{i}", "kind": "http", "out": "Book",
                        "fields": [{"name": "id", "type": "string"}, {"name": w, "type": "int32", "required": True}],
                        "bindings": [{"verb": "get", "uri": "/v1/things/{id}", "body": None, "vars": [["id", "string", None]]}]})
    return {"numeric": numeric, "transport": "rest", "methods": methods}


def sweep(ctx, words, label):
    r = ctx.rng("sweep", label)
    spec = sweep_spec(words, r.maybe())
    codec = rpc.Codec(build_files(spec))
    plans = []
    for i, w in enumerate(words):
        book = rpc.rand_msg(r, codec, f"{PKG}.Book", p_set=0.4)
        for (name, reqs) in ((f"PathWord{i}", [{w: "things/" + r.pick(SEGS), "q": "x y"}]),
                             (f"BodyWord{i}", [{"id": r.pick(SEGS), w: {"title": "t", "pages": 3}, "note": "n"}]),
                             (f"QueryWord{i}", [{"id": r.pick(SEGS)}, {"id": r.pick(SEGS), w: 5}])):
            m = next(x for x in spec["methods"] if x["name"] == name)
            for rq in reqs:
                reply = {} if m["out"] == "Empty" else book
                plans.append({"method": name, "request": codec.normal(in_full(m), rq), "reply": reply,
                              "reply_json": to_reply_json(r, codec, out_full(m), reply, spec["numeric"]), "mode": "request-instance"})
    for w in words:
        ctx.count("reserved_words_swept", w)
    run_api(ctx, r, spec, "sweep:" + label, plans=plans)


def run(ctx):
    ctx.rule = ("one API = 6 methods with 1..3 http bindings (five verbs, `*`/field/absent body, top-level and nested path variables, "
                "reserved words as top-level name / leaf / non-leaf segment, with and without sub-templates, `**`, `:verb` suffixes, required "
                "fields of every scalar kind or none at all, REQUIRED fields with presence (proto3 `optional` scalars, members of a real oneof; "
                "valuations leave them unset / set them to the default explicitly / set something else), enums, repeated scalars, nested messages, well-known types, proto3-optional, "
                "oneof, maps/repeated messages for bodies) + a method without usable binding (+ sometimes the AIP-134 PATCH/update_mask shape "
                "and a client-streaming method) x rest-numeric-enums {off,on} x transport {rest, grpc+rest} x package layout {one file in the API "
                "package (1/2); every service in a sub-package with the shared messages in the API package; one service in the API package "
                "and one in a sub-package; the service in the API package with request/response messages in a sub-package (1/6 each; "
                "sub-package of depth 1 or 2, each request message in either package, 30% with one equally named file per package); all "
                "with autogen-snippets=false; one REST session per service} x 4..6 random valuations per "
                "method (path values needing percent-encoding) passed as instance / dict / hand-written literal dict, scripted JSON replies "
                "with statuses 200..503, two calls repeated on the same client; a case is distinct by (bindings, request, numeric); "
                "non-trivial = non-empty request or a method without binding")
    ctx.assume("path-variable values contain no `?`, `#`, `%` and no `/` inside a single-segment variable: api-core substitutes them "
               "unencoded (URL-encoding of api-core/requests is outside the property, DESIGN 7.4)")
    ctx.assume("path variables are singular string/int32/int64 fields; body fields are singular message fields (google.api.http's own rule)")
    ctx.assume("fields left to the query string are scalar, repeated scalar, or non-repeated message without map/repeated-message/Struct "
               "members (google.api.http's own rule; flatten_query_params raises otherwise); set-but-empty sub-messages are not generated")
    ctx.assume("an UNSET required scalar WITH PRESENCE (proto3 optional, oneof member) must travel default-valued like any required scalar; the "
               "receiver then sees it SET to the default: exactly these query parameters are set aside before the lossless comparison. For "
               "REQUIRED members of a real oneof the statement's two clauses pull apart (`pickS=x&pickN=0` selects two members); the literal "
               "'every required scalar travels' clause is what is checked, and the unchanged tree follows it uniformly (no finding)")
    ctx.assume("a required ENUM field is not a 'required scalar field': the template deliberately writes {} for it (nothing is sent)")
    ctx.assume("generated field names are lower snake_case (style guide); the excluded point (a required field called `userID`: "
               "to_camel_case differs from the JSON name) is replayed from the corpus and is a known finding")
    ctx.assume("google.api.http.response_body is not generated: the generator ignores it (probe: `response_body: \"book\"`, the server "
               "answers with the Book, the client returns an EMPTY response message); not in the property's quantifier, reported to the coordinator")
    ctx.assume("error replies: only the `status >= 400 raises / else parses` split is compared with the model; the exception class is api-core's")
    ctx.assume("LRO, server-streaming framing and custom verbs with usable additional bindings are not exercised (C08 / not covered)")
    load_reserved()
    run_corpus(ctx)
    t2_functions(ctx, ctx.rng("functions"), ctx.n(300, 4000))
    words = sorted(RESERVED)
    rs = ctx.rng("sweepwords")
    if ctx.quick:
        sweep(ctx, rs.sample(words, 6), "quick")
    else:
        for k in range(0, len(words), 10):
            sweep(ctx, words[k:k + 10], f"w{k}")
        ctx.exhaustive = {"reserved_words_as_path_variable_body_field_query_field": len(words)}
    r = ctx.rng("apis")
    for a in range(ctx.n(18, 300)):
        run_api(ctx, r, gen_api(r, a), f"api{a}")


def search(ctx):
    r = ctx.rng("search")
    for a in range(40):
        run_api(ctx, r, gen_api(r, a), f"search{a}", ncalls=6)


def replay(ctx, payload):
    import leanio
    ctx.driver = leanio.Driver()
    load_reserved()
    if "spec" not in payload:
        print("  (function-level payload; nothing to replay against the emitted library)", payload)
        return True
    plans = payload.get("plans") or ([payload["plan"]] if "plan" in payload else None)
    run_api(ctx, ctx.rng("replay"), payload["spec"], "replay", plans=plans)
    for f in ctx.failures:
        print("  failure:", f["key"], "-", f["what"][:400])
    for d in ctx.disagreements:
        print("  disagreement:", d["correspondence"], "-", d["what"][:400])
    return not ctx.failures


CLAIM = dict(
    text=("Lean 4 proofs about an executable model of the generator's http-rule handling (try_parse_http_rule, convert_uri_fieldnames, "
          "http_options, path_params, query_params, required-field defaults) and of the emitted REST call over an abstract transcoder with a "
          "stated specification: reserved-name rewriting of URI templates only renames variables and is invertible; a reference transcoder "
          "meets the specification; for every successful call the set fields of the request are partitioned into path, body and query "
          "(nothing lost, nothing twice), verb and path instantiate a declared binding, every required field the generator leaves to the "
          "query is present under its JSON name (camel_case = ToJsonName on lower snake_case), added defaults belong to unbound fields whenever "
          "the generator's query_params table agrees with the binding used (proved for the primary binding under an explicit template-reading "
          "hypothesis) and then exactly for the required fields that binding leaves unbound and the caller left unset, `$alt` is sent iff numeric "
          "enums are on, the first declared binding that applies is used, a reply is parsed iff its status is below 400, and exactly the "
          "methods without usable binding (or client-streaming) raise NotImplementedError; counterexample theorems for the ways the real code "
          "still violates the statement and regression theorems for the repaired ones. Tie: T1 bridge for RESERVED_NAMES; "
          "T2 the real schema functions, uri_conv, to_camel_case, protobuf ToJsonName and google.api_core.path_template.transcode vs the model; "
          "T3 the emitted REST transport against a loopback HTTP server vs the model; a model-independent oracle that re-assembles the request "
          "from path variables, JSON body and query string under the input descriptors."),
    technique="Lean 4 theorems over an executable model with an external-transcoder specification + differential T2/T3 + re-assembly oracle on the emitted REST transport",
    design="7.4",
    note=("Relative to the stated specification of path_template.transcode (validated differentially, not proved about api-core) and to protobuf's "
          "JSON codec (not modelled: the harness supplies scalar texts). URL-encoding by requests/api-core, REST streaming and LRO are not covered. "
          "The agreement of the two template readings (path_params regex vs _VARIABLE_RE) is a hypothesis of agree_primary, discharged per instance. "
          "The model has no notion of package: half of the generated APIs put services and/or request/response messages into a proto sub-package "
          "(per-service templates rendered with a sub-package view of the API); oracle and model comparison run on them unchanged. "
          "FieldD carries the presence kind (implicit / proto3 optional / oneof member); requiredDefaults_presence_irrelevant proves the defaults "
          "table does not depend on it, required_defaults_skipping_oneof_counterexample refutes the table that skips `Field.oneof` fields."),
)
