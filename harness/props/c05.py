"""C05 — flattened keyword arguments are equivalent to an explicit request object (DESIGN §7.5).

One case = one generated API (several methods, each with 0..3 method signatures over top-level and
dotted paths of every field kind, requests from the API's package or from an installed dependency
package) x call plans (a subset of <= 4 flattened arguments with values) x {sync, asyncio}.

* T2   real `Method.flattened_fields` / `_fields_mapping` / `get_field`  vs  Lean `fieldsMapping`;
* T3   the emitted clients against a loopback gRPC server: `inspect.signature`, request bytes of the
       kwargs call, of the request call and of the mixed call  vs  Lean `call` / `emitCheck`;
* oracle (model-independent): parameter names and order as declared; kwargs call == request call on the
  wire (decoded under the INPUT descriptors); mixed call raises ValueError and nothing reaches the server;
  sync == asyncio.
Package LAYOUTS (second deepening round): the service and every request message are each declared in the API's root
package, in a sub-package, in a nested sub-package or in a sibling sub-package (`spec["svc_sub"]`, `method["pkg"]`); the
two facts the templates branch on — request package != service package, owner is a proto-plus type — are DERIVED by the
model from the packages (`c05.mapping` in derived mode, `c05.packages`) and compared with the real schema objects.
Shapes on which the real code is known to break the statement are kept out of the random stream only
when they would take the whole emitted module down (SyntaxError / generator crash); they are replayed
from corpus/C05 on every run, together with the regression inputs of repaired defects (which must pass).
"""
from __future__ import annotations
import copy, glob, json, os
import apigen, genrun, libhost, rpc

HERE = os.path.dirname(os.path.abspath(__file__))
ROOT = os.path.dirname(os.path.dirname(HERE))
PKG = "acme.lib.v1"

# ------------------------------------------------------------------------------------------------
# the statement's own vocabulary (independent of /repo's tables and of the Lean model)
import keyword as _kw
PY_KEYWORDS = set(_kw.kwlist)
FIXED_PARAMS = ["request", "retry", "timeout", "metadata"]


def statement_reserved():
    """The words the generator promises to suffix (gapic.utils.reserved_names) — read, not copied:
    which words are reserved is an input of the property, how they are treated is what is checked."""
    from gapic.utils.reserved_names import RESERVED_NAMES
    return set(RESERVED_NAMES)


# ------------------------------------------------------------------------------------------------
# API shapes.  Field kinds of a request message of the API's own package:
#   name -> (builder kind, extra)
FIELD_KINDS = {
    "parent": ("string",), "title": ("string",), "class": ("string",), "type": ("string",), "format": ("string",),
    "count": ("int32",), "big": ("int64",), "ubig": ("uint64",), "ok": ("bool",), "blob": ("bytes",), "ratio": ("double",),
    "color": ("enum", "Color"), "book": ("message", "Book"), "inner": ("message", "Inner"), "any": ("message", "Inner"),
    "mask": ("message", ".google.protobuf.FieldMask"), "ttl": ("message", ".google.protobuf.Duration"),
    "meta": ("message", ".google.protobuf.Struct"), "val": ("message", ".google.protobuf.Value"),
    "tags": ("string", "rep"), "nums": ("int32", "rep"), "colors": ("enum", "Color", "rep"),
    "books": ("message", "Book", "rep"), "vals": ("message", ".google.protobuf.Value", "rep"),
    "list": ("string", "rep"),
    "labels": ("map", "string", "string"), "bmap": ("map", "string", "message", "Book"), "imap": ("map", "int32", "string"),
    "opt": ("int32", "optional"), "choice_a": ("string", "oneof"), "choice_b": ("int32", "oneof"),
    "part": ("message", ".acme.lib.v1.common.Part"),
    "next": ("string",), "import": ("message", "Inner"), "retry": ("string",), "timeout": ("message", ".google.protobuf.Duration"),
    # well-known types as LEAVES (proto-plus marshals them: datetime, timedelta, plain scalars, native JSON values)
    "ts": ("message", ".google.protobuf.Timestamp"), "wrapped": ("message", ".google.protobuf.Int32Value"),
    "swrap": ("message", ".google.protobuf.StringValue"), "bwrap": ("message", ".google.protobuf.BoolValue"),
    "lv": ("message", ".google.protobuf.ListValue"), "tss": ("message", ".google.protobuf.Timestamp", "rep"),
    "ttls": ("message", ".google.protobuf.Duration", "rep"), "vmap": ("map", "string", "message", ".google.protobuf.Value"),
    "blobs": ("bytes", "rep"), "flags": ("bool", "rep"), "ratios": ("double", "rep"), "bigs": ("int64", "rep"),
    "opt_s": ("string", "optional"), "opt_b": ("bool", "optional"), "opt_color": ("enum", "Color", "optional"),
    "opt_book": ("message", "Book", "optional"), "choice_c": ("message", "Inner", "oneof"),
    # raw protobuf messages of dependency packages inside a request of the API's own package (no marshal rule:
    # `request.status` IS the protobuf object)
    "status": ("message", ".google.rpc.Status"), "policy": ("message", ".google.iam.v1.Policy"),
    "op": ("message", ".google.longrunning.Operation"),
}
# fields for which proto-plus `to_dict` output is not a valid request dict (int map keys / int64 as text, Value items and Any
# as bare python values): the bytes-derived "request-dict" mode is not used with them (the literal mode writes real dicts)
NO_TO_DICT = {"imap", "vals", "val", "meta", "vmap", "lv", "bigs", "big", "ubig", "status", "policy", "op"}
# request messages defined in a SUB-PACKAGE file of the API (`acme.lib.v1.common`) while the service stays in the root package:
# proto-plus types whose package differs from the service's — the templates' "different package" branch with a proto-plus owner
SUB_FIELDS = ["parent", "title", "class", "type", "format", "count", "big", "ok", "blob", "ratio", "tags", "nums", "list", "blobs",
              "flags", "ratios", "bigs", "labels", "imap", "next", "part", "opt", "opt_s", "choice_a", "choice_b", "ts", "meta"]
RAW_FILES = {"status": "google/rpc/status.proto", "policy": "google/iam/v1/policy.proto", "op": "google/longrunning/operations.proto"}
OPTIONALS = ("opt", "opt_s", "opt_b", "opt_color", "opt_book")
# fixed helper messages: (name, kind…) in declaration order; numbers deliberately not ascending
INNER_FIELDS = [("title", 4, "string"), ("count", 2, "int32"), ("marks", 7, "string", "rep"), ("class", 1, "string"),
                ("flag", 9, "bool"), ("notes", 3, "map"), ("hue", 6, "enum"), ("blob", 5, "bytes"), ("big", 8, "int64"),
                ("tags", 10, "string", "rep")]
BOOK_FIELDS = [("name", 2, "string"), ("inner", 5, "message", "Inner"), ("type", 1, "message", "Inner"),
               ("import", 9, "message", "Inner"), ("pages", 3, "int32"), ("mask", 4, "message", ".google.protobuf.FieldMask"),
               ("labels", 7, "map"), ("title", 8, "string")]

DEP_REQUESTS = {
    ".google.iam.v1.SetIamPolicyRequest": ("google/iam/v1/iam_policy.proto", ["resource", "policy.version", "policy.etag", "policy", "update_mask"]),
    ".google.iam.v1.GetIamPolicyRequest": ("google/iam/v1/iam_policy.proto", ["resource", "options.requested_policy_version", "options"]),
    ".google.iam.v1.TestIamPermissionsRequest": ("google/iam/v1/iam_policy.proto", ["resource", "permissions"]),
    ".google.longrunning.ListOperationsRequest": ("google/longrunning/operations.proto", ["name", "filter", "page_size", "page_token"]),
    ".google.longrunning.GetOperationRequest": ("google/longrunning/operations.proto", ["name"]),
    ".google.cloud.location.ListLocationsRequest": ("google/cloud/location/locations.proto", ["name", "filter", "page_size"]),
    ".google.rpc.Status": ("google/rpc/status.proto", ["code", "message", "details"]),
    ".google.type.Expr": ("google/type/expr.proto", ["expression", "title", "description", "location"]),
    # reserved word as a field name of a dependency message (corpus only: the generator aborts)
    ".google.api.ResourceDescriptor": ("google/api/resource.proto", ["type", "pattern", "name_field"]),
    ".google.longrunning.WaitOperationRequest": ("google/longrunning/operations.proto", ["name", "timeout"]),
    # two and more repeated scalar fields (regression for fix: 9d33fc0 — IndentationError in the sync client)
    ".google.protobuf.FileDescriptorProto": ("google/protobuf/descriptor.proto", ["name", "package", "dependency", "public_dependency"]),
}
# every dependency request is generated; only the TRIGGERS of the two module-level findings are kept out of the random
# signatures (a reserved-word field of a raw dependency message: generator KeyError; a field called like a fixed parameter:
# duplicate argument) — `gen_method` filters those fields, not the messages
SAFE_DEPS = list(DEP_REQUESTS)

# dotted paths below the helper messages that the random stream may use
SUB_PATHS = {
    "book": ["name", "inner", "inner.title", "inner.count", "inner.marks", "inner.class", "inner.notes", "inner.hue",
             "inner.flag", "type", "type.title", "type.count", "type.marks", "import.title", "import.class", "import.marks",
             "pages", "labels", "mask", "title"],
    "inner": ["title", "count", "marks", "class", "notes", "hue", "blob", "big"],
    "any": ["title", "count", "class"],
    "import": ["title", "count", "marks", "class"],       # a keyword in NON-terminal position (§9-F2, repaired by a0434d5)
    "opt_book": ["name", "pages"],
    "part": ["title", "count", "marks"],
    "choice_c": ["title"],
    # paths INTO raw protobuf sub-messages: scalars work, repeated / message fields run into protobuf's assignment rules
    "status": ["code", "message", "details"],
    "policy": ["version", "etag", "bindings"],
    "op": ["name", "done", "error"],
    "mask": ["paths"],
}
RAW_RISKY = {"op.error"}        # a MESSAGE field of a raw owner: open finding, kept rare (replayed from the corpus)
# paths INTO a well-known type that proto-plus hands out as a python value (timedelta, datetime, scalar-or-None, native JSON):
# the emitted `request.ttl.seconds = seconds` raises AttributeError in both clients — open finding, kept rare (corpus)
MARSHAL_PATHS = {"ttl": ["seconds"], "ts": ["seconds"], "wrapped": ["value"], "swrap": ["value"], "lv": ["values"],
                 "meta": ["fields"], "val": ["string_value"]}
for _k, _v in MARSHAL_PATHS.items():
    SUB_PATHS.setdefault(_k, []).extend(_v)
MARSHAL_RISKY = {f"{k}.{x}" for k, v in MARSHAL_PATHS.items() for x in v}
MARSHALLED = {"google.protobuf.Timestamp", "google.protobuf.Duration", "google.protobuf.Struct", "google.protobuf.Value",
              "google.protobuf.ListValue", "google.protobuf.DoubleValue", "google.protobuf.FloatValue", "google.protobuf.Int64Value",
              "google.protobuf.UInt64Value", "google.protobuf.Int32Value", "google.protobuf.UInt32Value", "google.protobuf.BoolValue",
              "google.protobuf.StringValue", "google.protobuf.BytesValue"}
# sub-packages (below acme.lib.v1) a service / a request message may be declared in
SVC_SUBS = ["admin", "admin", "admin.deep", "common"]
REQ_SUBS = ["", "common", "common.deep", "admin", "admin.deep", "other"]


def gen_method(r: apigen.Rng, idx: int, svc_sub=None):
    """one method of the 'flatten' profile (DESIGN §7.5 generator); `svc_sub` not None = general package layout"""
    if r.maybe(0.22):
        dep = r.pick(SAFE_DEPS)
        from gapic.utils.reserved_names import RESERVED_NAMES
        pool = [p for p in DEP_REQUESTS[dep][1] if not any(seg in RESERVED_NAMES for seg in p.split("."))]
        m = {"name": f"Dep{idx}", "dep": dep, "fields": None}
    else:
        general = svc_sub is not None
        pkg = None
        if general and r.maybe(0.55):
            pkg = r.pick([x for x in REQ_SUBS if x != svc_sub] + ([svc_sub + ".sub", "", ""] if svc_sub else []))
        sub = (not general) and r.maybe(0.15)
        allowed = [n for n in (SUB_FIELDS if sub else FIELD_KINDS) if n not in ("parent", "retry", "timeout")]
        if general and svc_sub.split(".")[0] == "common" and pkg is not None and pkg.split(".")[0] < "common":
            # python import cycle of the emitted package (not this property's subject, reported to the coordinator): the root
            # __init__ imports the sub-packages alphabetically; a type of `admin` that needs a type of `common` (Part) pulls in
            # common/__init__, hence the service, hence the half-initialised admin module
            allowed = [n for n in allowed if n != "part"]
        names = ["parent"] + r.sample(allowed, r.randint(3, 9))
        if "choice_b" in names and "choice_a" not in names:
            names.append("choice_a")
        if "choice_c" in names and "choice_a" not in names:
            names.append("choice_a")
        for o in OPTIONALS:               # synthetic oneofs (proto3 optional) come after the real ones, as protoc orders them
            if o in names:
                names.remove(o); names.append(o)
        numbers = r.sample(range(1, 60), len(names))
        m = {"name": f"{'Sub' if sub else 'Pkg' if pkg is not None else 'Op'}{idx}", "dep": None, "fields": [[n, num] for n, num in zip(names, numbers)]}
        if sub:
            m["sub"] = True
        if pkg is not None:
            m["pkg"] = pkg
        pool = []
        for n in names:
            pool.append(n)
            for sp in SUB_PATHS.get(n, []):
                # (the paths known to run into protobuf's assignment rules / into marshalled values are kept rare: they are
                # replayed from the corpus)
                if r.maybe(0.08 if f"{n}.{sp}" in RAW_RISKY else 0.05 if f"{n}.{sp}" in MARSHAL_RISKY else 0.5):
                    pool.append(f"{n}.{sp}")
    nsig = r.pick([0, 1, 1, 2, 2, 3])
    sigs, used_terminal, used_oneof = [], set(FIXED_PARAMS), False
    chosen = []
    for _ in range(nsig):
        k = r.pick([0, 1, 1, 2, 2, 3, 4])
        parts = []
        for p in r.sample(pool, min(k, len(pool))):
            term = p.split(".")[-1]
            segs = p.split(".")
            if p in chosen:
                parts.append(p)           # the same key may recur in a later signature (ordered-dict semantics)
                continue
            if term in used_terminal:     # two keys with one parameter name: SyntaxError in the emitted def (corpus)
                continue
            if p.startswith("choice_"):
                if used_oneof:
                    continue
                used_oneof = True
            used_terminal.add(term)
            chosen.append(p)
            parts.append(p)
        sep = r.pick([",", ",", ", "])
        sigs.append(sep.join(parts))
    if r.maybe(0.2) and chosen:
        # AIP-4232 style overloads: every signature a prefix of the next one
        k = r.randint(1, min(4, len(chosen)))
        sigs = [",".join(chosen[:j]) for j in range(1, k + 1)]
    if r.maybe(0.15):
        sigs.insert(r.randint(0, len(sigs)), "")   # the empty signature, anywhere in the list
    m["sigs"] = sigs
    if r.maybe(0.06):
        m["cs"] = True                    # client-streaming: `requests` iterator, no flattened parameter at all
    return m


def _pkg(sub):
    return PKG + ("." + sub if sub else "")


def svc_package(spec):
    """proto package of the file declaring the service"""
    return _pkg((spec or {}).get("svc_sub") or "")


def req_sub(m, spec=None):
    """sub-package (below the API's package; "" = the root) of the file declaring the request message of a method:
    `pkg` when given, "common" for the legacy `sub` flag, else the service's own package"""
    if m.get("pkg") is not None:
        return m["pkg"]
    if m.get("sub"):
        return "common"
    return (spec or {}).get("svc_sub") or ""


def general_layout(spec):
    return bool(spec.get("svc_sub")) or any(m.get("pkg") is not None for m in spec["methods"])


def input_of(m, spec=None):
    """(full name of the request message, request package differs from the service's package)"""
    if m["dep"]:
        return m["dep"].lstrip("."), True
    rp = _pkg(req_sub(m, spec))
    return f"{rp}.{m['name']}Request", rp != svc_package(spec)


def sub_spec(spec, methods):
    """the spec reduced to some methods, package layout kept"""
    return dict({k: v for k, v in spec.items() if k != "methods"}, methods=methods)


def gen_spec(r: apigen.Rng, nmethods=6):
    if r.maybe(0.3):
        # general package layout: the service in the root package or in a (nested) sub-package, every request with the service,
        # in the root package, or in another (nested / sibling / deeper) sub-package
        svc_sub = r.pick(SVC_SUBS + ["", ""])
        return {"svc_sub": svc_sub, "methods": [gen_method(r, i, svc_sub) for i in range(nmethods)]}
    return {"methods": [gen_method(r, i) for i in range(nmethods)]}


# ------------------------------------------------------------------------------------------------
# spec -> descriptors

def _add(msg, name, number, kind, *extra, oneof=None):
    if kind == "map":
        extra = [e for e in extra if e not in ("rep",)]
        if not extra:
            return msg.map_field(name, "string", "string", number)
        if extra[1] == "message":
            vt = extra[2] if extra[2].startswith(".") else f".{PKG}.{extra[2]}"
            return msg.map_field(name, extra[0], "message", number, vtype_name=vt)
        return msg.map_field(name, extra[0], extra[1], number)
    rep = "rep" in extra
    optional = "optional" in extra
    of = "choice" if "oneof" in extra else None
    extra = [e for e in extra if e not in ("rep", "optional", "oneof")]
    tn = None
    if kind in ("message", "enum"):
        tn = extra[0] if extra[0].startswith(".") else f".{PKG}.{extra[0]}"
    elif kind == "enum":
        tn = f".{PKG}.Color"
    return msg.field(name, kind, number, repeated=rep, type_name=tn, optional=optional, oneof=of)


def _helpers(f):
    f.enum("Color", ["COLOR_UNSPECIFIED", "RED", "BLUE"])
    inner = f.msg("Inner")
    for (n, num, kind, *ex) in INNER_FIELDS:
        if kind == "enum":
            _add(inner, n, num, "enum", "Color")
        else:
            _add(inner, n, num, kind, *ex)
    book = f.msg("Book")
    for (n, num, kind, *ex) in BOOK_FIELDS:
        _add(book, n, num, kind, *ex)
    return book


def _part(common):
    part = common.msg("Part")
    for (n, num, kind, *ex) in [("title", 2, "string"), ("count", 5, "int32"), ("marks", 1, "string", "rep"), ("class", 3, "string")]:
        _add(part, n, num, kind, *ex)


def build_files_general(spec):
    """general package layout.  resources.proto (root package: Color, Inner, Book) <- common/common.proto (Part) <- one
    requests file per request package <- the service's file (service + the requests of its own package)"""
    deps = sorted({DEP_REQUESTS[m["dep"]][0] for m in spec["methods"] if m["dep"]} |
                  {RAW_FILES[n] for m in spec["methods"] for n, _ in (m["fields"] or []) if n in RAW_FILES})
    svc_sub = spec.get("svc_sub") or ""
    res = apigen.File("acme/lib/v1/resources.proto", PKG)
    _helpers(res)
    part = apigen.File("acme/lib/v1/common/part.proto", SUBPKG)
    _part(part)
    files = {}
    order = [res, part]
    for m in spec["methods"]:
        sub = req_sub(m, spec)
        if m["dep"] or sub == svc_sub or sub in files:
            continue
        path = "acme/lib/v1/" + (sub.replace(".", "/") + "/" if sub else "") + "requests.proto"
        files[sub] = apigen.File(path, _pkg(sub)).dep(*deps).dep(res.name, part.name)
        order.append(files[sub])
    f = apigen.File("acme/lib/v1/" + (svc_sub.replace(".", "/") + "/" if svc_sub else "") + "lib.proto", _pkg(svc_sub))
    f.dep(*deps).dep(*[o.name for o in order])
    order.append(f)
    book = f".{PKG}.Book"
    svc = f.service("Library")
    for m in spec["methods"]:
        if m["dep"]:
            inp = m["dep"]
        else:
            sub = req_sub(m, spec)
            rq = (f if sub == svc_sub else files[sub]).msg(m["name"] + "Request")
            for n, num in m["fields"]:
                kd = FIELD_KINDS[n]
                _add(rq, n, num, kd[0], *kd[1:])
            inp = rq
        svc.method(m["name"], inp, book, sigs=m["sigs"], cs=bool(m.get("cs")))
    return order


def build_files(spec):
    if general_layout(spec):
        return build_files_general(spec)
    deps = sorted({DEP_REQUESTS[m["dep"]][0] for m in spec["methods"] if m["dep"]} |
                  {RAW_FILES[n] for m in spec["methods"] for n, _ in (m["fields"] or []) if n in RAW_FILES})
    anysub = any(m.get("sub") or any(n == "part" for n, _ in (m["fields"] or [])) for m in spec["methods"])
    f = apigen.File("acme/lib/v1/lib.proto", PKG).dep(*deps)
    common = None
    if anysub:
        common = apigen.File("acme/lib/v1/common/common.proto", SUBPKG)
        part = common.msg("Part")
        for (n, num, kind, *ex) in [("title", 2, "string"), ("count", 5, "int32"), ("marks", 1, "string", "rep"), ("class", 3, "string")]:
            _add(part, n, num, kind, *ex)
        f.dep("acme/lib/v1/common/common.proto")
    f.enum("Color", ["COLOR_UNSPECIFIED", "RED", "BLUE"])
    inner = f.msg("Inner")
    for (n, num, kind, *ex) in INNER_FIELDS:
        if kind == "enum":
            _add(inner, n, num, "enum", "Color")
        else:
            _add(inner, n, num, kind, *ex)
    book = f.msg("Book")
    for (n, num, kind, *ex) in BOOK_FIELDS:
        _add(book, n, num, kind, *ex)
    svc = f.service("Library")
    for m in spec["methods"]:
        if m["dep"]:
            inp = m["dep"]
        else:
            rq = (common if m.get("sub") else f).msg(m["name"] + "Request")
            for n, num in m["fields"]:
                kd = FIELD_KINDS[n]
                _add(rq, n, num, kd[0], *kd[1:])
            inp = rq
        svc.method(m["name"], inp, book, sigs=m["sigs"], cs=bool(m.get("cs")))
    return [common, f] if common is not None else [f]


# ------------------------------------------------------------------------------------------------
# valuations: proto-JSON with ONE deviation — a FieldMask is kept as {"paths": [...]} (its JSON form is a
# comma-joined string) so that a signature path may go INTO it ("update_mask.paths")
FM = "google.protobuf.FieldMask"


def _conv(desc, d, leaf):
    if not isinstance(d, dict):
        return d
    out = {}
    for name, v in d.items():
        fd = desc.fields_by_name.get(name)
        if fd is None or fd.message_type is None:
            out[name] = v
            continue
        mt = fd.message_type
        if mt.GetOptions().map_entry:
            vf = mt.fields_by_name["value"]
            if vf.message_type is not None and isinstance(v, dict):
                one = (lambda x, vf=vf: leaf(x) if vf.message_type.full_name == FM else _conv(vf.message_type, x, leaf))
                out[name] = {k: one(x) for k, x in v.items()}
            else:
                out[name] = v
        elif fd.label == fd.LABEL_REPEATED:
            out[name] = [leaf(x) if mt.full_name == FM else _conv(mt, x, leaf) for x in v] if isinstance(v, list) else v
        elif mt.full_name == FM:
            out[name] = leaf(v)
        elif mt.full_name in rpc.WKT_SAMPLES:
            out[name] = v
        else:
            out[name] = _conv(mt, v, leaf)
    return out


def _fm_str(v):
    return ",".join(v.get("paths", [])) if isinstance(v, dict) else v


def _fm_dict(v):
    return ({"paths": v.split(",")} if v else {}) if isinstance(v, str) else v


class Codec5(rpc.Codec):
    def encode(self, full, d):
        desc = self.pool.FindMessageTypeByName(full.lstrip("."))
        return super().encode(full, _conv(desc, d, _fm_str))

    def decode(self, full, data):
        desc = self.pool.FindMessageTypeByName(full.lstrip("."))
        return _conv(desc, super().decode(full, data), _fm_dict)


# ------------------------------------------------------------------------------------------------
# schema JSON for the Lean model, read off the INPUT descriptors (not off /repo's wrappers)

def schema_json(codec, roots):
    out, seen, todo = [], set(), [x.lstrip(".") for x in roots]
    while todo:
        full = todo.pop()
        if full in seen:
            continue
        seen.add(full)
        d = codec.pool.FindMessageTypeByName(full)
        fields = []
        for fd in d.fields:
            is_map = fd.message_type is not None and fd.message_type.GetOptions().map_entry
            if fd.message_type is not None:
                kind = ["msg", fd.message_type.full_name]
                if not is_map:
                    todo.append(fd.message_type.full_name)
            elif fd.enum_type is not None:
                kind = "enum"
            else:
                kind = "prim"
            fields.append({"name": fd.name, "number": fd.number, "kind": kind, "repeated": fd.label == fd.LABEL_REPEATED,
                           "map": bool(is_map), "value": fd.message_type is not None and fd.message_type.full_name == "google.protobuf.Value"})
        out.append({"full": full, "pkg": d.file.package, "proto_plus": d.file.package == PKG or d.file.package.startswith(PKG + "."),
                    "fields": fields})
    return out


# ------------------------------------------------------------------------------------------------
# the statement's reading of a signature list (oracle side; a dozen lines, no /repo logic)

def declared_paths(sigs):
    """field paths in declared order, first occurrence only"""
    out = []
    for s in sigs:
        for part in s.split(","):
            p = part.strip()
            if p and p not in out:
                out.append(p)
    return out


def walk(codec, full, path):
    """descriptors along a dotted path: [(owner descriptor, field descriptor)], or None when the path does not resolve"""
    d = codec.pool.FindMessageTypeByName(full.lstrip("."))
    out = []
    segs = path.split(".")
    for i, s in enumerate(segs):
        if d is None or s not in d.fields_by_name:
            return None
        fd = d.fields_by_name[s]
        out.append((d, fd))
        last = i == len(segs) - 1
        if not last:
            if fd.label == fd.LABEL_REPEATED or fd.message_type is None:
                return None
        d = fd.message_type
    return out


SUBPKG = PKG + ".common"


def is_own(d):
    """a generated (proto-plus) type: the API's package or one of its sub-packages"""
    return d.file.package == PKG or d.file.package.startswith(PKG + ".")


def types_module(root_mod, d):
    """python module of the generated types of `d`'s package (`root_mod` = acme.lib_v1)"""
    sub = d.file.package[len(PKG) + 1:]
    return root_mod + ("." + sub if sub else "") + ".types"


def py_attr(owner, fd, reserved):
    """python attribute of a field: the name, with `_` when it is a reserved word of a generated (proto-plus) class"""
    return fd.name + ("_" if fd.name in reserved and is_own(owner) else "")


def expected_params(codec, input_full, sigs, reserved, cross):
    """[(path, param, attrpath, chain)] the statement promises, in order.  For a dependency-package request the
    documented behaviour drops message/enum typed fields (they cannot be assigned on a raw protobuf object)."""
    out = []
    for p in declared_paths(sigs):
        ch = walk(codec, input_full, p)
        if ch is None:
            return None
        owner, fd = ch[-1]
        if cross and (fd.message_type is not None or fd.enum_type is not None):
            continue
        out.append((p, py_attr(owner, fd, reserved), ".".join(py_attr(o, f, reserved) for o, f in ch), ch))
    return out


# ------------------------------------------------------------------------------------------------
# values

MORE_SAMPLES = {
    "google.protobuf.Value": ["x", 7, True, ["a", 1], {"k": 2}, 0, "", False],
    "google.protobuf.ListValue": [["a"], [1, "b", True], [[1], {"k": "v"}]],
    "google.protobuf.Struct": [{"k": "v"}, {"n": 1, "l": [1, 2], "s": {"t": True}}],
    "google.protobuf.Timestamp": ["2020-01-02T03:04:05Z", "1999-12-31T23:59:59.500Z"],
    "google.protobuf.Duration": ["1.500s", "3s", "86400s"],
    "google.protobuf.Int32Value": [7, -1], "google.protobuf.StringValue": ["sv", "héllo"], "google.protobuf.BoolValue": [True],
}
# explicit defaults of fields WITH presence (proto3 optional, oneof members, messages): given, falsy AND visible on the wire
PRESENT_DEFAULTS = {
    "google.protobuf.Struct": {}, "google.protobuf.ListValue": [], "google.protobuf.Duration": "0s",
    "google.protobuf.Timestamp": "1970-01-01T00:00:00Z", "google.protobuf.Int32Value": 0,
    "google.protobuf.StringValue": "", "google.protobuf.BoolValue": False, FM: {},
}


def present_default(fd):
    """the falsy value of a field with presence, or None when there is none that JSON can carry"""
    if fd.label == fd.LABEL_REPEATED or not fd.has_presence:
        return None
    if fd.message_type is not None:
        fn = fd.message_type.full_name
        if fn in PRESENT_DEFAULTS:
            return PRESENT_DEFAULTS[fn]
        return {} if fn not in rpc.WKT_SAMPLES else None
    if fd.enum_type is not None:
        return fd.enum_type.values_by_number[0].name
    return {fd.TYPE_STRING: "", fd.TYPE_BYTES: "", fd.TYPE_BOOL: False, fd.TYPE_DOUBLE: 0.0}.get(
        fd.type, "0" if fd.type in (fd.TYPE_INT64, fd.TYPE_UINT64, fd.TYPE_SINT64, fd.TYPE_FIXED64, fd.TYPE_SFIXED64) else 0)


def nondefault(r, codec, fd):
    """a value (proto-JSON form) that is not the default of the field, so that 'set' is visible on the wire"""
    def one():
        if fd.message_type is not None:
            fn = fd.message_type.full_name
            if fn in MORE_SAMPLES:
                return r.pick(MORE_SAMPLES[fn])
            v = rpc.rand_msg(r, codec, fn, depth=1, p_set=0.5)
            return _fm_dict(v) if fn == FM else v
        if fd.enum_type is not None:
            return r.pick([v.name for v in fd.enum_type.values if v.number != 0])
        for _ in range(50):
            p = apigen.dp.FieldDescriptorProto(); p.type = fd.type
            v = rpc.rand_scalar(r, p)
            if v not in ("", 0, "0", False, 0.0):
                return v
        return {9: "x", 12: "AQ==", 8: True}.get(fd.type, 1)
    if fd.message_type is not None and fd.message_type.GetOptions().map_entry:
        kf, vf = fd.message_type.fields_by_name["key"], fd.message_type.fields_by_name["value"]
        out = {}
        for i in range(r.randint(1, 3)):
            k = f"k{i}" if kf.type == kf.TYPE_STRING else str(i + 1)
            if vf.message_type is not None:
                out[k] = rpc.rand_msg(r, codec, vf.message_type.full_name, depth=1, p_set=0.5)
            else:
                p = apigen.dp.FieldDescriptorProto(); p.type = vf.type
                out[k] = rpc.rand_scalar(r, p)
        return out
    if fd.label == fd.LABEL_REPEATED:
        return [one() for _ in range(r.randint(1, 3))]
    return one()


def marshal_chain(ch):
    """the path runs INTO a well-known type that a proto-plus parent hands out as a python value"""
    return len(ch) >= 2 and ch[-1][0].full_name in MARSHALLED and is_own(ch[-2][0])


def marshal_value(r, wkt, leaf):
    """(proto-JSON value of the well-known type, value of the leaf field inside it) — consistent with each other"""
    n = r.randint(1, 99)
    if wkt == "google.protobuf.Duration":
        return (f"{n}s", str(n)) if leaf == "seconds" else (f"0.{n:09d}s", n)
    if wkt == "google.protobuf.Timestamp":
        return (f"1970-01-01T00:00:{n % 60:02d}Z", str(n % 60)) if leaf == "seconds" else (f"1970-01-01T00:00:00.{n:09d}Z", n)
    if wkt == "google.protobuf.ListValue":
        v = r.pick(MORE_SAMPLES[wkt]); return (v, v)
    if wkt == "google.protobuf.Struct":
        v = r.pick(MORE_SAMPLES[wkt]); return (v, v)
    if wkt == "google.protobuf.Value":
        return ("sv", "sv")
    if wkt == "google.protobuf.StringValue":
        return ("w", "w")
    if wkt == "google.protobuf.BoolValue":
        return (True, True)
    return (n, n)


def set_path(d, path, v):
    segs = path.split(".")
    for s in segs[:-1]:
        d = d.setdefault(s, {})
    d[segs[-1]] = v


def get_path(d, path):
    for s in path.split("."):
        if not isinstance(d, dict) or s not in d:
            return None
        d = d[s]
    return d


def gen_plan(r, codec, input_full, params, allow_overlap=True):
    """choose <= 4 flattened arguments and values: (given keys with a set value, given keys with a falsy value, full request valuation)"""
    k = r.randint(1, min(4, len(params)))
    picked = r.sample(params, k)
    picked.sort(key=lambda x: params.index(x))
    # shorter paths first so that a leaf below a given message lands inside it
    full, given, falsy, leaves = {}, [], [], {}
    for (p, param, attr, ch) in sorted(picked, key=lambda x: len(x[0].split("."))):
        owner, fd = ch[-1]
        if not allow_overlap and any(p.startswith(q + ".") or q.startswith(p + ".") for q in given + falsy):
            continue
        if marshal_chain(ch):
            parent = p.rsplit(".", 1)[0]
            if get_path(full, parent) is None:
                wv, lv = marshal_value(r, owner.full_name, fd.name)
                set_path(full, parent, wv)
                leaves[p] = lv
                given.append(p)
            continue
        container = fd.label == fd.LABEL_REPEATED
        pd = present_default(fd)
        if pd is not None and r.maybe(0.15) and get_path(full, p) is None and "." not in p:
            set_path(full, p, copy.deepcopy(pd))     # False / 0 / "" / enum 0 / empty message WITH presence: given and on the wire
            given.append(p)
            continue
        if r.maybe(0.12) and (container or ("." not in p and fd.message_type is None and not fd.has_presence)) and get_path(full, p) is None:
            falsy.append(p)            # passed as "", 0, [], {} — given for the exclusion check, invisible on the wire
            continue
        set_path(full, p, nondefault(r, codec, fd))
        if fd.containing_oneof is not None and not fd.containing_oneof.name.startswith("_"):
            parent = get_path(full, p.rsplit(".", 1)[0]) if "." in p else full      # a oneof holds one member
            for other in fd.containing_oneof.fields:
                if other.name != fd.name and isinstance(parent, dict):
                    parent.pop(other.name, None)
        given.append(p)
    return (given, falsy, codec.normal(input_full, full), leaves) if leaves else (given, falsy, codec.normal(input_full, full))


# ------------------------------------------------------------------------------------------------
# model values

def to_val(codec, desc, d):
    fs = []
    for name, v in d.items():
        fd = desc.fields_by_name[name]
        if fd.message_type is not None and fd.message_type.GetOptions().map_entry:
            val = {"m": [[str(k), json.dumps(x, sort_keys=True)] for k, x in sorted(v.items())]}
        elif fd.label == fd.LABEL_REPEATED:
            val = {"l": [json.dumps(x, sort_keys=True) for x in v]}
        elif fd.message_type is not None and isinstance(v, dict) and \
                (fd.message_type.full_name not in rpc.WKT_SAMPLES or fd.message_type.full_name == FM):
            val = to_val(codec, fd.message_type, v)
        else:
            val = {"a": json.dumps(v, sort_keys=True)}
        fs.append([fd.number, val])
    return {"f": sorted(fs, key=lambda x: x[0])}


def from_val(codec, desc, val):
    out = {}
    for num, v in val["f"]:
        fd = desc.fields_by_number[num]
        if "f" in v:
            out[fd.name] = from_val(codec, fd.message_type, v)
        elif "l" in v:
            out[fd.name] = [json.loads(x) for x in v["l"]]
        elif "m" in v:
            out[fd.name] = {k: json.loads(x) for k, x in v["m"]}
        else:
            out[fd.name] = json.loads(v["a"])
    return out


def arg_val(codec, desc, full, path, chain, leaves=None):
    """the Val of the argument passed for `path` (taken from the full valuation; unset -> the falsy default)"""
    owner, fd = chain[-1]
    v = leaves[path] if leaves and path in leaves else get_path(full, path)
    if v is None:
        if fd.message_type is not None and fd.message_type.GetOptions().map_entry:
            return {"m": []}
        if fd.label == fd.LABEL_REPEATED:
            return {"l": []}
        if fd.message_type is not None:
            return {"f": []}
        dflt = {fd.TYPE_STRING: "", fd.TYPE_BYTES: "", fd.TYPE_BOOL: False}.get(fd.type, 0)
        return {"a": json.dumps(dflt)}
    return to_val(codec, owner, {fd.name: v})["f"][0][1]


# ------------------------------------------------------------------------------------------------
# literals a caller writes (tagged; rebuilt in the child by libhost_c05.untag) — NOT derived from bytes

def _pb_py(desc):
    """python location of a raw protobuf class"""
    mod = desc.file.name[:-len(".proto")].replace("/", ".") + "_pb2"
    return f"{mod}:{desc.full_name[len(desc.file.package) + 1:]}"


def lit_single(r, fd, v, reserved, types_mod):
    FD = type(fd)
    if fd.message_type is not None:
        mt = fd.message_type
        fn = mt.full_name
        if fn == "google.protobuf.Timestamp":
            return {"t": "dt", "v": v}
        if fn == "google.protobuf.Duration":
            return {"t": "td", "v": v}
        if fn in ("google.protobuf.Struct", "google.protobuf.Value", "google.protobuf.ListValue"):
            return {"t": "json", "v": v}
        if fn.startswith("google.protobuf.") and fn.endswith("Value"):          # wrappers: the plain scalar
            inner = mt.fields_by_name["value"]
            return lit_single(r, inner, v, reserved, types_mod)
        if is_own(mt):
            return lit_msg(r, mt, v, reserved, types_mod)
        js = _fm_str(v) if fn == FM else _conv(mt, v, _fm_str)
        return {"t": "pb", "py": _pb_py(mt), "json": js}
    if fd.enum_type is not None:
        num = fd.enum_type.values_by_name[v].number if isinstance(v, str) else int(v)
        own = is_own_enum(fd.enum_type)
        return {"t": "enum", "v": num, "py": f"{types_module(types_mod, fd.enum_type)}:{fd.enum_type.name}" if own else None,
                "member": bool(own and r.maybe(0.5))}
    if fd.type == fd.TYPE_BYTES:
        return {"t": "bytes", "v": v}
    if fd.type in (fd.TYPE_INT64, fd.TYPE_UINT64, fd.TYPE_SINT64, fd.TYPE_FIXED64, fd.TYPE_SFIXED64):
        return {"t": "s", "v": int(v)}
    if fd.type in (fd.TYPE_DOUBLE, fd.TYPE_FLOAT):
        return {"t": "s", "v": float(v)}
    return {"t": "s", "v": v}


def is_own_enum(e):
    return is_own(e)


def lit_field(r, fd, v, reserved, types_mod, in_request=False):
    """tagged literal of the value `v` (valuation form) of field `fd`"""
    if fd.message_type is not None and fd.message_type.GetOptions().map_entry:
        kf, vf = fd.message_type.fields_by_name["key"], fd.message_type.fields_by_name["value"]
        def key(k):
            if kf.type == kf.TYPE_STRING:
                return {"t": "s", "v": k}
            if kf.type == kf.TYPE_BOOL:
                return {"t": "s", "v": k == "true"}
            return {"t": "s", "v": int(k)}
        return {"t": "map", "v": [[key(k), lit_single(r, vf, x, reserved, types_mod)] for k, x in v.items()]}
    if fd.label == fd.LABEL_REPEATED:
        return {"t": "list", "v": [lit_single(r, fd, x, reserved, types_mod) for x in v]}
    return lit_single(r, fd, v, reserved, types_mod)


def lit_msg(r, desc, d, reserved, types_mod):
    """a generated proto-plus message written with keyword arguments (python field names)"""
    fields = {}
    for name, v in d.items():
        fd = desc.fields_by_name[name]
        fields[py_attr(desc, fd, reserved)] = lit_field(r, fd, v, reserved, types_mod, in_request=True)
    return {"t": "own", "py": f"{types_module(types_mod, desc)}:{desc.name}", "fields": fields}


def falsy_literal(fd):
    """what a caller passes to say "empty": [] / {} / "" / 0 / False / b"" """
    if fd.message_type is not None and fd.message_type.GetOptions().map_entry:
        return {"t": "map", "v": []}
    if fd.label == fd.LABEL_REPEATED:
        return {"t": "list", "v": []}
    if fd.enum_type is not None:
        return {"t": "enum", "v": 0, "py": None, "member": False}
    if fd.type == fd.TYPE_BYTES:
        return {"t": "bytes", "v": ""}
    return {"t": "s", "v": {fd.TYPE_STRING: "", fd.TYPE_BOOL: False, fd.TYPE_DOUBLE: 0.0}.get(fd.type, 0)}


def lit_request(r, codec, input_full, full, reserved, types_mod):
    desc = codec.pool.FindMessageTypeByName(input_full)
    if is_own(desc):
        return lit_msg(r, desc, full, reserved, types_mod)
    return {"t": "pb", "py": _pb_py(desc), "json": _conv(desc, full, _fm_str)}


# ------------------------------------------------------------------------------------------------

def raw_keys(want, cross):
    """flattened keys of a same-package request whose LAST field is owned by a raw protobuf message:
    (repeated/map ones, singular-message ones) — protobuf refuses `owner.field = x` for both kinds"""
    rep_, msg_ = [], []
    if cross:
        return rep_, msg_
    for (p, param, attr, ch) in want or []:
        owner, fd = ch[-1]
        if is_own(owner):
            continue
        if fd.label == fd.LABEL_REPEATED:
            rep_.append(p)
        elif fd.message_type is not None:
            msg_.append(p)
    return rep_, msg_


def shape_flags(codec, input_full, sigs, reserved, cross):
    """which excluded shapes (points where the real code is known to leave the statement) a method has"""
    flags = set()
    paths = declared_paths(sigs)
    terms = list(FIXED_PARAMS)
    for p in paths:
        segs = p.split(".")
        ch = walk(codec, input_full, p)
        if ch is None:
            flags.add("unresolvable")
            continue
        owner, fd = ch[-1]
        if cross and (fd.message_type is not None or fd.enum_type is not None):
            continue
        if cross and not is_own(ch[0][0]) and any(s in reserved for s in segs):
            flags.add("cross-reserved")
        if cross and len(segs) > 1:
            flags.add("cross-dotted")
        term = py_attr(owner, fd, reserved)
        if term in terms:
            flags.add("dup-param")
        terms.append(term)
    return flags


def shape_details(codec, input_full, sigs, reserved, cross):
    """the TRIGGERS of the known findings, per method (what exactly the recorded defect needs):
    dups          python parameter names that occur twice (or clash with request/retry/timeout/metadata)
    reserved      `<segment>_` for every reserved-word segment of a signature of a raw dependency-package request
    ctor_missing  terminal parameter names of dotted keys of a different-package request that are NO top-level field
    misroute      {dotted key: top-level proto field of the same python name} of a different-package request
    replist       repeated non-map keys"""
    out = dict(dups=[], reserved=[], ctor_missing=[], misroute={}, replist=[])
    desc = codec.pool.FindMessageTypeByName(input_full)
    top = {py_attr(desc, fd, reserved): fd.name for fd in desc.fields}
    terms = list(FIXED_PARAMS)
    for p in declared_paths(sigs):
        segs = p.split(".")
        if cross and not is_own(desc):
            out["reserved"] += [s + "_" for s in segs if s in reserved]
        ch = walk(codec, input_full, p)
        if ch is None:
            continue
        owner, fd = ch[-1]
        if cross and (fd.message_type is not None or fd.enum_type is not None):
            continue
        term = py_attr(owner, fd, reserved)
        if term in terms:
            out["dups"].append(term)
        terms.append(term)
        if cross and len(segs) > 1:
            if term in top:
                out["misroute"][p] = top[term]
            else:
                out["ctor_missing"].append(term)
        if fd.label == fd.LABEL_REPEATED and not (fd.message_type is not None and fd.message_type.GetOptions().map_entry):
            out["replist"].append(p)
    return out


def overlapping(keys):
    return any(a != b and b.startswith(a + ".") for a in keys for b in keys)


def with_parents(full, paths):
    """`full` + the (empty) parent messages along dotted paths: what `request.a.b.c = []` leaves on the wire"""
    out = copy.deepcopy(full)
    for p in paths:
        d = out
        for seg in p.split(".")[:-1]:
            d = d.setdefault(seg, {})
    return out


def with_doubled(full, paths):
    """`full` with the list at each path holding its items twice (assigned with the parent message, then extended)"""
    out = copy.deepcopy(full)
    for p in paths:
        v = get_path(out, p)
        if isinstance(v, list):
            set_path(out, p, v + v)
    return out


def with_misrouted(full, moves):
    """`full` with the value of each dotted key moved to the top-level field of the same name (parents left empty are absent)"""
    out = copy.deepcopy(full)
    for p, topname in moves.items():
        v = get_path(out, p)
        if v is None:
            continue
        segs = p.split(".")
        chain = [out]
        for seg in segs[:-1]:
            chain.append(chain[-1][seg])
        del chain[-1][segs[-1]]
        for i in range(len(chain) - 1, 0, -1):
            if chain[i] == {}:
                del chain[i - 1][segs[i - 1]]
        out[topname] = v
    return out


def classify(kind, flags, plan=None, msg="", obs=None):
    """canonical signature key of a failure.  A KNOWN key is returned only when the method has the TRIGGER of the recorded
    defect (decided from the descriptors / signatures / given arguments: `shape_details`, `raw_keys`, `marshal_chain`) AND the
    symptom is the recorded one (same exception type and message naming the same field / the very request the defect is known
    to send); every other failure keeps its generic kind — an unlisted key, hence a VIOLATION."""
    import re
    obs = obs or {}
    det = obs.get("details") or {}
    if kind == "generation-crash" and "cross-reserved" in flags and msg == "KeyError@schema/wrappers.py:get_field" and \
            obs.get("detail", "").strip("'\"") in det.get("reserved", []):
        return "cross-package-reserved-name:generator-keyerror"
    if kind == "import-failed" and "dup-param" in flags:
        mm = re.search(r"SyntaxError: duplicate argument '(\w+)' in function definition", msg)
        if mm and mm.group(1) in det.get("dups", []):
            return "duplicate-parameter-name:syntaxerror"
    if plan is not None:
        given, falsy = plan[0], plan[1]
        rawrep, rawmsg = plan[2] if len(plan) > 2 else ([], [])
        marshal = plan[3] if len(plan) > 3 else {}
        exc, full = obs.get("exc"), obs.get("full")
        leaf = lambda p: p.rsplit(".", 1)[-1]
        # a key INTO a marshalled well-known type: `request.ttl` is a timedelta (read-only) / None — AttributeError naming the leaf
        if kind in ("sync-kwargs-raised", "async-kwargs-raised") and exc == "AttributeError":
            for p in given:
                if p in marshal and (f"'NoneType' object has no attribute '{leaf(p)}'" in msg or
                                     (marshal[p] == "google.protobuf.Duration" and ("readonly attribute" in msg or "not writable" in msg))):
                    return "marshalled-owner:attributeerror"
            # protobuf refuses `raw_owner.<message field> = x`: AttributeError naming that field
            for p in given:
                if p in rawmsg and f'Assignment not allowed to message field "{leaf(p)}"' in msg:
                    return "raw-owner-message:assign-attributeerror"
        # the asyncio constructor call of a different-package request: a dotted key is passed under its terminal name …
        ctor_msgs = [f'has no "{t}" field' for t in det.get("ctor_missing", [])] + [f": {t}" for t in det.get("ctor_missing", [])]
        ctor_hit = lambda text: any(c in text and ("Protocol message" in text or "Unknown field for" in text) for c in ctor_msgs)
        if "cross-dotted" in flags:
            # … which is no top-level field: ValueError on every call
            if kind == "async-kwargs-raised" and exc == "ValueError" and ctor_hit(msg):
                return "async-cross-package-dotted-key:ctor-valueerror"
            sy, asy = obs.get("sync"), obs.get("async")
            if kind == "sync-async" and asy and asy[0] == "raised" and asy[1] == "ValueError" and ctor_hit(asy[2]) and \
                    (sy[0] == "sent" or (sy[0] == "raised" and sy[1] == "AttributeError" and any(p in marshal for p in given))):
                return "async-cross-package-dotted-key:ctor-valueerror"
            # … which IS a top-level field: the value is sent there, silently
            moved = {p: t for p, t in det.get("misroute", {}).items() if p in given}
            if moved and full is not None:
                wrong = with_misrouted(full, moved)
                if kind == "async-kwargs-vs-request" and obs.get("sent") == wrong:
                    return "async-cross-package-dotted-key:ctor-misroutes"
                if kind == "sync-async" and sy == ("sent", full) and asy == ("sent", wrong):
                    return "async-cross-package-dotted-key:ctor-misroutes"
        # a message key and a repeated (list) key below it given together: assigned with the message, then EXTENDED — items twice
        below = [q for q in given if q in det.get("replist", []) and any(q.startswith(a + ".") for a in given)]
        if below and full is not None:
            twice_async = with_doubled(full, below)
            twice_sync = with_doubled(full, [q for q in below if q in rawrep])   # (raw owner: the sync client extends too, fix 9d33fc0)
            if kind == "async-kwargs-vs-request" and obs.get("sent") == twice_async:
                return "overlapping-keys:async-extends"
            if kind == "sync-kwargs-vs-request" and twice_sync != full and obs.get("sent") == twice_sync:
                return "overlapping-keys:async-extends"
            if kind == "sync-async" and obs.get("sync") == ("sent", twice_sync) and obs.get("async") == ("sent", twice_async):
                return "overlapping-keys:async-extends"
        # an EMPTY list/dict for a dotted key: the sync assignment leaves the parents present, asyncio skips the key
        dotted_falsy = [p for p in falsy if "." in p]
        if kind == "sync-async" and dotted_falsy and full is not None and \
                obs.get("async") == ("sent", full) and obs.get("sync") == ("sent", with_parents(full, dotted_falsy)) and \
                with_parents(full, dotted_falsy) != full:
            return "falsy-dotted-container:parents-present-in-sync-only"
    return kind


def run_api(ctx, r, spec, label, plans=None, expect_flags=False):
    """`plans`: {method name: [[given, falsy, full], …]} for replays; generated from `r` otherwise."""
    import gapic.utils as gu
    reserved = statement_reserved()
    files = build_files(spec)
    req = apigen.request(files, "transport=grpc,autogen-snippets=false")
    codec = Codec5(files)
    info = {}
    svc_pkg = svc_package(spec)
    for m in spec["methods"]:
        input_full, cross = input_of(m, spec)
        want = expected_params(codec, input_full, m["sigs"], reserved, cross)
        info[m["name"]] = dict(input=input_full, cross=cross, flags=shape_flags(codec, input_full, m["sigs"], reserved, cross),
                               want=want, cs=bool(m.get("cs")), raw=raw_keys(want, cross),
                               marshal={w[0]: w[3][-1][0].full_name for w in (want or []) if marshal_chain(w[3])},
                               details=shape_details(codec, input_full, m["sigs"], reserved, cross))
    allflags = set().union(*[i["flags"] for i in info.values()]) if info else set()
    payload0 = {"spec": spec}
    # ------------------------------------------------------------------ T2: schema side
    try:
        api, _ = genrun.build_api(req)
        svc = api.services[f"{svc_pkg}.Library"]
    except BaseException as e:  # noqa
        api = svc = None
        build_err = (genrun.crash_signature(e), str(e)[:200])
    schema = schema_json(codec, [i["input"] for i in info.values()])
    # DERIVED mode: the model computes `cross_pkg` and every owner's proto-plus flag from the packages of the declaring files
    mops = [{"op": "c05.mapping", "schema": schema, "input": info[m["name"]]["input"], "api_package": PKG, "proto_plus_deps": [],
             "service_package": svc_pkg, "sigs": m["sigs"], "client_streaming": bool(m.get("cs"))} for m in spec["methods"]]
    mres = ctx.driver.ask(mops)
    model = {m["name"]: mo for m, mo in zip(spec["methods"], mres)}
    for m in spec["methods"]:
        mo, inf = model[m["name"]], info[m["name"]]
        if "unsupported" in mo:
            ctx.unsupported += 1
            continue
        ctx.traces += 1
        rs = None if m["dep"] else req_sub(m, spec)
        ss = spec.get("svc_sub") or ""
        ctx.count("request_package", "dependency" if m["dep"] else "sub-package" if m.get("sub") else "own" if not general_layout(spec) else
                  "layout:same" if rs == ss else "layout:request-below-service" if rs.startswith(ss + ".") or (not ss and rs) else
                  "layout:request-above-service" if ss.startswith(rs + ".") or (not rs and ss) else "layout:sibling")
        ctx.count("service_package", "root" if not ss else "nested-sub-package" if "." in ss else "sub-package")
        # the statement's reading of "different package" against the model's derivation
        if "cross_pkg" in mo and mo["cross_pkg"] != inf["cross"]:
            ctx.disagree("T2:c05.cross_pkg", f"{m['name']}: model derives cross_pkg={mo['cross_pkg']} for request {inf['input']} of a service in {svc_pkg}", payload0)
        ctx.count("signatures", len(m["sigs"]))
        if svc is None:
            if "error" not in mo:
                ctx.disagree("T2:c05.fields_mapping", f"{m['name']}: real API.build raised {build_err}, model maps {mo.get('keys')}", payload0)
            continue
        meth = svc.methods[m["name"]]
        try:
            ff = meth.flattened_fields
            impl = {"keys": list(ff.keys()), "params": [f.name for f in ff.values()],
                    "flags": [[bool(f.repeated), bool(f.map)] for f in ff.values()],
                    "raw": [not f.meta.address.is_proto_plus_type for f in ff.values()],
                    "cross": meth.input.ident.package != meth.ident.package}
        except KeyError as e:
            impl = {"error": "KeyError"}
        if "error" in impl or "error" in mo:
            if ("error" in impl) != ("error" in mo):
                ctx.disagree("T2:c05.fields_mapping", f"{m['name']}: impl {impl} vs model {mo}", payload0)
            continue
        mflags = [[e["repeated"], e["map"]] for e in mo["entries"]]
        if impl["keys"] != mo["keys"] or impl["params"] != mo["params"] or impl["flags"] != mflags:
            ctx.disagree("T2:c05.fields_mapping", f"{m['name']}: impl {impl} vs model keys={mo['keys']} params={mo['params']} flags={mflags}", payload0)
        # the two facts the templates branch on, derived by the model from the packages
        if impl["cross"] != mo.get("cross_pkg") or impl["raw"] != [e["raw_owner"] for e in mo["entries"]]:
            ctx.disagree("T2:c05.packages", f"{m['name']}: real cross={impl['cross']} raw owners={impl['raw']} vs model "
                         f"cross={mo.get('cross_pkg')} raw owners={[e['raw_owner'] for e in mo['entries']]}", payload0)
        for e in mo["entries"]:
            ctx.count("key_shape", ("dotted" if "." in e["key"] else "top") + ":" +
                      ("map" if e["map"] else "repeated" if e["repeated"] else "singular"))
        # oracle: the mapping offers the declared fields in declared order (generator side)
        if m.get("cs"):
            ctx.count("client_streaming", "method")
        if inf["want"] is not None and [w[1] for w in inf["want"]] != impl["params"] and not (inf["flags"] & {"cross-reserved"}):
            ctx.fail(classify("parameter-order", inf["flags"]), f"{m['name']}: flattened parameters {impl['params']}, declared {[w[1] for w in inf['want']]}", payload0)
    # ------------------------------------------------------------------ T3
    res, err = genrun.try_generate(req)
    model_gen_error = any("error" in mo for mo in model.values())
    if err:
        ctx.traces += 1
        if not model_gen_error:
            ctx.disagree("T3:c05.generation", f"generator raised {err} but the model maps every signature", payload0)
        predicted = [m for m in spec["methods"] if "error" in model[m["name"]]]
        bad = predicted or spec["methods"]
        fl = info[bad[0]["name"]]["flags"]
        if "unresolvable" in fl:
            ctx.assume("a signature naming a field the request does not have aborts generation with KeyError (outside the quantifier)")
        else:
            # (a known key needs a method that HAS the trigger: the one the model predicts to abort; none predicted -> generic key)
            ctx.fail(classify("generation-crash", fl if predicted else set(), msg=err[0],
                              obs={"detail": err[1], "details": info[bad[0]["name"]]["details"]}),
                     f"generator raised {err[0]}: {err[1]}", {"spec": sub_spec(spec, bad[:1])})
        return
    if model_gen_error:
        ctx.disagree("T3:c05.generation", "model raises KeyError but the generator produced a library", payload0)
        return
    root = genrun.materialise(res)
    try:
        loc = rpc.py_locations(api, svc)
        model_emit = {n: mo["emit"] for n, mo in model.items()}
        emit_bad = [n for n, e in model_emit.items() if e != "ok"]
        # which methods can be called at all
        ops = [{"op": "import_all", "package": loc["service_module"]}]
        callable_methods = [m for m in spec["methods"] if info[m["name"]]["want"] and not info[m["name"]]["cs"]]
        types_mod = loc["package"]            # (root module; `types_module` adds the sub-package and `.types`)
        for m in spec["methods"]:
            for cl in ("client", "async_client"):
                mod, cls = loc[cl].split(":")
                ops.append({"op": "signature", "module": mod, "attr": f"{cls}.{gu.to_snake_case(m['name'])}"})
        calls, index = [], []
        if not emit_bad:
            for m in callable_methods:
                inf = info[m["name"]]
                want = inf["want"]
                bypath = {w[0]: w for w in want}
                meth = svc.methods[m["name"]]
                myplans = plans.get(m["name"], []) if plans is not None else \
                    [gen_plan(r, codec, inf["input"], want) for _ in range(ctx.n(3, 6))]
                for plan_ in myplans:
                    given, falsy, full = plan_[:3]
                    leaves = plan_[3] if len(plan_) > 3 else {}
                    keys = [p for p in declared_paths(m["sigs"]) if p in given or p in falsy]
                    if not keys:
                        continue
                    b64 = codec.encode_b64(inf["input"], full)
                    mname = gu.to_snake_case(m["name"])
                    base = {"method": mname, "py_request": rpc.py_type(meth.input), "request_b64": b64,
                            "plain_containers": r.maybe(0.7)}
                    kw = [[bypath[p][1], bypath[p][2]] for p in keys]
                    mixed_key = r.pick(keys)
                    literal = r.maybe(0.75) or bool(leaves)
                    ctx.count("argument_source", "literal" if literal else "derived-from-bytes")
                    if literal:
                        # what a caller writes: python literals / objects for every argument, the request built with
                        # keyword arguments, as a hand-written dict, or passed positionally; every call run twice
                        def lit_kw(p):
                            owner, fd = bypath[p][3][-1]
                            v = leaves[p] if p in leaves else get_path(full, p)
                            return [bypath[p][1], falsy_literal(fd) if v is None else lit_field(r, fd, v, reserved, types_mod)]
                        rq = lit_request(r, codec, inf["input"], full, reserved, types_mod)
                        form = r.pick(["instance", "dict", "positional"]) if not m["dep"] else r.pick(["instance", "positional"])
                        calls.append({"method": mname, "kwargs": [lit_kw(p) for p in keys], "repeat": 2})
                        if "vals" in full:
                            # proto-plus cannot CONSTRUCT a message with a repeated Value (a list is marshalled to ONE Value — the
                            # reason for the templates' `.extend` special case): such a request is rebuilt from bytes
                            calls.append(dict(base, mode="request-instance"))
                            calls.append(dict(base, mode="mixed", kwargs=[[bypath[mixed_key][1], bypath[mixed_key][2]]]))
                        else:
                            calls.append({"method": mname, "request": rq, "request_form": form, "repeat": 2})
                            calls.append({"method": mname, "request": rq, "request_form": r.pick(["instance", "dict"]) if not m["dep"] else "instance",
                                          "kwargs": [lit_kw(mixed_key)]})
                    else:
                        calls.append(dict(base, mode="kwargs", kwargs=kw))
                        # (proto-plus to_dict renders int map keys as text and Value items as bare python values: such a dict is not a valid request dict)
                        dict_ok = not inf["cross"] and not any(f[0] in NO_TO_DICT for f in (m["fields"] or []))
                        calls.append(dict(base, mode=r.pick(["request-instance", "request-dict"]) if dict_ok else "request-instance"))
                        calls.append(dict(base, mode="mixed", kwargs=[[bypath[mixed_key][1], bypath[mixed_key][2]]]))
                    index.append((m, given, falsy, full, keys, mixed_key, leaves))
        for asy in (False, True):
            ops.append({"op": "c05_session", "client": loc["async_client" if asy else "client"],
                        "transport": loc["grpc_asyncio" if asy else "grpc"], "async": asy, "calls": calls})
        out = libhost.run(root, ops, timeout=600)
        imp = out[0]
        sigs_out = out[1:1 + 2 * len(spec["methods"])]
        sess = out[1 + 2 * len(spec["methods"]):]
        # ---- import
        ctx.traces += 1
        if imp.get("errors"):
            msg = "; ".join(f"{e[1]}: {e[2]}" for e in imp["errors"][:2])
            if not emit_bad:
                ctx.disagree("T3:c05.emit", f"emitted service module does not import ({msg}) but the model's emitCheck passes", payload0)
            bad = [m for m in spec["methods"] if model_emit[m["name"]] != "ok"]
            ctx.fail(classify("import-failed", info[bad[0]["name"]]["flags"] if bad else set(), msg=msg,
                              obs={"details": {"dups": [d for b in bad for d in info[b["name"]]["details"]["dups"]]}}),
                     f"the emitted client module cannot be imported: {msg}", {"spec": sub_spec(spec, bad[:1]) if bad else spec})
            return
        if emit_bad:
            ctx.disagree("T3:c05.emit", f"model predicts {model_emit} but the emitted module imports", payload0)
            return
        # ---- signatures: names and order
        for k, m in enumerate(spec["methods"]):
            inf = info[m["name"]]
            for j, cl in enumerate(("sync", "async")):
                so = sigs_out[2 * k + j]
                if "params" not in so:
                    ctx.fail("signature-unavailable", f"{m['name']} ({cl}): {so}", payload0)
                    continue
                names = [p[0] for p in so["params"]]
                if inf["cs"]:
                    ctx.traces += 1
                    if names != ["self", "requests", "retry", "timeout", "metadata"]:
                        ctx.fail("client-streaming-signature", f"{m['name']} ({cl}): client-streaming method has parameters {names}", {"spec": sub_spec(spec, [m])})
                    if names != model[m["name"]]["param_list"]:
                        ctx.disagree("T3:c05.param_list", f"{m['name']} ({cl}): emitted {names} vs model {model[m['name']]['param_list']}", payload0)
                    continue
                got = names[2:-3] if names[:2] == ["self", "request"] else names
                kinds_ok = all(p[1] == "KEYWORD_ONLY" and p[2] == "None" for p in so["params"][2:-3])
                want = [w[1] for w in (inf["want"] or [])]
                ctx.case({"method": m["name"], "sigs": m["sigs"], "params": got, "client": cl},
                         distinct_key=["sig", json.dumps(m["sigs"]), inf["input"], cl])
                ctx.traces += 1
                if got != want or not kinds_ok or names[-3:] != ["retry", "timeout", "metadata"]:
                    ctx.fail(classify("parameter-order", inf["flags"]),
                             f"{m['name']} ({cl}): emitted parameters {names}, declared order {want}", {"spec": sub_spec(spec, [m])})
                if names != model[m["name"]]["param_list"]:
                    ctx.disagree("T3:c05.param_list", f"{m['name']} ({cl}): emitted {names} vs model {model[m['name']]['param_list']}", payload0)
        if not calls:
            return
        # ---- the model on the same plans
        cops = []
        for (m, given, falsy, full, keys, mixed_key, leaves) in index:
            inf, mo = info[m["name"]], model[m["name"]]
            desc = codec.pool.FindMessageTypeByName(inf["input"])
            bypath = {w[0]: w for w in inf["want"]}
            entry_by_param = {e["param"]: e for e in mo["entries"]}
            slots, args_kw, args_mixed = [], [], []
            for e in mo["entries"]:
                slots.append({"path": e["path"], "repeated": e["repeated"], "map": e["map"], "value": e["value"], "ctor": e["ctor"],
                              "raw_owner": e["raw_owner"], "is_msg": e["is_msg"], "marshal_owner": e["marshal_owner"]})
                # which declared path does this entry serve?  (matched by parameter name: that is how the caller addresses it)
                p = next((p for p in keys if bypath[p][1] == e["param"]), None)
                args_kw.append(arg_val(codec, desc, full, p, bypath[p][3], leaves) if p else None)
                args_mixed.append(arg_val(codec, desc, full, mixed_key, bypath[mixed_key][3], leaves) if bypath[mixed_key][1] == e["param"] else None)
            fullv = to_val(codec, desc, full)
            none = [None] * len(slots)
            cops.append({"op": "c05.call", "same_pkg": not inf["cross"], "slots": slots, "args": args_kw, "request": None})
            cops.append({"op": "c05.call", "same_pkg": not inf["cross"], "slots": slots, "args": none, "request": {"inst": fullv}})
            cops.append({"op": "c05.call", "same_pkg": not inf["cross"], "slots": slots, "args": args_mixed, "request": {"inst": fullv}})
        cres = ctx.driver.ask(cops)
        # ---- compare
        decoded = {}
        for asy, s in zip((False, True), sess):
            if "calls" not in s:
                ctx.fail("session-failed", f"T3 session failed ({'async' if asy else 'sync'}): {str(s)[-400:]}", payload0)
                return
            decoded[asy] = s["calls"]
        for i, (m, given, falsy, full, keys, mixed_key, leaves) in enumerate(index):
            inf = info[m["name"]]
            desc = codec.pool.FindMessageTypeByName(inf["input"])
            plan = (given, falsy, inf["raw"], inf["marshal"])
            pl = {"spec": sub_spec(spec, [m]),
                  "plans": {m["name"]: [[given, falsy, full] + ([leaves] if leaves else [])]}}
            ctx.count("marshal_key_given", any(p in inf["marshal"] for p in given))
            ctx.count("args_given", len(keys)); ctx.count("falsy_args", len(falsy))
            ctx.count("overlap", overlapping(given))
            seen = {}
            for asy in (False, True):
                cl = "async" if asy else "sync"
                kwc, rqc, mxc = decoded[asy][3 * i: 3 * i + 3]
                mk, mr, mm = [c["async" if asy else "sync"] for c in cres[3 * i: 3 * i + 3]]
                ctx.case({"method": m["name"], "keys": keys, "falsy": falsy, "client": cl},
                         distinct_key=["call", inf["input"], json.dumps(m["sigs"]), json.dumps(keys), json.dumps(full, sort_keys=True), cl])

                def wire(c):
                    if "build_error" in c:
                        raise RuntimeError(f"harness could not build the literal arguments: {c['build_error']}: {c['msg']} {c['trace'][-300:]}")
                    if "ok" not in c:
                        return ("raised", c.get("raised"), c.get("msg", "")[:160], len(c["server"]))
                    if len(c["server"]) != 1 or len(c["server"][0]["requests"]) != 1:
                        return ("calls", len(c["server"]))
                    return ("sent", codec.decode(inf["input"], c["server"][0]["requests"][0]))

                def mwire(x):
                    if "ok" in x:
                        return ("sent", codec.normal(inf["input"], from_val(codec, desc, x["ok"])))
                    return ("raised", x["raised"])
                wk, wr, wm = wire(kwc), wire(rqc), wire(mxc)
                seen[asy] = wk
                # oracle 0: the same call with the same argument objects sends the same request again
                for what, c in (("kwargs", kwc), ("request", rqc)):
                    runs = c.get("runs") or []
                    if len(runs) > 1:
                        first = [x["requests"] for x in runs[0]["server"]]
                        for k2, x in enumerate(runs[1:], 2):
                            if [y["requests"] for y in x["server"]] != first or x["raised"] != runs[0]["raised"]:
                                ctx.fail(f"{cl}-second-call-differs", f"{m['name']} ({cl}) {what} call #{k2} with the same argument objects: "
                                         f"{x['raised'] or [codec.decode(inf['input'], q) for y in x['server'] for q in y['requests']]} "
                                         f"after {runs[0]['raised'] or [codec.decode(inf['input'], q) for y in runs[0]['server'] for q in y['requests']]}", pl)
                want_req = ("sent", full)
                # oracle 1: the request call sends the request
                if wr != want_req:
                    ctx.fail(classify(f"{cl}-request-call", inf["flags"], plan), f"{m['name']} ({cl}) request call: {wr}, expected {full}", pl)
                # oracle 2: the kwargs call sends the same request
                if wk[0] == "raised":
                    ctx.fail(classify(f"{cl}-kwargs-raised", inf["flags"], plan, msg=wk[2], obs={"exc": wk[1], "details": inf["details"]}),
                             f"{m['name']} ({cl}) kwargs {keys}: raised {wk[1]}: {wk[2]}", pl)
                elif wk != want_req and wk != ("sent", with_parents(full, [p for p in falsy if "." in p])):
                    # (first assumption of run(): for an empty list/dict passed for a DOTTED key the request may carry the empty parents — and nothing else)
                    ctx.fail(classify(f"{cl}-kwargs-vs-request", inf["flags"], plan, obs={"sent": wk[1] if len(wk) > 1 else None, "full": full, "details": inf["details"]}),
                             f"{m['name']} ({cl}) kwargs {keys}: sent {wk[1:]}, request call sends {full}", pl)
                # oracle 3: request + any flattened argument -> ValueError, nothing sent
                if not (wm[0] == "raised" and wm[1] == "ValueError" and wm[3] == 0 and "individual field arguments" in wm[2]):
                    ctx.fail(classify("mixed-call-not-rejected", inf["flags"]), f"{m['name']} ({cl}) request + {mixed_key}: {wm}", pl)
                # T3: model vs implementation
                ctx.traces += 3
                for what, w, mo_ in (("kwargs", wk, mk), ("request", wr, mr), ("mixed", wm, mm)):
                    mw = mwire(mo_)
                    if mw[0] != w[0] or (w[0] == "sent" and mw[1] != w[1]) or (w[0] == "raised" and mw[1] != w[1]):
                        ctx.disagree(f"T3:c05.call.{what}", f"{m['name']} ({cl}) {keys}: impl {w} vs model {mw}", pl)
            # oracle 4: sync and asyncio behave identically
            if seen[False][:2] != seen[True][:2]:
                msg = " ".join(str(x[2]) for x in seen.values() if x[0] == "raised")
                ctx.fail(classify("sync-async", inf["flags"], plan, msg=msg, obs={"sync": seen[False], "async": seen[True], "full": full, "details": inf["details"]}),
                         f"{m['name']} kwargs {keys}: sync {seen[False]} vs asyncio {seen[True]}", pl)
    finally:
        genrun.cleanup(root)


def corpus_entries():
    out = []
    for p in sorted(glob.glob(os.path.join(ROOT, "corpus", "C05", "*.json"))):
        with open(p) as fh:
            out.append((os.path.basename(p), json.load(fh)))
    return out


def t2_paths(ctx, r):
    """get_field / _fields_mapping on arbitrary (also unresolvable) signatures, without rendering anything"""
    spec = gen_spec(r, 4)
    # a dependency message with a reserved-word field (`type`): KeyError unless its package is declared proto-plus
    spec["methods"].append({"name": "Dep9", "dep": ".google.api.ResourceDescriptor", "fields": None})
    for m in spec["methods"]:
        m["sigs"] = []
    # option `proto-plus-deps`: dependency packages whose python types are proto-plus (Field.name suffixes reserved words there)
    ppd = r.sample(["google.iam.v1", "google.api", "google.rpc", "google.longrunning", "google.type"], r.randint(1, 3)) if r.maybe(0.4) else []
    files = build_files(spec)
    req = apigen.request(files, "transport=grpc,autogen-snippets=false" + (",proto-plus-deps=" + "+".join(ppd) if ppd else ""))
    codec = Codec5(files)
    api, _ = genrun.build_api(req)
    svc_pkg = svc_package(spec)
    svc = api.services[f"{svc_pkg}.Library"]
    ctx.count("proto_plus_deps", len(ppd))
    ops, cases = [], []
    for m in spec["methods"]:
        input_full, cross = input_of(m, spec)
        schema = schema_json(codec, [input_full])
        top = [f[0] for f in m["fields"]] if m["fields"] else DEP_REQUESTS[m["dep"]][1]
        pool = list(top) + [f"{t}.{s}" for t in top for s in SUB_PATHS.get(t.split(".")[0], [])] + \
            r.sample(["nosuch", "parent.x", "tags.x", "book.nosuch", "books.name", "book.inner.marks.x", "labels.key", "book.import.title", "class_", ""], 2)
        for _ in range(ctx.n(12, 40)):
            sigs = [r.pick([",", ", ", " ,"]).join(r.sample(pool, min(len(pool), r.randint(0, 4)))) for _ in range(r.randint(1, 3))]
            ops.append({"op": "c05.mapping", "schema": schema, "input": input_full, "api_package": PKG, "proto_plus_deps": ppd,
                        "service_package": svc_pkg, "sigs": sigs})
            cases.append((m, sigs))
    res = ctx.driver.ask(ops)
    for (m, sigs), mo in zip(cases, res):
        meth = svc.methods[m["name"]]
        try:
            ff = meth._fields_mapping(sigs)
            impl = {"keys": list(ff.keys()), "params": [f.name for f in ff.values()],
                    "raw": [not f.meta.address.is_proto_plus_type for f in ff.values()]}
        except KeyError:
            impl = {"error": "KeyError"}
        ctx.case({"sigs": sigs, "mapping": impl}, distinct_key=["t2", m["dep"] or json.dumps(m["fields"]), json.dumps(sigs), json.dumps(ppd)])
        ctx.traces += 1
        ctx.count("t2_outcome", "KeyError" if "error" in impl else "mapping")
        got = {"error": "KeyError"} if "error" in mo else {"keys": mo["keys"], "params": mo["params"], "raw": [e["raw_owner"] for e in mo["entries"]]}
        if got != impl:
            ctx.disagree("T2:c05._fields_mapping", f"sigs {sigs}: impl {impl} vs model {got}", {"spec": sub_spec(spec, [dict(m, sigs=sigs)])})


def t2_packages(ctx, r):
    """`Address.is_proto_plus_type` and the package comparison of the templates on arbitrary package names (the real
    metadata.Address / naming.Naming objects) vs Lean `isProtoPlusType` / `crossPkgOf`"""
    from gapic.schema import metadata, naming
    segs = ["acme", "lib", "v1", "v1beta", "v1x", "common", "deep", "admin", "google", "iam", "rpc", "api", "v", "li", "lib_v1"]
    ops, cases = [], []
    for _ in range(ctx.n(30, 300)):
        api_pkg = ".".join(r.sample(segs, r.randint(1, 3))) if r.maybe(0.5) else PKG

        def variant():
            k = r.randint(0, 5)
            if k == 0:
                return api_pkg
            if k == 1:
                return api_pkg + "." + ".".join(r.sample(segs, r.randint(1, 2)))
            if k == 2:
                return api_pkg + r.pick(["beta", "x", "1", "_"])              # a STRING prefix that is no sub-package
            if k == 3:
                return api_pkg[:max(1, len(api_pkg) - r.randint(1, 3))].rstrip(".") or "x"
            if k == 4:
                return ".".join(api_pkg.split(".")[:-1]) or "x"
            return ".".join(r.sample(segs, r.randint(1, 3)))
        pkgs = [variant() for _ in range(6)]
        deps = r.sample(pkgs, r.randint(0, 2)) + ([r.pick(["google.iam.v1", "google.rpc"])] if r.maybe(0.3) else [])
        svc_pkg = r.pick(pkgs)
        ops.append({"op": "c05.packages", "api_package": api_pkg, "proto_plus_deps": deps, "service_package": svc_pkg, "pkgs": pkgs})
        cases.append((api_pkg, deps, svc_pkg, pkgs))
    for (api_pkg, deps, svc_pkg, pkgs), mo in zip(cases, ctx.driver.ask(ops)):
        n = naming.NewNaming(proto_package=api_pkg, proto_plus_deps=tuple(deps))
        sa = metadata.Address(name="Library", module="lib", package=tuple(svc_pkg.split(".")), api_naming=n)
        for p, got in zip(pkgs, mo):
            a = metadata.Address(name="Req", module="lib", package=tuple(p.split(".")), api_naming=n)
            impl = {"proto_plus": bool(a.is_proto_plus_type), "cross": a.package != sa.package}
            ctx.case({"api": api_pkg, "deps": deps, "service": svc_pkg, "package": p, "impl": impl}, distinct_key=["pkg", api_pkg, json.dumps(deps), svc_pkg, p])
            ctx.traces += 1
            ctx.count("package_relation", "api" if p == api_pkg else "sub-package" if p.startswith(api_pkg + ".") else
                      "string-prefix-only" if p.startswith(api_pkg) else "listed-dep" if p in deps else "foreign")
            if impl != got:
                ctx.disagree("T2:c05.is_proto_plus_type", f"api {api_pkg} deps {deps} service {svc_pkg} package {p}: impl {impl} vs model {got}",
                             {"packages": {"api_package": api_pkg, "proto_plus_deps": deps, "service_package": svc_pkg, "pkgs": [p]}})
            # oracle (the docstring of is_proto_plus_type): the API's package and its sub-packages hold proto-plus types
            if (p == api_pkg or p.startswith(api_pkg + ".")) and not impl["proto_plus"]:
                ctx.fail("sub-package-not-proto-plus", f"package {p} of API {api_pkg} is not a proto-plus package", {"packages": ops[0]})


def run(ctx):
    ctx.rule = ("methods x signatures (0..3 signatures of 0..4 top-level/dotted paths over scalar, enum, message, repeated, map, "
                "Value, optional, oneof and reserved-word fields; request from the API's package or an installed dependency package) "
                "x call plans (<= 4 flattened arguments with non-default or falsy values) x {sync, asyncio}; distinct by "
                "(request type, signatures, client) for the signature check and by (request type, signatures, argument subset, "
                "values, client) for calls; non-trivial = every call plan with at least one flattened argument")
    ctx.assume("a flattened argument holding the default of a field reached through a dotted path ('' / 0 / []) is excluded "
               "from the kwargs==request oracle: whether the parent messages count as set is not fixed by the statement")
    ctx.assume("at most one member of a oneof is flattened per method (oneof clearing is protobuf's, not the generator's)")
    ctx.assume("package layouts: a message of a sub-package that sorts BEFORE the service's sub-package does not use a type of the "
               "service's sub-package (the emitted package then has a python import cycle: acme.lib_v1/__init__ imports the "
               "sub-packages alphabetically — a defect of the emitted package layout, not of flattening)")
    ctx.assume("a signature path INTO a well-known type that proto-plus marshals to a python value (\"ttl.seconds\", \"ts.nanos\", "
               "\"wrapped.value\", \"meta.fields\") is not generated (it fails in both clients: the attribute is set on a temporary); "
               "paths into unmarshalled raw messages (FieldMask, google.rpc.Status, IAM Policy, Operation) ARE generated")
    r = ctx.rng("flatten")
    for name, blob in corpus_entries():
        run_api(ctx, ctx.rng("corpus", name), blob["spec"], f"corpus:{name}", plans=blob.get("plans"))
    for k in range(ctx.n(1, 12)):
        t2_paths(ctx, ctx.rng("t2", k))
    t2_packages(ctx, ctx.rng("t2pkg"))
    for a in range(ctx.n(18, 400)):
        run_api(ctx, r, gen_spec(r, ctx.n(6, 8)), f"api{a}")


def search(ctx):
    r = ctx.rng("search")
    for a in range(10):
        run_api(ctx, r, gen_spec(r, 8), f"search{a}")


def replay(ctx, payload):
    import leanio
    ctx.driver = leanio.Driver()
    if "packages" in payload:
        from gapic.schema import metadata, naming
        q = payload["packages"]
        mo = ctx.driver.ask([dict(q, op="c05.packages")])[0]
        n = naming.NewNaming(proto_package=q["api_package"], proto_plus_deps=tuple(q["proto_plus_deps"]))
        for p, got in zip(q["pkgs"], mo):
            a = metadata.Address(name="Req", module="lib", package=tuple(p.split(".")), api_naming=n)
            print(f"  package {p}: impl proto_plus={a.is_proto_plus_type} vs model {got}")
            if bool(a.is_proto_plus_type) != got["proto_plus"]:
                ctx.disagree("T2:c05.is_proto_plus_type", f"{p}", payload)
        return not ctx.disagreements
    run_api(ctx, ctx.rng("replay"), payload["spec"], "replay", plans=payload.get("plans"))
    for f in ctx.failures:
        print("  failure:", f["key"], "-", f["what"])
    for d in ctx.disagreements:
        print("  disagreement:", d["correspondence"], "-", d["what"])
    return not ctx.failures


CLAIM = dict(
    text=('Lean 4 proofs about a hand-written model of Method._fields_mapping / MessageType.get_field and of BOTH emitted application '
          'schemes (sync macro: assign-all, with a second extend/update pass for dependency-package requests; asyncio template: three '
          'passes assign / update / extend, or the pb2 constructor for dependency-package requests): (1) the flattened parameters are the '
          'declared fields at the position of their first occurrence (params_in_declared_order, params_exactly_declared, yielded_in_order); '
          '(2) for keys none of which is a prefix of another, arguments of the field\'s kind and an empty list/dict only for top-level keys, '
          'the sync scheme, the asyncio scheme and plain field setting in declared order produce the SAME wire-level request '
          '(apply_sync_eq_set, apply_async_eq_set, apply_async_cross_eq_set, sync_async_agree, kwargs_equiv_request[_cross]); the sync macro of a '
          'same-package request is plain assignment unconditionally (apply_sync_eq_set_unconditional); (3) request + any flattened argument, '
          'falsy ones included, raises ValueError before anything is sent, and only then (mixed_call_rejected, rejected_before_send, '
          'value_error_iff_mixed), AttributeError exactly when a given key ends in a field of a RAW protobuf sub-message that protobuf '
          'refuses to assign (attribute_error_iff, async_raw_ok_of_sync); (4) every rendered request.<key> is a keyword-free attribute path that proto-plus resolves to the fields '
          'get_field found, reserved words and keywords in any position included (key_attr_resolves, emit_never_keyword_attr; regression for the '
          'repaired §9-F2: keyword_segment_regression); (5) PACKAGE LAYOUTS: the two facts the templates branch on are derived from the packages of the '
          'declaring files — is_proto_plus_type is exactly "the API package is a string prefix, or listed in proto-plus-deps" (isProtoPlusType_iff, '
          'api_package_is_proto_plus, sub_package_is_proto_plus at any depth, proto_plus_dep_is_proto_plus), a request in a package below or above the '
          'service\'s is a different-package request (sub_package_request_is_cross, parent_package_request_is_cross, same_package_not_cross) — and (2), (3) '
          'hold for EVERY layout of service and request over root / sub / nested / sibling / dependency packages (kwargs_equiv_request_any_layout, '
          'sync_async_agree_any_layout, mixed_call_rejected_any_layout, cross_repeated_second_pass_only); (6) the asyncio constructor call of a '
          'different-package request is characterised completely: ValueError iff some terminal name is no top-level field, else every given key sets the '
          'TOP-LEVEL field of that name (apply_async_cross_char); (7) a key INTO a marshalled well-known type raises AttributeError in every client that '
          'applies keys by attribute (attribute_error_iff, marshal_owner_needs_dotted, marshal_owner_needs_proto_plus_parent). Nine *_counterexample theorems pin the inputs '
          'where the real code leaves the statement (all reproduced on /repo, see findings/C05.json). Tie: T1 bridge lemmas for RESERVED_NAMES '
          'and keyword.kwlist; T2 the real flattened_fields/_fields_mapping vs the model on generated and unresolvable signatures (also under the option '
          'proto-plus-deps), the real Address.is_proto_plus_type / package comparison vs isProtoPlusType / crossPkgOf on arbitrary package names, and the '
          'model-derived cross-package / raw-owner flags vs the real schema objects of every generated method; T3 the emitted '
          'sync and asyncio clients against a loopback gRPC server (inspect.signature; bytes of kwargs / request / mixed calls decoded under the '
          'input descriptors) vs the model; arguments are LITERALS a caller writes (python scalars, bytes, enum members, datetime/timedelta, native '
          'JSON for Struct/Value/ListValue, raw protobuf objects, generated classes built by keyword, hand-written dicts, positional request), '
          'every call is run twice with the same objects; a model-independent oracle restating the property.'),
    technique='Lean 4 theorems (commutation of slot updates on diverging paths, permutation-invariance of folds, induction over paths) '
              '+ differential T2 (schema functions) and T3 (emitted sync/asyncio clients on loopback gRPC) + wire-level oracle',
    design="7.5",
    note=('Values are wire-level trees with opaque list items / map entries; oneof clearing, proto-plus marshal rules for well-known types and '
          'python-level type errors are outside the model (the generator keeps to one oneof member per method; a signature path INTO a marshalled '
          'well-known type is modelled as the AttributeError it raises). The kwargs==request oracle is not applied to default-valued arguments of dotted keys (presence of the parents is not fixed '
          'by the statement); sync==asyncio is. Package layouts: 30% of the generated APIs declare the service in the root package or in a (nested) '
          'sub-package and every request with the service, in the root, or in another (nested / sibling / deeper) sub-package; one layout is excluded because '
          'the emitted PACKAGE has a python import cycle there (see the assumptions). Client-streaming methods (no flattened parameter at all) are modelled and checked by signature only. Eight known findings are listed in findings/C05.json and replayed from corpus/C05 on every run.'),
)
