"""C06 — every call carries an x-goog-request-params header that follows AIP-4222 (DESIGN §7.6).

Streams (corpus first):
  corpus   : corpus/C06/*.json replayed through the same path as generated cases
  T2a      : RoutingParameter.to_regex()/key of generated templates vs the Lean model (AST equality with CPython's
             parse of the real pattern; captures through Python `re` vs the Lean engine) + the regex-free
             template-language oracle
  T2b      : routing_header.to_routing_header vs the model's urlencode
  T2c      : Method.field_headers / FieldHeader.disambiguated on generated http rules vs the model
  T3       : generated APIs (explicit / implicit / both / none) -> real generator -> emitted sync, asyncio and REST
             clients against loopback servers; header seen by the server vs oracle vs model

Second deepening round: the services live in the API package or in proto sub-packages (six package layouts, one or
two services; `autogen-snippets=false`), http rules with `custom {kind, path}` verbs, the asyncio REST transport
(`rest_async_io_enabled`), the named segment written `{key}`, varying caller metadata; probes outside the statement
(a caller's own x-goog-request-params pair, a template without named segment in the emitted chain) are compared with
the model only (`c06.transport`, `chain_raises`), never judged by the oracle.
"""
from __future__ import annotations
import copy, glob, json, keyword, os, re, tempfile, urllib.parse
import apigen, genrun, libhost, rpc, translate, common

PKG = "acme.lib.v1"
KEYWORDS = set(keyword.kwlist)
COLL = ["projects", "locations", "instances", "tables", "shelves", "books", "regions", "zones", "profiles",
        "v1", "k8s-items", "item_2", "Organizations"]
KEYS = ["routing_id", "table_location", "name", "project", "k", "table_name", "parent", "app_profile_id"]
SEG_ALPHA = "abcdefghijklmnopqrstuvwxyzABCXYZ0123456789-_.~ &=%+?#:@!$,;*()'\"<>[]{}|^`\\éßñ日本 \U0001F600"
TOP = ["name", "parent", "table_name", "app_profile_id", "resource", "type"]
NESTED = ["book.name", "book.title", "book.format", "book.shelf.name", "book.shelf.id", "book.shelf.type", "book.class",
          "book.shelf.import"]
KW_TOP = ["from", "class"]
INTS = {"num": "int32", "big": "int64", "book.pages": "int32"}      # non-string path variables (implicit routing only)
INT_VALUES = {"int32": ["0", "1", "7", "-3", "2147483647"], "int64": ["0", "5", "-1", "9007199254740993"]}
HDR = "x-goog-request-params"
SAFE_HEADER = re.compile(r"^[A-Za-z0-9_.~/%+=&-]*$")

# ------------------------------------------------------------------ templates (structured)


def render_tok(t):
    return {"lit": lambda: t[1], "star": lambda: "*", "dstar": lambda: "**"}[t[0]]()


def render_seg(s):
    if s[0] == "named":
        return "{" + s[1] + "=" + "/".join(render_tok(t) for t in s[2]) + "}"
    if s[0] == "bare":                  # `{key}`: google.api.http's short form of `{key=*}`
        return "{" + s[1] + "}"
    return render_tok(s)


def is_named(s):
    return s[0] in ("named", "bare")


def named_sub(s):
    """the unnamed segments a named segment spans (`{key}` = one `*`)"""
    return s[2] if s[0] == "named" else [["star"]]


def render_template(segs):
    return "/".join(render_seg(s) for s in segs)


def gen_unnamed(r, lo, hi, allow_final_dstar):
    """a run of unnamed segments: collection ids and `*`, optionally ending in `**`"""
    toks = []
    for _ in range(r.randint(lo, hi)):
        k = r.random()
        if k < 0.45:
            toks += [["lit", r.pick(COLL)], ["star"]]
        elif k < 0.75:
            toks.append(["star"])
        else:
            toks.append(["lit", r.pick(COLL)])
    if allow_final_dstar and r.maybe(0.4):
        toks.append(["dstar"])
    return toks


def gen_template(r, key=None, allow_bare=False):
    """routing path template per the quantifier: `{key=*}`, `{key=**}`, literal prefixes/suffixes; exactly one
    named segment; `**` only as the last segment of the whole template"""
    key = key or r.pick(KEYS)
    k = r.random()
    if k < 0.15:
        sub = [["dstar"]]
    elif k < 0.3:
        sub = [["star"]]
    else:
        sub = gen_unnamed(r, 1, 2, True)
    pre = gen_unnamed(r, 0, 2, False) if r.maybe(0.45) else []
    if sub[-1] == ["dstar"]:
        post = []
    else:
        post = gen_unnamed(r, 0, 2, True) if r.maybe(0.6) else []
    # `{key}` (google.api.http's short form; `to_regex` rewrites it to `{key=*}`) only at function level: a routing rule
    # with it cannot be generated at all (uri_sample.sample_from_path_template needs the `=`; recorded probe)
    named = ["bare", key] if (allow_bare and sub == [["star"]] and r.maybe(0.3)) else ["named", key, sub]
    return pre + [named] + post


def flat_toks(segs):
    out = []
    for s in segs:
        if is_named(s):
            out += [(t, True) for t in named_sub(s)]
        else:
            out.append((s, False))
    return out


def ref_capture(segs, value):
    """AIP-4222 / routing.proto template language, segment by segment (NO regular expressions):
    a literal matches an equal segment, `*` one non-empty segment, a final `**` zero or more segments.
    Returns the text matched by the named segment, or None."""
    toks = flat_toks(segs)
    parts = value.split("/")
    has_ds = bool(toks) and toks[-1][0] == ["dstar"]
    fixed = toks[:-1] if has_ds else toks
    if len(parts) < len(fixed) or (not has_ds and len(parts) != len(fixed)):
        return None
    for (t, _), p in zip(fixed, parts):
        if t[0] == "lit" and p != t[1]:
            return None
        if t[0] == "star" and p == "":
            return None
    idx = [i for i, (_, n) in enumerate(toks) if n]
    lo, hi = idx[0], idx[-1]
    cap = parts[lo:] if (has_ds and toks[-1][1]) else parts[lo:hi + 1]
    return "/".join(cap)


REST_ALPHA = "abcdefghijklmnopqrstuvwxyz0123456789-_.~ &=+é"


def gen_segment(r, rest=False):
    n = r.randint(1, 5)
    if rest:
        return "".join(r.pick(REST_ALPHA) for _ in range(n)).strip() or "s"
    if r.maybe(0.6):
        return "".join(r.pick("abcdefghijklmnopqrstuvwxyz0123456789-_") for _ in range(n))
    return "".join(r.pick(SEG_ALPHA) for _ in range(n))


def matching_value(r, toks, rest=False):
    parts = []
    for t in toks:
        if t[0] == "lit":
            parts.append(t[1])
        elif t[0] == "star":
            parts.append(gen_segment(r, rest))
        else:
            parts += [gen_segment(r, rest) for _ in range(r.randint(1 if rest else 0, 3))]
            if r.maybe(0.1) and not rest:
                parts.append("")
    return "/".join(parts)


def mutate_value(r, v, toks):
    k = r.randint(0, 7)
    parts = v.split("/")
    if k == 0:
        return ""
    if k == 1 and len(parts) > 1:
        del parts[r.randrange(len(parts))]
    elif k == 2:
        parts.append(gen_segment(r))
    elif k == 3:
        lits = [i for i, t in enumerate(toks) if t[0] == "lit" and i < len(parts)]
        if lits:
            i = r.pick(lits)
            parts[i] = parts[i] + "x" if r.maybe() else parts[i][:-1]
        else:
            parts.insert(0, "zz")
    elif k == 4:
        stars = [i for i, t in enumerate(toks) if t[0] == "star" and i < len(parts)]
        if stars:
            parts[r.pick(stars)] = ""
        else:
            parts = [""] + parts
    elif k == 5:
        return "/" + v
    elif k == 6:
        return v + "/"
    else:
        return gen_segment(r)
    return "/".join(parts)


def gen_value_for(r, toks):
    v = matching_value(r, toks)
    if r.maybe(0.4):
        v = mutate_value(r, v, toks)
    return v


def seg_json(segs):
    return segs     # already the driver's shape

# ------------------------------------------------------------------ T2a: templates


def real_param(field, template):
    from gapic.schema import wrappers
    return wrappers.RoutingParameter(field, template)


def check_templates(ctx, r, ntemplates, nvalues, extra=()):
    cases = [(gen_template(r, allow_bare=True), None) for _ in range(ntemplates)] + list(extra)
    cases += [(gen_unnamed(r, 1, 3, True), None) for _ in range(max(1, ntemplates // 12))]      # no named segment
    ops, metas = [], []
    for segs, vals in cases:
        toks = [t for t, _ in flat_toks(segs)]
        values = vals if vals is not None else [gen_value_for(r, toks) for _ in range(nvalues)] + ["", "/"]
        ops.append({"op": "c06.template", "segs": seg_json(segs), "values": values})
        metas.append((segs, values))
    model = ctx.driver.ask(ops)
    for (segs, values), mo in zip(metas, model):
        tmpl = render_template(segs)
        payload = {"template_segs": segs, "template": tmpl}
        ctx.count("template_shape", shape_of(segs) if any(is_named(x) for x in segs) else "unnamed")
        try:
            p = real_param("f", tmpl)
            pat = p.to_regex().pattern
            key = p.key
        except Exception as e:  # noqa
            ctx.case(distinct_key=["tmpl", tmpl])
            ctx.fail("to-regex-raised", f"to_regex raised {type(e).__name__}: {e} for {tmpl!r}", payload)
            continue
        if mo.get("error") == "noNamed":
            # template without named segment: accepted by the code (key falls back to the field), no group
            try:
                real = translate.regex_to_json(pat)
            except Exception as e:  # noqa
                real = {"re": None, "names": None, "error": str(e)}
            if real["re"] != mo["regex"]["re"] or real["names"] != mo["regex"]["names"] or key != "f" or mo["rendered"] != tmpl:
                ctx.disagree("T2:c06.to_regex_unnamed", f"regex AST/key differ for {tmpl!r}: impl {pat!r} key {key!r}", payload)
            rx = re.compile(pat)
            for v, mm, ms, mr in zip(values, mo["matches"], mo["scanmatches"], mo["chain_raises"]):
                ctx.case(distinct_key=["tv0", tmpl, v], nontrivial=True)
                ctx.traces += 1
                if bool(rx.match(v)) != mm or mm != ms:
                    ctx.disagree("T2:c06.match_unnamed", f"{tmpl!r} on {v!r}: impl {bool(rx.match(v))} model {mm} scanner {ms}", {**payload, "value": v})
                # what the emitted `if regex_match and regex_match.group("<key>")` does with this pattern and key
                raises = rx.match(v) is not None and str(_group_or_error(rx, v, key)).startswith("raised IndexError")
                if raises != mr:
                    ctx.disagree("T2:c06.unnamed_chain", f"{tmpl!r} on {v!r}: `.group({key!r})` raises IndexError: impl {raises}, model {mr}", {**payload, "value": v})
            continue
        if "error" in mo or mo.get("unsupported"):
            ctx.unsupported += 1
            continue
        if mo["rendered"] != tmpl:
            ctx.disagree("T2:c06.render", f"model renders {mo['rendered']!r} for {tmpl!r}", payload)
        try:
            real = translate.regex_to_json(pat)
        except Exception as e:  # noqa
            real = {"re": None, "names": None, "error": str(e)}
        if real["re"] != mo["regex"]["re"] or real["names"] != mo["regex"]["names"] or key != mo["key"]:
            ctx.disagree("T2:c06.to_regex", f"regex AST/key differ for {tmpl!r}: impl {pat!r} key {key!r}, model key {mo['key']!r}", payload)
        rx = re.compile(pat)
        for v, mc, ms in zip(values, mo["captures"], mo["scan"]):
            m = rx.match(v)
            got = m.group(key) if m else None
            want = ref_capture(segs, v)
            ctx.case({"template": tmpl, "value": v, "capture": got} if want else None,
                     distinct_key=["tv", tmpl, v], nontrivial=True)
            ctx.count("capture", "match" if want is not None else "no-match")
            ctx.traces += 1
            if (got or None) != (want or None):     # an empty capture contributes nothing, like no match
                ctx.fail("regex-vs-template-language", f"{tmpl!r} on {v!r}: regex captures {got!r}, template language says {want!r}",
                         {**payload, "value": v})
            if mc != got:
                ctx.disagree("T2:c06.capture", f"{tmpl!r} on {v!r}: model {mc!r} vs impl {got!r}", {**payload, "value": v})
            if ms != mc:
                ctx.disagree("T2:c06.scan", f"{tmpl!r} on {v!r}: model regex capture {mc!r} vs model reference {ms!r}", {**payload, "value": v})


def shape_of(segs):
    toks = flat_toks(segs)
    named = [s for s in segs if is_named(s)][0]
    i = segs.index(named)
    inner = "/".join(t[0] for t in named[2]) if named[0] == "named" else "bare"
    return ("pre+" if i > 0 else "") + "{" + inner + "}" + ("+post" if i < len(segs) - 1 else "") + \
        ("+tail**" if segs[-1] == ["dstar"] else "")


def check_many_named(ctx, r, n):
    ops, metas = [], []
    for _ in range(n):
        segs = gen_template(r, allow_bare=True) + [["lit", r.pick(COLL)]] + [s for s in gen_template(r, allow_bare=True) if is_named(s)]
        ops.append({"op": "c06.template", "segs": segs, "values": []})
        metas.append(segs)
    for segs, mo in zip(metas, ctx.driver.ask(ops)):
        tmpl = render_template(segs)
        ctx.case(distinct_key=["many", tmpl], nontrivial=False)
        try:
            real_param("f", tmpl).to_regex()
            raised = None
        except ValueError:
            raised = "ValueError"
        except Exception as e:  # noqa
            raised = type(e).__name__
        ctx.traces += 1
        if (raised == "ValueError") != (mo.get("error") == "manyNamed"):
            ctx.disagree("T2:c06.many_named", f"{tmpl!r}: impl raised {raised}, model {mo}", {"template_segs": segs, "template": tmpl})

# ------------------------------------------------------------------ T2e: literal segments are copied into the pattern unescaped

DOT_LITS = ["v1.0", "k8s.io", "a.b.c", ".", "items.", "projects", "k8s-items", "item_2", "v1"]


def check_literals(ctx, r, n):
    """a template that is one collection id: the real pattern vs `litItemsReal` (a `.` is the regex `any`); the values
    on which the regex and the template language differ lie outside the generated space (hypothesis of
    `lit_items_plain`, witness `dot_literal_counterexample`) and are only compared with the model"""
    lits = DOT_LITS + ["".join(r.pick("abcxyz019._-") for _ in range(r.randint(1, 6))) for _ in range(n)]
    ops, metas = [], []
    for lit in lits:
        values = [lit, lit.replace(".", "x"), lit.replace(".", "/"), lit + "x", lit[:-1], ""]
        ops.append({"op": "c06.literal", "lit": lit, "values": values})
        metas.append((lit, values))
    for (lit, values), mo in zip(metas, ctx.driver.ask(ops)):
        pat = real_param("f", lit).to_regex().pattern
        real = translate.regex_to_json(pat)
        ctx.case(distinct_key=["lit", lit], nontrivial="." in lit)
        ctx.count("literal", "with-dot" if "." in lit else "plain")
        ctx.traces += 1
        if real["re"] != mo["regex"]["re"] or mo["plain"] != ("." not in lit):
            ctx.disagree("T2:c06.literal", f"literal template {lit!r}: impl pattern {pat!r} differs from the model's", {"lit": lit})
        rx = re.compile(pat)
        for v, mm in zip(values, mo["matches"]):
            if bool(rx.match(v)) != mm:
                ctx.disagree("T2:c06.literal_match", f"literal template {lit!r} on {v!r}: impl {bool(rx.match(v))}, model {mm}", {"lit": lit, "value": v})

# ------------------------------------------------------------------ T2d: RoutingRule.resolve (schema side, feeds the emitted tests)


def check_schema_resolve(ctx, r, n):
    from gapic.schema import wrappers
    ops, metas = [], []
    for i in range(n):
        spec = gen_spec(r, i, "explicit")
        params = [p for p in spec["params"]]
        rule = wrappers.RoutingRule([wrappers.RoutingParameter(p["field"], render_template(p["segs"]) if p["segs"] is not None else "")
                                     for p in params])
        reqs = []
        for _ in range(3):
            q = gen_request(r, spec)
            for f in list(q):
                if f in INTS:
                    del q[f]
            mode = r.randrange(3)           # 0: unset fields absent (as `nest` does); 1: every field present; 2: drop one
            flat = dict(q) if mode else {k: v for k, v in q.items() if v != ""}
            if mode == 2 and flat:
                del flat[r.pick(sorted(flat))]
            reqs.append(flat)
        ops.append({"op": "c06.schema", "params": [{"field": p["field"], "segs": p["segs"]} for p in params], "requests": reqs})
        metas.append((spec, rule, reqs))
    for (spec, rule, reqs), mo in zip(metas, ctx.driver.ask(ops)):
        for flat, mp in zip(reqs, mo.get("results", [None] * len(reqs))):
            d = {}
            for path, v in flat.items():
                cur = d
                parts = path.split(".")
                for x in parts[:-1]:
                    cur = cur.setdefault(x, {})
                cur[parts[-1]] = v
            ctx.case(distinct_key=["schema", json.dumps(spec["params"], sort_keys=True), json.dumps(flat, sort_keys=True)], nontrivial=True)
            ctx.traces += 1
            try:
                impl = [[k, v] for k, v in wrappers.RoutingRule.resolve(rule, d).items()]
            except Exception as e:  # noqa
                impl = f"raised {type(e).__name__}: {e}"
            if impl != mp:
                ctx.disagree("T2:c06.schema_resolve", f"RoutingRule.resolve {impl} vs model {mp}", {"spec": spec, "request": flat})
            # where the Lean theorem `schema_resolve_agrees` applies (all fields present, no empty value) the schema side must
            # give what AIP-4222 gives: the emitted tests then expect what the emitted client must send
            if isinstance(impl, list) and all(f in flat for f in spec_fields(spec) if f not in INTS) and all(v != "" for _, v in impl):
                present, want = expected_pairs({**spec, "http": None}, flat)
                if sorted(impl) != sorted(want):
                    ctx.disagree("T2:c06.schema_vs_aip", f"RoutingRule.resolve {impl} vs AIP-4222 {want}", {"spec": spec, "request": flat})

# ------------------------------------------------------------------ T2b: encoding


def check_encode(ctx, r, n):
    from google.api_core.gapic_v1 import routing_header
    ops, metas = [], []
    for _ in range(n):
        pairs = [[r.pick(KEYS + NESTED), "/".join(gen_segment(r) for _ in range(r.randint(0, 3)))] for _ in range(r.randint(1, 3))]
        ops.append({"op": "c06.encode", "pairs": pairs})
        metas.append(pairs)
    for pairs, mo in zip(metas, ctx.driver.ask(ops)):
        impl = routing_header.to_routing_header([tuple(p) for p in pairs])
        ctx.case(distinct_key=["enc", pairs], nontrivial=True)
        ctx.traces += 1
        if impl != mo["header"]:
            ctx.disagree("T2:c06.encode", f"urlencode differs: impl {impl!r} model {mo['header']!r}", {"pairs": pairs})
        oracle_header(ctx, impl, pairs, {"pairs": pairs}, "encode")


def oracle_header(ctx, header, want_pairs, payload, where, key=None):
    """statement: values are URL-encoded and the header carries exactly the expected key/value pairs"""
    if not SAFE_HEADER.match(header):
        ctx.fail("header-not-url-encoded", f"{where}: header {header!r} contains characters outside the URL-safe set", payload)
        return False
    try:
        got = urllib.parse.parse_qsl(header, keep_blank_values=True, strict_parsing=True, encoding="utf-8", errors="strict") if header else []
    except ValueError as e:
        ctx.fail("header-not-url-encoded", f"{where}: header {header!r} does not parse: {e}", payload)
        return False
    if sorted(map(list, got)) != sorted(map(list, want_pairs)):
        ctx.fail(key or "header-pairs", f"{where}: header {header!r} carries {got}, expected {want_pairs}", payload)
        return False
    return True

# ------------------------------------------------------------------ http paths (implicit routing)


def gen_http(r, fields, nvars=None, stem=None):
    """an http path with its verb: 0..3 variables over distinct fields, literal segments around them (`stem`: a literal
    segment after `v1` that keeps the paths of one method's bindings apart)"""
    nvars = r.randint(1, 3) if nvars is None else nvars
    nvars = min(nvars, len(fields))
    chosen = []
    pool = list(fields)
    for _ in range(nvars):
        f = r.pick(pool)
        pool.remove(f)
        chosen.append(f)
    parts = [["lit", "v1"]] + ([["lit", stem]] if stem else [])
    for i, f in enumerate(chosen):
        last = i == nvars - 1
        k = r.random()
        if f in INTS:
            sub = None if k < 0.6 else [["star"]]
        elif k < 0.3:
            sub = None
        elif k < 0.45:
            sub = [["star"]]
        elif k < 0.55 and last:
            sub = [["dstar"]]
        else:
            sub = gen_unnamed(r, 1, 2, last)
        if r.maybe(0.5):
            parts.append(["lit", r.pick(COLL)])
        parts.append(["var", f, sub])
    if r.maybe(0.3) and not (parts[-1][0] == "var" and parts[-1][2] and parts[-1][2][-1] == ["dstar"]):
        parts.append(["lit", r.pick(["settings", "config", "items"])])
    verb = r.pick(STD_VERBS)
    if r.maybe(0.15):
        verb = r.pick(CUSTOM_KINDS)     # `custom { kind: "HEAD" path: "…" }`: a path template like any other (no REST binding)
    suffix = ":" + r.pick(["run", "cancel", "move"]) if r.maybe(0.25) else ""
    return {"verb": verb, "parts": parts, "suffix": suffix}


STD_VERBS = ["get", "post", "put", "patch", "delete"]
CUSTOM_KINDS = ["HEAD", "OPTIONS", "LIST"]


def model_verb(v):
    return v if v in STD_VERBS else "custom:" + v


def rule_json(h, bindings=()):
    """the google.api.http rule as written, for the model (`HttpRule`): member of the `pattern` oneof, path, bindings"""
    if not h:
        return None
    return {"verb": model_verb(h["verb"]), "path": render_http(h), "bindings": [[model_verb(v), p] for v, p in bindings]}


def bindings_of(spec):
    """the additional bindings of the method's http rule as (verb, path): `bindings` (structured) and the older
    `binding` (one get path)"""
    out = [(b["verb"], render_http(b)) for b in spec.get("bindings") or []]
    if spec.get("binding"):
        out.append(("get", spec["binding"]))
    return out if spec.get("http") else []


def binding_vars(spec):
    """variables that occur in additional bindings (never routed on; the request still has values for them)"""
    out = []
    for b in (spec.get("bindings") or []) if spec.get("http") else []:
        out += [v for v in http_vars(b) if v not in out]
    return out


BIND_FIELDS = TOP + KW_TOP + ["book.name", "book.shelf.name", "book.class"]


def gen_bindings(r, spec):
    """1..2 additional bindings whose paths have 0..3 variables drawn without regard to the primary path's: other,
    more, fewer or the same variables, every verb incl. custom"""
    return [gen_http(r, BIND_FIELDS, nvars=r.pick([0, 1, 1, 1, 2, 2, 3]), stem=f"alt{j}") for j in range(r.randint(1, 2))]


def render_http(h):
    out = []
    for p in h["parts"]:
        if p[0] == "lit":
            out.append(p[1])
        else:
            out.append("{" + p[1] + ("=" + "/".join(render_tok(t) for t in p[2]) if p[2] is not None else "") + "}")
    return "/" + "/".join(out) + h["suffix"]


def http_vars(h):
    """the variables of the path template, read off the structure (no regex)"""
    return [p[1] for p in h["parts"] if p[0] == "var"]


def var_toks(h, field):
    for p in h["parts"]:
        if p[0] == "var" and p[1] == field:
            return p[2] if p[2] is not None else [["star"]]
    return None


def value_matches(toks, v):
    return ref_capture([["named", "x", toks]], v) is not None


def rest_accepts(toks, v):
    """google.api_core's transcoding is stricter than AIP-4222's `**` (it wants at least one segment) and rejects
    unset fields: only plumbing, decides whether a REST call can be made at all"""
    parts = v.split("/")
    if v == "" or "" in parts or not value_matches(toks, v):
        return False
    if v == "0" or any(ch not in REST_ALPHA + "/ABCXYZ" for ch in v) or "." in parts or ".." in parts:
        return False        # keep URL parsing/normalisation of the loopback hop (C04's subject) out of this check
    return not (toks[-1] == ["dstar"] and len(parts) < len(toks))

# ------------------------------------------------------------------ method specs


def gen_spec(r, idx, kind=None):
    kind = kind or r.pick(["explicit", "explicit", "explicit", "explicit", "implicit", "implicit", "implicit", "both", "none",
                           "empty-rule"])
    spec = {"name": f"Method{idx}", "kind": kind, "params": None, "http": None, "stream": None, "binding": None}
    k = r.random()
    if k < 0.08:
        spec["stream"] = "cs"           # client streaming: no request when the call starts
    elif k < 0.16:
        spec["stream"] = "ss"
    if kind in ("explicit", "both"):
        nparams = r.randint(1, 5)
        fields = [r.pick(TOP + NESTED + KW_TOP) for _ in range(r.randint(1, 3))]
        keys = [r.pick(KEYS) for _ in range(r.randint(1, 2))]
        params = []
        for _ in range(nparams):
            f = r.pick(fields)
            if r.maybe(0.25):
                params.append({"field": f, "segs": None})
            else:
                key = r.pick(keys + [x for x in fields if "." not in x]) if r.maybe(0.85) else r.pick(KEYS)
                params.append({"field": f, "segs": gen_template(r, key)})
        if r.maybe(0.04):       # a template whose regex exceeds the 200-character repr limit of re.Pattern
            sub = []
            for c in (COLL * 2)[:r.randint(11, 14)]:
                sub += [["lit", c], ["star"]]
            params.append({"field": r.pick(fields), "segs": [["named", r.pick(keys), sub], ["dstar"]]})
        spec["params"] = params
    if kind == "empty-rule":
        spec["params"] = []
    if kind in ("implicit", "both"):
        spec["http"] = gen_http(r, TOP + NESTED + KW_TOP + list(INTS))
    elif kind == "empty-rule":      # annotation without parameters: AIP-4222 = send nothing, even with http variables
        spec["http"] = gen_http(r, TOP + NESTED + KW_TOP + list(INTS)) if r.maybe(0.7) else None
    if kind == "explicit":
        spec["http"] = {"verb": "post", "parts": [["lit", "v1"], ["lit", f"m{idx}"]], "suffix": ":call"} if r.maybe(0.8) else None
    elif kind == "none":
        # no annotation and a primary path WITHOUT variables: no header, whatever the additional bindings say
        spec["http"] = {"verb": r.pick(["get", "post"] + CUSTOM_KINDS[:1]), "parts": [["lit", "v1"], ["lit", f"m{idx}"]],
                        "suffix": r.pick(["", "", ":search"])} if r.maybe(0.8) else None
    # additional bindings: implicit routing looks at the PRIMARY path only (0, 1, 2, 3 variables there x 0..3 here)
    if spec["http"] and r.maybe({"none": 0.7, "explicit": 0.25}.get(kind, 0.45)):
        spec["bindings"] = gen_bindings(r, spec)
    return spec


def spec_fields(spec):
    fs = []
    for p in spec["params"] or []:
        if p["field"] not in fs:
            fs.append(p["field"])
    if spec["http"]:
        for v in http_vars(spec["http"]) + binding_vars(spec):
            if v not in fs:
                fs.append(v)
    return fs


def templates_for_field(spec, f):
    out = []
    for p in spec["params"] or []:
        if p["field"] == f and p["segs"] is not None:
            out.append([t for t, _ in flat_toks(p["segs"])])
    for h in ([spec["http"]] + list(spec.get("bindings") or [])) if spec["http"] else []:
        t = var_toks(h, f)
        if t is not None:
            out.append(t)
    return out


def gen_request(r, spec, rest_friendly=False):
    """flat {field path: string}; empty string = unset"""
    req = {}
    for f in spec_fields(spec):
        tl = templates_for_field(spec, f)
        if f in INTS:
            req[f] = r.pick(INT_VALUES[INTS[f]][1:] if rest_friendly else INT_VALUES[INTS[f]])
            continue
        if rest_friendly and spec["http"] and var_toks(spec["http"], f) is not None:
            req[f] = matching_value(r, var_toks(spec["http"], f), rest=True)
            continue
        k = r.random()
        if k < 0.12:
            req[f] = ""
        elif tl and k < 0.9:
            req[f] = gen_value_for(r, r.pick(tl))
        else:
            req[f] = "/".join(gen_segment(r) for _ in range(r.randint(1, 3)))
    if r.maybe(0.3):
        req.setdefault("resource", "unrelated/" + gen_segment(r))
    return req


def empty_request(spec):
    """what `request=None` means: every field at its default"""
    return {f: ("0" if f in INTS else "") for f in spec_fields(spec)}


def nest(flat, literal=False):
    """nested JSON valuation (literal=True: the dict a caller would write, python ints for integer fields)"""
    d = {}
    for path, v in flat.items():
        if v == "" or (path in INTS and v == "0"):
            continue
        if path in INTS and (literal or INTS[path] == "int32"):
            v = int(v)
        cur = d
        parts = path.split(".")
        for p in parts[:-1]:
            cur = cur.setdefault(p, {})
        cur[parts[-1]] = v
    return d


def expected_pairs(spec, req):
    """AIP-4222, independent of the generator and of the Lean model.  Returns (present?, pairs)."""
    if spec["params"] is not None:            # google.api.routing present: explicit rule, http ignored
        out = {}
        for p in spec["params"]:
            v = req.get(p["field"], "")
            if p["segs"] is None:
                if v != "":
                    out[p["field"]] = v
            else:
                cap = ref_capture(p["segs"], v)
                if cap:
                    key = [s for s in p["segs"] if is_named(s)][0][1]
                    out[key] = cap
        return (bool(out), [[k, v] for k, v in out.items()])
    if spec["http"] and http_vars(spec["http"]):
        return (True, [[v, req.get(v, "0" if v in INTS else "")] for v in http_vars(spec["http"])])
    return (False, [])


def classify(spec):
    """signature key of a known-finding shape (None: none listed; the four shapes of corpus/C06 were repaired in /repo
    and are ordinary inputs now)"""
    return None


def attr_variants(path, value):
    """python attribute paths under which proto-plus exposes field `path` (raw name via its `_` fallback unless
    it is a keyword; suffixed name for reserved words) -> plumbing for the model's Request"""
    from gapic.utils import RESERVED_NAMES
    outs = [[]]
    for c in path.split("."):
        opts = []
        if c not in KEYWORDS:
            opts.append(c)
        if c in RESERVED_NAMES:
            opts.append(c + "_")
        outs = [o + [x] for o in outs for x in opts]
    d = {".".join(o): value for o in outs}
    return d


def model_request(req):
    d = {}
    for k, v in req.items():
        d.update(attr_variants(k, v))
    return d

# ------------------------------------------------------------------ API building

ALL_FIELDS = TOP + KW_TOP

# package layouts of the target files (`%sub` of the template tree).  Initial letters of service sub-packages and of
# type sub-packages are pairwise distinct, so that `acme.lib.v1` stays the common root (Naming.build: commonprefix).
SVC_SUBS = ["admin", "beta.deep", "keepers"]
TYPE_SUBS = ["resources", "x"]
FLAT = {"kind": "flat", "svc": None, "types": None, "svc2": None}
SERVICE_NAMES = ["Library", "Catalog"]


def gen_layout(r):
    """where the service(s) and the messages are declared: all in the API package (`flat`); the service in a
    sub-package; everything in ONE sub-package; the messages in a sub-package; both in different sub-packages; two
    services (the second always in a sub-package of its own)"""
    k = r.pick(["flat"] * 3 + ["svc-sub"] * 2 + ["all-sub", "types-sub", "both-sub", "two-svc", "two-svc"])
    lay = dict(FLAT, kind=k)
    a = r.pick(SVC_SUBS)
    if k == "svc-sub":
        lay["svc"] = a
    elif k == "all-sub":
        lay["svc"] = lay["types"] = a
    elif k == "types-sub":
        lay["types"] = r.pick(TYPE_SUBS)
    elif k == "both-sub":
        lay["svc"], lay["types"] = a, r.pick(TYPE_SUBS)
    elif k == "two-svc":
        lay["svc"] = a if r.maybe(0.4) else None
        lay["svc2"] = r.pick([x for x in SVC_SUBS if x != a])
        if r.maybe(0.3):
            lay["types"] = r.pick(TYPE_SUBS)
    return lay


def pkg_of(sub):
    return PKG + ("." + sub if sub else "")


def service_pkg(layout, i):
    """the proto package of the file that declares service i"""
    return pkg_of(layout["svc2"] if i == 1 else layout["svc"])


def api_root(layout, used):
    """what the generator takes as the API's proto package: the common root of the target files' packages"""
    pk = {pkg_of(layout["types"])} | {service_pkg(layout, i) for i in used}
    return os.path.commonprefix(tuple(pk)).rstrip(".")


def svc_index(spec, layout):
    return 1 if (spec.get("svc") == 1 and layout.get("svc2")) else 0


def build_files(specs, layout=None):
    layout = layout or FLAT

    def path_of(sub, stem):
        return "acme/lib/v1/" + (sub.replace(".", "/") + "/" if sub else "") + stem + ".proto"
    used = sorted({svc_index(s, layout) for s in specs})
    one_file = used == [0] and layout["svc"] == layout["types"]
    f = apigen.File(path_of(layout["types"], "lib" if one_file else "lib_types"), pkg_of(layout["types"]))
    files = [f]
    shelf_fields, book_fields = ["name", "id", "type"], ["name", "title", "format"]
    for s in specs:
        for fld in spec_fields(s):
            parts = fld.split(".")
            if parts[0] == "book" and len(parts) == 2 and parts[1] not in book_fields + ["shelf"]:
                book_fields.append(parts[1])
            if parts[:2] == ["book", "shelf"] and len(parts) == 3 and parts[2] not in shelf_fields:
                shelf_fields.append(parts[2])
    shelf = f.msg("Shelf")
    for n in shelf_fields:
        shelf.field(n)
    book = f.msg("Book")
    for n in book_fields:
        book.field(n, INTS.get("book." + n, "string"))
    book.field("shelf", "message", type_name=shelf)
    rs = f.msg("Reply")
    rs.field("note")
    svcs = {}
    for i in used:
        if one_file:
            sf = f
        else:
            sf = apigen.File(path_of(layout["svc2"] if i else layout["svc"], ["lib_service", "catalog_service"][i]), service_pkg(layout, i))
            sf.dep(f.name)
            files.append(sf)
        svcs[i] = sf.service(SERVICE_NAMES[i])
    for s in specs:
        svc = svcs[svc_index(s, layout)]
        rq = f.msg(s["name"] + "Request")
        tops = list(ALL_FIELDS)
        for fld in spec_fields(s):
            head = fld.split(".")[0]
            if head != "book" and head not in tops:
                tops.append(head)
        for n in tops:
            rq.field(n, INTS.get(n, "string"))
        rq.field("book", "message", type_name=book)
        http = None
        body = None
        if s["http"]:
            http = (s["http"]["verb"], render_http(s["http"]))
            if s["http"]["verb"] in ("post", "put", "patch"):
                body = "*"
        routing = None
        if s["params"]:
            routing = [(p["field"], render_template(p["segs"]) if p["segs"] is not None else None) for p in s["params"]]
        m = svc.method(s["name"], rq, rs, http=http, body=body, routing=routing,
                       cs=s.get("stream") == "cs", ss=s.get("stream") == "ss",
                       bindings=[(v, p, "*" if v in ("post", "put", "patch") else None) for v, p in bindings_of(s)])
        if s["params"] is not None and not s["params"]:
            from google.api import routing_pb2
            m.options.Extensions[routing_pb2.routing].SetInParent()
    return files


def write_service_yaml(version):
    """service YAML that switches the asyncio REST transport on (`rest_async_io_enabled`, keyed by the API's package)"""
    import yaml
    y = {"type": "google.api.Service", "config_version": 3, "name": "lib.example.com",
         "publishing": {"library_settings": [{"version": version, "python_settings": {"experimental_features": {"rest_async_io_enabled": True}}}]}}
    fd, path = tempfile.mkstemp(prefix="gapicverif_c06_", suffix=".yaml", dir=genrun.SCRATCH)
    with os.fdopen(fd, "w") as fh:
        yaml.safe_dump(y, fh)
    return path


def header_of_grpc(rec):
    vals = [v for k, v in rec["metadata"] if k.lower() == HDR]
    return vals


def header_of_http(rec):
    return [v for k, v in rec["headers"] if k.lower() == HDR]


GEN_PARAMS = {"standard": "transport=grpc+rest,autogen-snippets=false",
              "ads": "python-gapic-templates=ads-templates,old-naming,autogen-snippets=false"}
CLIENT_KINDS = {"standard": ("grpc", "grpc_asyncio", "rest"), "ads": ("grpc",)}
REST_KINDS = ("rest", "rest_asyncio")
API_CLIENT = [["x-goog-api-client", "gapic"]]        # what the wrapped method appends (its value is not looked at)
CALLER_METADATA = [[["x-verif", "1"]], [["x-verif", "1"]], [], [["x-verif", "1"], ["x-other", "a=b&c d"]],
                   [["x-other", "z"], ["x-verif", "2"], ["x-other", "y"]]]


def run_api(ctx, r, specs, label, ncalls=4, requests=None, templates="standard", layout=None, rest_async=False,
            caller_header=0.0, shared_metadata=None):
    """generate one API for `specs` (services and messages placed per `layout`), T2 on the schema objects, T3 on the
    emitted clients (standard templates: sync gRPC, asyncio gRPC, REST and — with `rest_async` — asyncio REST; ads
    templates: sync gRPC).  All calls of one client kind to one service go through ONE client object, one after the
    other (a program, not isolated calls).  `caller_header`: share of calls in which the caller passes an own
    x-goog-request-params pair (outside the statement: model comparison only).  The caller's `metadata=` argument is,
    per call, absent (the default), a new list, a new tuple, or one of three objects the caller keeps for the whole
    program (two lists, one tuple) and passes again and again (`shared_metadata=True`: every call passes list 0;
    False: never)."""
    import gapic.utils as gu
    layout = layout or FLAT
    files = build_files(specs, layout)
    used = sorted({svc_index(s, layout) for s in specs})
    params = GEN_PARAMS[templates]
    yaml_path = None
    if rest_async and templates == "standard":
        yaml_path = write_service_yaml(api_root(layout, used))
        params += ",service-yaml=" + yaml_path
    try:
        _run_api(ctx, r, specs, label, ncalls, requests, templates, layout, files, used, params, bool(yaml_path), caller_header, gu,
                 shared_metadata)
    finally:
        if yaml_path:
            try:
                os.unlink(yaml_path)
            except OSError:
                pass


SHARED_OBJECTS = [{"kind": "list", "pairs": [["x-verif", "1"]]}, {"kind": "list", "pairs": []},
                  {"kind": "tuple", "pairs": [["x-verif", "1"], ["x-other", "a=b&c d"]]}]


def _run_api(ctx, r, specs, label, ncalls, requests, templates, layout, files, used, params, rest_async, caller_header, gu,
             shared_metadata=None):
    req = apigen.request(files, params)
    base = {"specs": specs, "spec": specs[0], "templates": templates, "layout": layout, "rest_async": rest_async}
    sig = None
    for s in specs:
        sig = sig or classify(s)
    try:
        api, _ = genrun.build_api(req)
    except Exception as e:  # noqa
        ctx.fail(sig or "schema-build-raised", f"API.build raised {type(e).__name__}: {e}", base)
        return
    svcs, locs = {}, {}
    for i in used:
        full = f"{service_pkg(layout, i)}.{SERVICE_NAMES[i]}"
        if full not in api.services:
            ctx.fail("service-missing", f"service {full} is not in the API the generator built ({sorted(api.services)})", base)
            return
        svcs[i] = api.services[full]
        locs[i] = rpc.py_locations(api, svcs[i])
        locs[i]["rest_asyncio"] = f"{locs[i]['service_module']}.transports.rest_asyncio:Async{svcs[i].name}RestTransport"
    ctx.count("package_layout", layout["kind"] + ("+rest_asyncio" if rest_async else ""))
    codec = rpc.Codec(files)
    # ---- requests and how the caller passes them
    plans = []
    for s in specs:
        reqs = requests.get(s["name"]) if requests else None
        if reqs is None:
            reqs = [gen_request(r, s, rest_friendly=(k % 2 == 1)) for k in range(ncalls)]
        modes = []
        for k in range(len(reqs)):
            mode = r.pick(["request-instance", "request-dict", "request-literal-dict", "request-literal-dict"])
            if s.get("stream") == "cs":
                mode = "request-instance"
            elif requests is None and r.maybe(0.06):
                mode = "request-none"
                reqs[k] = empty_request(s)
            modes.append(mode)
        plans.append((s, reqs, modes))
    # ---- T2 on schema-side objects + model answers
    ops = []
    for s, reqs, _ in plans:
        cs = s.get("stream") == "cs"
        # (the ads client.py.j2 calls the same create_metadata macro since e7125a7: one model for both template sets)
        if s["params"] is not None:
            ops.append({"op": "c06.explicit", "params": [{"field": p["field"], "segs": p["segs"]} for p in s["params"]],
                        "client_streaming": cs, "requests": [model_request(q) for q in reqs]})
        else:
            ops.append({"op": "c06.implicit", "rule": rule_json(s["http"], bindings_of(s)), "client_streaming": cs,
                        "requests": [model_request(q) for q in reqs]})
    model = ctx.driver.ask(ops)
    for (s, reqs, _), mo in zip(plans, model):
        m = svcs[svc_index(s, layout)].methods[s["name"]]
        ctx.count("method_kind", s["kind"] + (":" + s["stream"] if s.get("stream") else "") + ("+binding" if bindings_of(s) else "") +
                  ("+custom-verb" if s["http"] and s["http"]["verb"] not in STD_VERBS else ""))
        ctx.traces += 1
        if s["params"] is not None:
            if bool(m.explicit_routing) is not True:
                ctx.disagree("T2:c06.explicit_routing", f"{s['name']}: routing annotation not seen by the schema", {**base, "spec": s})
            if s["params"]:
                impl_keys = [p.key for p in m.routing_rule.routing_parameters]
                if impl_keys != mo.get("keys"):
                    ctx.disagree("T2:c06.key", f"{s['name']}: keys impl {impl_keys} model {mo.get('keys')}", {**base, "spec": s})
        else:
            impl_h = [h.raw for h in m.field_headers]
            impl_a = [h.disambiguated for h in m.field_headers]
            if impl_h != mo["headers"] or impl_a != mo["attrs"]:
                ctx.disagree("T2:c06.field_headers", f"{s['name']}: impl {impl_h}/{impl_a} model {mo['headers']}/{mo['attrs']}", {**base, "spec": s})
            want_vars = http_vars(s["http"]) if s["http"] else []
            if impl_h != want_vars:
                ctx.fail("implicit-variables", f"{s['name']}: field_headers {impl_h}, variables of the primary path {want_vars}", {**base, "spec": s})
    # ---- T3
    res, err = genrun.try_generate(req)
    if err:
        ctx.fail(sig or ("generation-crash:" + err[0]), f"generator raised {err[0]}: {err[1]}", base)
        return
    bad = []
    for fl in res.file:
        if fl.name.endswith(".py") and "/services/" in fl.name:
            try:
                compile(fl.content, fl.name, "exec")
            except SyntaxError as e:
                bad.append(f"{fl.name}:{e.lineno}: {(e.text or '').strip()}")
    if bad:
        for s in specs:
            ctx.case({"spec_kind": s["kind"], "emitted": "SyntaxError"}, distinct_key=["spec", json.dumps(s, sort_keys=True)])
        ctx.fail(sig or "emitted-client-syntax-error",
                 f"emitted client does not parse, no call can carry the header: {bad[0]}", base)
        return
    kinds = CLIENT_KINDS[templates] + (("rest_asyncio",) if rest_async else ())
    if rest_async and not any(fl.name.endswith("transports/rest_asyncio.py") for fl in res.file):
        ctx.fail("rest-asyncio-transport-missing", "rest_async_io_enabled is set for the API's package, no rest_asyncio transport was emitted", base)
        return
    root = genrun.materialise(res)
    try:
        calls_by = {(i, k): [] for i in used for k in kinds}
        index = []
        store = copy.deepcopy(SHARED_OBJECTS)     # the caller's metadata objects of this program (declared once per session)
        for s, reqs, modes in plans:
            i = svc_index(s, layout)
            m = svcs[i].methods[s["name"]]
            for q, mode in zip(reqs, modes):
                b64 = codec.encode_b64(m.input.ident.proto, nest(q))
                user_md = [list(x) for x in r.pick(CALLER_METADATA)]
                own = bool(caller_header) and r.maybe(caller_header)
                how = r.pick(["shared0"] * 5 + ["shared1"] * 2 + ["shared2"] * 2 + ["default"] * 3 + ["list"] * 4 + ["tuple"] * 4)
                if shared_metadata is not None:
                    how = "shared0" if shared_metadata else r.pick(["default", "list", "tuple"])
                if own:     # outside the statement: the caller passes an own routing header (in an object of its own)
                    user_md = user_md[:1] + [[HDR, "caller=" + r.pick(["1", "a/b", "x y"])]] + user_md[1:]
                    how = r.pick(["list", "tuple"])
                if how == "default":
                    md_obj, user_md = None, []
                elif how.startswith("shared"):
                    md_obj = int(how[-1])
                    user_md = store[md_obj]["pairs"]
                else:
                    store.append({"kind": how, "pairs": user_md})
                    md_obj = len(store) - 1
                call = {"method": gu.to_snake_case(m.client_method_name), "mode": mode,
                        "py_request": rpc.py_type(m.input), "request_b64": b64,
                        "consume": "stream" if s.get("stream") == "ss" else "value",
                        "metadata_obj": md_obj, "call_kwargs": {}}
                if mode == "request-literal-dict":
                    call["request_literal"] = nest(q, literal=True)      # what a caller writes, not rebuilt from bytes
                if s.get("stream") == "cs":
                    call["stream_requests"] = [b64]
                rest_ok = (any(k in REST_KINDS for k in kinds) and not s.get("stream") and bool(s["http"]) and
                           s["http"]["verb"] in STD_VERBS and
                           all(rest_accepts(var_toks(s["http"], v), q.get(v, "")) for v in http_vars(s["http"])))
                index.append((s, q, mode, rest_ok, user_md, own, md_obj, how))
                for k in kinds:
                    if k not in REST_KINDS or rest_ok:
                        calls_by[(i, k)].append(copy.deepcopy(call))

        def sess_op(i, k):
            loc = locs[i]
            client = loc["async_client"] if k in ("grpc_asyncio", "rest_asyncio") else loc["client"]
            return {"op": "c06_session", "kind": k, "client": client, "transport": loc[k], "objects": store, "calls": calls_by[(i, k)]}
        order = [(i, k) for i in used for k in kinds]
        out = dict(zip(order, libhost.run(root, [sess_op(i, k) for i, k in order], timeout=600)))
        for (i, kind), sess in out.items():
            if "calls" not in sess:
                ctx.fail(sig or "session-failed", f"T3 {kind} session of {SERVICE_NAMES[i]} failed ({templates} templates, layout {layout['kind']}): "
                         f"{str(sess)[-400:]}", base)
                return
        iters = {ik: iter(out[ik]["calls"]) for ik in order}
        mres = []
        for (s, reqs, _), mo in zip(plans, model):
            for k in range(len(reqs)):
                mres.append(mo["results"][k] if "results" in mo else None)
        # what each transport does with the call's metadata (model: `callMetadata`, `grpcValues`, `restValue`)
        # the program in the model (`runProgram`): per call what the transport receives, and the caller's objects afterwards
        prog = ctx.driver.ask([{"op": "c06.program", "store": [o["pairs"] for o in store], "extra": API_CLIENT,
                                "calls": [{"md": ix[6], "routing": (mo or {}).get("header")} for ix, mo in zip(index, mres)]}])[0]
        tmodel = prog["wires"]
        uses = {}
        for ix in index:
            uses[ix[6]] = uses.get(ix[6], 0) + 1
        for (s, q, mode, rest_ok, user_md, own, md_obj, how), mo, tm in zip(index, mres, tmodel):
            i = svc_index(s, layout)
            payload = {"spec": s, "request": q, "mode": mode, "templates": templates, "layout": layout, "rest_async": rest_async}
            if how.startswith("shared"):
                # replay: the program "this method, called with each of its requests and then with this one, always
                # passing the same list object"
                plan_reqs = [qq for ss, qq, *_ in index if ss is s and qq is not q]
                payload = {**payload, "requests": [q] + plan_reqs + [q], "shared_metadata": True}
                payload.pop("request")
            present, want = expected_pairs(s, q)
            seen = {}
            for kind in kinds:
                if kind in REST_KINDS and not rest_ok:
                    continue
                rec = next(iters[(i, kind)])
                if "ok" not in rec:
                    ctx.fail(f"call-raised:{kind}", f"{s['name']} via {kind}: {rec.get('raised')}: {rec.get('msg', '')[:200]}", {**payload, "client": kind})
                    continue
                srv = rec["server"]
                if len(srv) != 1:
                    ctx.fail("call-count", f"{s['name']} via {kind}: {len(srv)} requests at the server", {**payload, "client": kind})
                    continue
                hs = header_of_http(srv[0]) if kind in REST_KINDS else header_of_grpc(srv[0])
                # ---- correspondence with the model: the header values this transport puts on the wire
                ctx.traces += 1
                if mo is not None:
                    want_hs = ([tm["rest"]] if tm["rest"] is not None else []) if kind in REST_KINDS else tm["grpc"]
                    if hs != want_hs:
                        ctx.disagree("T3:c06.header", f"{s['name']} via {kind} ({templates}, {layout['kind']}): model {want_hs!r} vs impl {hs!r}",
                                     {**payload, "client": kind})
                if kind in REST_KINDS:
                    got_keys = {k.lower() for k, _ in srv[0]["headers"]}
                    lost = [k for k, _ in user_md if k.lower() not in got_keys]
                    if lost:
                        ctx.disagree("T3:c06.rest_metadata", f"{s['name']} via {kind}: caller metadata keys {lost} did not reach the HTTP server", {**payload, "client": kind})
                # ---- the caller's metadata argument after the call (model: `program_store_unchanged`)
                after = rec.get("metadata_after")
                if md_obj is not None:
                    decl = store[md_obj]
                    want_after = [list(p) for p in prog["store"][md_obj]]
                    if after is None or after["pairs"] != want_after or after["type"] != decl["kind"] or not after["same_object"]:
                        ctx.disagree("T3:c06.caller_metadata", f"{s['name']} via {kind}: model leaves the caller's metadata {want_after}, impl {after}",
                                     {**payload, "client": kind})
                    if after is not None and (after["pairs"] != decl["pairs"] or after["type"] != decl["kind"]):
                        ctx.fail("caller-metadata-mutated", f"{s['name']} via {kind}: the caller passed metadata={decl['kind']}({decl['pairs']}) "
                                 f"and holds {after['type']}({after['pairs']}) after the call", {**payload, "client": kind})
                if own:
                    ctx.count("probe", "caller-header:" + kind + ":" + str(len(hs)))
                    continue
                if len(hs) > 1:
                    ctx.fail("header-count", f"{s['name']} via {kind}: the call carries {len(hs)} {HDR} entries {hs} (metadata passed: {how}"
                             f"{', object used by %d calls of this program' % uses[md_obj] if how.startswith('shared') else ''}); "
                             f"exactly one with this request's pairs {want} is due" if present else
                             f"{s['name']} via {kind}: the call carries {len(hs)} {HDR} entries {hs}, none is due", {**payload, "client": kind})
                    continue
                seen[kind] = hs[0] if hs else None
            if own:
                ctx.case(distinct_key=["probe", templates, json.dumps(s, sort_keys=True), json.dumps(q, sort_keys=True), mode], nontrivial=False)
                continue
            ctx.case({"kind": s["kind"], "template": [render_template(p["segs"]) if p["segs"] else None for p in (s["params"] or [])],
                      "http": render_http(s["http"]) if s["http"] else None, "request": q, "header": seen.get("grpc")},
                     distinct_key=["call", templates, layout["kind"], json.dumps(s, sort_keys=True), json.dumps(q, sort_keys=True), mode],
                     nontrivial=s["kind"] not in ("none",))
            ctx.count("expected_header", "present" if present else "absent")
            ctx.count("clients", templates + ":" + "+".join(sorted(seen)))
            ctx.count("call_mode", mode)
            ctx.count("caller_metadata", how + (":reused" if how.startswith("shared") and uses[md_obj] > 1 else ""))
            ctx.count("header_x_rest", f"{'present' if present else 'absent'}/{'rest' if rest_ok else 'no-rest'}")
            known = None        # no listed finding shape (the ads templates honour google.api.routing since e7125a7)
            for kind, h in seen.items():
                # ---- oracle
                if s.get("stream") == "cs":
                    # no request exists when a client-streaming call starts: the statement's pairs cannot be formed;
                    # all it allows is "no routing information"
                    if h not in (None, ""):
                        ctx.fail("client-streaming-header", f"{s['name']} via {kind}: client-streaming call carries {h!r}", {**payload, "client": kind})
                elif not present:
                    if h is not None:
                        ctx.fail(known or "header-when-nothing-matches", f"{s['name']} via {kind}: header {h!r} sent although nothing matches", {**payload, "client": kind})
                elif h is None:
                    ctx.fail(known or "header-missing", f"{s['name']} via {kind}: no {HDR} header, expected {want}", {**payload, "client": kind})
                else:
                    oracle_header(ctx, h, want, {**payload, "client": kind}, f"{s['name']} via {kind}", key=known)
            if len(set(seen.values())) > 1:
                ctx.fail("clients-disagree", f"{s['name']}: sync/asyncio/REST headers differ: {seen}", payload)
    finally:
        genrun.cleanup(root)

# ------------------------------------------------------------------ T2c: field_headers on many http rules


def check_field_headers(ctx, r, nmethods):
    from gapic.utils import RESERVED_NAMES
    f = apigen.File("acme/lib/v1/lib.proto", PKG)
    rs = f.msg("Reply"); rs.field("note")
    rq = f.msg("Req")
    for n in TOP + KW_TOP:
        rq.field(n)
    svc = f.service("Library")
    metas = []
    for i in range(nmethods):
        h = gen_http(r, TOP + KW_TOP + NESTED + ["book.class", "import.name"], nvars=r.pick([0, 1, 1, 2, 3]), stem=f"m{i}")
        verb = r.pick(STD_VERBS + CUSTOM_KINDS[:2])
        h["verb"] = verb
        h["bindings"] = [(b["verb"], render_http(b)) for b in gen_bindings(r, None)] if r.maybe(0.5) else []
        if r.maybe(0.2):
            h["bindings"].append(("get", "/v1/{resource=other/*}"))
        svc.method(f"M{i}", rq, rs, http=(verb, render_http(h)), bindings=[(v, p, None) for v, p in h["bindings"]])
        metas.append(h)
    api, _ = genrun.build_api(apigen.request([f], "transport=grpc", check=False))
    svc_ = api.services[f"{PKG}.Library"]
    ops = []
    for h in metas:
        ops.append({"op": "c06.implicit", "rule": rule_json(h, h["bindings"]), "requests": []})
    for i, (h, mo) in enumerate(zip(metas, ctx.driver.ask(ops))):
        m = svc_.methods[f"M{i}"]
        impl_h = [x.raw for x in m.field_headers]
        impl_a = [x.disambiguated for x in m.field_headers]
        ctx.case({"http": render_http(h), "field_headers": impl_h}, distinct_key=["http", h["verb"], render_http(h)])
        ctx.count("http_vars", len(impl_h))
        ctx.count("primary_x_binding_vars", f"p{len(http_vars(h))}/" + ("none" if not h["bindings"] else "b" + "+".join(str(p.count("{")) for _, p in h["bindings"])))
        ctx.count("http_verb", h["verb"] if h["verb"] in STD_VERBS else "custom")
        # the six slots `field_headers` looks at, read off the real option message
        from google.api import annotations_pb2
        o = m.options.Extensions[annotations_pb2.http]
        if [o.get, o.put, o.post, o.delete, o.patch, o.custom.path] != mo["verbs"]:
            ctx.disagree("T2:c06.http_rule", f"{h['verb']} {render_http(h)!r}: option slots differ from the model's {mo['verbs']}", {"http": h})
        ctx.traces += 1
        if impl_h != mo["headers"] or impl_a != mo["attrs"]:
            ctx.disagree("T2:c06.field_headers", f"{render_http(h)!r}: impl {impl_h}/{impl_a} model {mo['headers']}/{mo['attrs']}", {"http": h})
        if impl_h != http_vars(h):
            ctx.fail("implicit-variables", f"{render_http(h)!r}: field_headers {impl_h}, variables {http_vars(h)}", {"http": h})
        for raw, attr, ok in zip(impl_h, impl_a, mo["attrs_valid"]):
            want_ok = not any(c in KEYWORDS for c in attr.split("."))
            if ok != want_ok:
                ctx.disagree("T2:c06.attr_valid", f"{attr!r}: model valid={ok}, python says {want_ok}", {"http": h})
            want_attr = ".".join(c + "_" if c in RESERVED_NAMES else c for c in raw.split("."))
            if attr != want_attr:
                ctx.fail("reserved-not-suffixed", f"{raw!r} read from {attr!r}", {"http": h})

# ------------------------------------------------------------------ corpus


def corpus_entries():
    out = []
    for p in sorted(glob.glob(os.path.join(common.ROOT, "corpus", "C06", "*.json"))):
        with open(p) as fh:
            blob = json.load(fh)
        out.append((os.path.basename(p), blob.get("payload", blob)))
    return out


def run_payload(ctx, r, payload, label):
    if "spec" in payload or "specs" in payload:
        s = payload["spec"] if "spec" in payload else payload["specs"][0]
        reqs = {s["name"]: [payload["request"]]} if "request" in payload else None
        if "requests" in payload:
            reqs = {s["name"]: payload["requests"]}
        run_api(ctx, r, [s], label, ncalls=3, requests=reqs, templates=payload.get("templates", "standard"),
                layout=payload.get("layout"), rest_async=bool(payload.get("rest_async")), shared_metadata=payload.get("shared_metadata"))
    elif "template_segs" in payload:
        vals = [payload["value"]] if "value" in payload else None
        check_templates(ctx, r, 0, 6, extra=[(payload["template_segs"], vals)])
    elif "pairs" in payload:
        from google.api_core.gapic_v1 import routing_header
        impl = routing_header.to_routing_header([tuple(p) for p in payload["pairs"]])
        oracle_header(ctx, impl, payload["pairs"], payload, "encode")
    elif "http" in payload:
        pass

# ------------------------------------------------------------------ points the hypotheses exclude (informational)


def probe_excluded(ctx):
    """inputs OUTSIDE the property's quantifier, run on the real code; recorded in the evidence, never reported"""
    out = []

    def rec(what, fn):
        try:
            out.append({"point": what, "observed": fn()})
        except Exception as e:  # noqa
            out.append({"point": what, "observed": f"raised {type(e).__name__}: {str(e)[:120]}"})
    rec("value with a newline, template {k=**}",
        lambda: repr(real_param("f", "{k=**}").to_regex().match("a\nb")))
    rec("template `{k}` (no `=`): to_regex / sample_request",
        lambda: [real_param("f", "{k}").to_regex().pattern, real_param("f", "{k}").sample_request])
    rec("template without a named segment `projects/*`: key, and what the emitted `.group(key)` would do",
        lambda: [real_param("f", "projects/*").key, _group_or_error(real_param("f", "projects/*").to_regex(), "projects/p", "f")])
    rec("routing rule whose template has no named segment: what generation does (RoutingRule.resolve on the parameter's own sample, "
        "called by the emitted-test template)", lambda: _resolve_sample(real_param("name", "projects/*")))
    rec("routing rule whose template is `projects/{k}`: what generation does (same call)",
        lambda: _resolve_sample(real_param("name", "projects/{k}")))
    rec("literal with a regex metacharacter `v1.0/{k=*}` on `v1x0/abc`",
        lambda: repr(real_param("f", "v1.0/{k=*}").to_regex().match("v1x0/abc")))
    rec("`**` before the last segment `{k=a/**}/b` on `a/x/b`",
        lambda: real_param("f", "{k=a/**}/b").to_regex().match("a/x/b").group("k"))
    rec("implicit routing on enum / bool fields: what urlencode(str(value)) sends (google-api-core, Python 3.12)",
        lambda: _enum_bool_probe())
    ctx.notes["excluded_points_outside_quantifier"] = out


def _resolve_sample(p):
    from gapic.schema import wrappers
    rule = wrappers.RoutingRule([p])
    return wrappers.RoutingRule.resolve(rule, p.sample_request)


def _enum_bool_probe():
    import enum
    from google.api_core.gapic_v1 import routing_header

    class Color(enum.IntEnum):
        RED = 1
    return routing_header.to_routing_header((("color", Color.RED), ("flag", True)))


def _group_or_error(rx, v, key):
    m = rx.match(v)
    try:
        return m.group(key)
    except Exception as e:  # noqa
        return f"raised {type(e).__name__}: {e}"

# ------------------------------------------------------------------ entry points


def run(ctx):
    ctx.rule = ("routing rules per the quantifier (no template, {key=*}, {key=**}, literal prefixes/suffixes, 1..5 parameters "
                "sharing keys and fields, nested fields) and implicit http templates (1..3 variables, dotted and reserved-word "
                "fields; get/put/post/delete/patch or `custom {kind, path}` primary bindings, additional bindings) x "
                "request values (matching, mutated to non-matching, empty, characters needing escaping) x {sync gRPC, asyncio "
                "gRPC, REST, asyncio REST} x package layouts (service(s) and messages in the API package or in proto "
                "sub-packages, one or two services) x the caller's metadata argument (default, new list, new tuple, or a list / "
                "tuple the caller keeps and passes again in later calls of the same client); per call: exactly one header entry "
                "with THIS call's pairs, caller's argument unchanged; distinct by (template, value) at function level and by (method spec, request) at "
                "T3; non-trivial = every (template, value) pair and every call of a method that has routing information")
    ctx.assume("request values contain no newline (`.` in `.*` does not match it; resource names never contain one)")
    ctx.assume("routing path templates follow routing.proto: exactly one named segment `{key=...}`, `**` only as the last "
               "segment, literal segments are collection ids without regex metacharacters (a `.` in a literal: function level "
               "only, `dot_literal_counterexample`); a template without a named segment (rejected by routing.proto; to_regex "
               "accepts it, generation of such a rule fails in RoutingRule.resolve) occurs at function level only")
    ctx.assume("routing fields are string fields (path variables: strings and integers)")
    ctx.assume("the caller does not pass an x-goog-request-params pair of his own (then gRPC sends both values and REST only "
               "the computed one: `caller_supplied_header_counterexample`; such calls are compared with the model only)")
    ctx.assume("a routing template writes its named segment `{key=...}`: the short form `{key}` is understood by to_regex "
               "(function level, `bare_is_star`) but a rule with it cannot be generated (uri_sample needs the `=`)")
    ctx.assume("REST calls are made only when every http path variable matches its template (transcoding rejects the "
               "request otherwise, before anything is sent)")
    r = ctx.rng("c06")
    # ---- corpus first
    for name, payload in corpus_entries():
        run_payload(ctx, ctx.rng("corpus", name), payload, "corpus:" + name)
        ctx.count("stream", "corpus")
    probe_excluded(ctx)
    # ---- function level
    check_templates(ctx, r, ctx.n(150, 2500), ctx.n(10, 24), extra=FIXED_TEMPLATES)
    check_many_named(ctx, r, ctx.n(10, 60))
    check_literals(ctx, r, ctx.n(20, 300))
    check_encode(ctx, r, ctx.n(200, 3000))
    check_field_headers(ctx, r, ctx.n(60, 600))
    check_schema_resolve(ctx, r, ctx.n(40, 600))
    # ---- T3
    run_probe_api(ctx, r)
    for a in range(ctx.n(5, 260)):
        specs, layout = gen_api(r)
        specs[0] = dict(gen_spec(r, 0, "explicit"), svc=specs[0].get("svc", 0))
        specs[1] = dict(gen_spec(r, 1, "implicit"), svc=specs[1].get("svc", 0))
        run_api(ctx, r, specs, f"api{a}", ncalls=ctx.n(4, 5), layout=layout, rest_async=(a % 2 == 1), caller_header=0.04)
        ctx.count("stream", "generated-api")
    # ---- the alternative ("ads") templates call their own (identical) copy of create_metadata: sync gRPC only
    for a in range(ctx.n(1, 36)):
        specs, layout = gen_api(r)
        run_api(ctx, r, specs, f"ads{a}", ncalls=ctx.n(3, 4), templates="ads", layout=layout)
        ctx.count("stream", "generated-api-ads")


def gen_api(r, n=8):
    """eight methods and where they live: with two services the last methods belong to the second one"""
    layout = gen_layout(r)
    specs = [gen_spec(r, i) for i in range(n)]
    if layout["svc2"]:
        for s in specs[n - 3:]:
            s["svc"] = 1
    return specs, layout


PROBE_SPECS = [
    # ordinary methods of the same service, called with and without a caller-supplied routing header
    {"name": "Method1", "kind": "explicit", "stream": None, "binding": None,
     "params": [{"field": "name", "segs": [["named", "routing_id", [["lit", "projects"], ["star"]]], ["dstar"]]},
                {"field": "parent", "segs": [["lit", "profiles"], ["named", "routing_id", [["star"]]]]}],
     "http": {"verb": "post", "parts": [["lit", "v1"], ["lit", "m1"]], "suffix": ":call"}},
    {"name": "Method2", "kind": "implicit", "stream": None, "binding": "/v1/alt/{parent=shelves/*}", "params": None,
     "http": {"verb": "HEAD", "parts": [["lit", "v1"], ["var", "name", [["lit", "shelves"], ["star"]]]], "suffix": ""}},
    # a primary path WITHOUT variables, additional bindings with one and two: no header on any transport
    {"name": "Method3", "kind": "none", "stream": None, "binding": None, "params": None,
     "http": {"verb": "post", "parts": [["lit", "v1"], ["lit", "books"]], "suffix": ":search"},
     "bindings": [{"verb": "get", "parts": [["lit", "v1"], ["var", "parent", [["lit", "shelves"], ["star"]]], ["lit", "books"]], "suffix": ":search"},
                  {"verb": "LIST", "parts": [["lit", "v1"], ["lit", "alt1"], ["var", "name", None], ["var", "book.name", [["star"]]]], "suffix": ""}]},
    # one variable in the primary path, MORE (and other) variables in the additional binding
    {"name": "Method4", "kind": "implicit", "stream": None, "binding": None, "params": None,
     "http": {"verb": "get", "parts": [["lit", "v1"], ["var", "name", [["lit", "shelves"], ["star"]]]], "suffix": ""},
     "bindings": [{"verb": "get", "parts": [["lit", "v1"], ["lit", "alt0"], ["var", "parent", [["lit", "shelves"], ["star"]]], ["var", "name", [["lit", "shelves"], ["star"]]]], "suffix": ""}]},
]
PROBE_REQUESTS = {"Method1": [{"name": "projects/p/x", "parent": ""}, {"name": "projects/p", "parent": "profiles/q r"}, {"name": "nope", "parent": ""}],
                  "Method2": [{"name": "shelves/s 1"}, {"name": ""}],
                  "Method3": [{"parent": "shelves/1", "name": "n", "book.name": "b"}, {"parent": "", "name": "", "book.name": ""}],
                  "Method4": [{"name": "shelves/s1", "parent": "shelves/p"}, {"name": "shelves/s2", "parent": ""}]}


def run_probe_api(ctx, r):
    """one fixed API per run: the point the hypothesis of `transports_agree_on_routing_header` excludes
    (`caller_supplied_header_counterexample`: the caller passes an own x-goog-request-params pair), run through the
    emitted clients of a service in a sub-package (sync / asyncio gRPC, REST, asyncio REST) next to ordinary calls of
    the same clients (explicit rule with two parameters sharing a key; custom verb with an additional binding; a
    variable-free primary path next to additional bindings that have variables; fewer variables in the primary path
    than in the binding)"""
    run_api(ctx, r, copy.deepcopy(PROBE_SPECS), "probe", requests=copy.deepcopy(PROBE_REQUESTS),
            layout=dict(FLAT, kind="svc-sub", svc="admin"), rest_async=True, caller_header=0.35, shared_metadata=True)
    ctx.count("stream", "probe-api")


# the examples of routing.proto / AIP-4222, always run
FIXED_TEMPLATES = [
    ([["named", "table_name", [["lit", "projects"], ["star"], ["lit", "instances"], ["star"]]], ["dstar"]],
     ["projects/p/instances/i/tables/t", "projects/p/instances/i", "projects/p/instances", "projects/p/instances/i/", ""]),
    ([["lit", "projects"], ["star"], ["named", "table_location", [["lit", "instances"], ["star"]]], ["lit", "tables"], ["star"]],
     ["projects/p/instances/i/tables/t", "projects/p/instances/i/tables/", "projects/p/instances/i/tables/t/x"]),
    ([["named", "routing_id", [["dstar"]]]], ["", "a", "a/b/c", "profiles/x y"]),
    ([["lit", "profiles"], ["named", "routing_id", [["star"]]]], ["profiles/p", "profiles/", "profiles/p/q", "xprofiles/p"]),
    ([["named", "routing_id", [["lit", "projects"], ["star"]]], ["dstar"]], ["projects/p", "projects/p/x", "projects//x", "projects/pX"]),
    ([["named", "k", [["lit", "projects"], ["star"], ["dstar"]]]], ["projects/p", "projects/p/", "projects/p/a/b", "projects"]),
]


def search(ctx):
    r = ctx.rng("search")
    check_templates(ctx, r, 2500, 24)
    check_schema_resolve(ctx, r, 300)
    check_encode(ctx, r, 3000)
    check_field_headers(ctx, r, 400)
    for a in range(16):
        specs, layout = gen_api(r)
        run_api(ctx, r, specs, f"search{a}", ncalls=5, layout=layout, rest_async=(a % 2 == 1))


def replay(ctx, payload):
    import leanio
    ctx.driver = leanio.Driver()
    run_payload(ctx, ctx.rng("replay"), payload, "replay")
    for f in ctx.failures:
        print("  failure:", f["key"], "-", f["what"])
    return not ctx.failures


CLAIM = dict(
    text="Lean 4 proof on an executable model of create_metadata that explicit routing is the AIP-4222 fold (for every key the value sent is the capture of the LAST parameter with that key that matches with a non-empty capture; no header iff no parameter contributes; a parameter without template passes the field through and equals `{field=**}`), that the regex RoutingParameter builds captures exactly what a regex-free segment scanner of the template language captures (all templates with one named segment and `**` last, all newline-free values; also for templates without named segment), that implicit routing lists exactly the variables of the primary http path, reads every reserved-word segment of a (dotted) field path from the suffixed attribute — so the attribute path is always a valid Python expression — and sends the raw name, that an empty annotation and client-streaming explicit methods send nothing, that the schema-side RoutingRule.resolve agrees with the emitted chain when no value is empty, that the encoded header only contains URL-safe characters, that implicit routing depends on the google.api.http rule only through the path of its primary binding (any member of the pattern oneof incl. `custom {kind, path}`; additional bindings never read), that `{key}` parses to the same template as `{key=*}`, and that what the REST transports send (`dict(metadata)`) under a header name is the last value the gRPC transports send, so that all four transports carry exactly the computed routing header whenever the caller passes none of his own. Tie: T1 bridge of the field_headers regex and the reserved-name tables; T2 AST equality between the model regex and CPython's parse of the real to_regex().pattern, captures via Python re vs the Lean engine, field_headers/disambiguated, RoutingRule.resolve, urlencode; T3 the header seen by loopback gRPC (sync, asyncio) and HTTP servers for programs of calls (request objects, dicts rebuilt from bytes, literal dicts, request=None; unary, server- and client-streaming; additional bindings; integer path variables) through the emitted clients (sync gRPC, asyncio gRPC, REST, asyncio REST) of the standard templates and of the ads templates, for services declared in the API package or in proto sub-packages (six layouts, one or two services) vs the model (`c06.program` = `runProgram`: the header values each transport puts on the wire call after call, and the caller's metadata objects — lists and tuples kept and passed again across calls — after the program; theorems `program_wire_stateless`, `program_store_unchanged`, `program_one_header_per_call`: the header of a call depends on that call's own request only and the caller's argument is never written); a model-independent AIP-4222 reference resolver as oracle.",
    technique="Lean 4 theorems (induction over the parameter list; regex-engine proofs by induction over template segments) + translator bridge + differential T2/T3 against emitted clients on loopback servers",
    design="7.6",
    note="Values with newlines, templates with `**` before the last segment, literals with regex metacharacters, enum/bool routing fields are outside the generated space (stated as assumptions; probes recorded in the evidence). Four defects found by this check were repaired in /repo (findings/C06.json, fixed) and are regression inputs. A fifth (the ads templates ignored google.api.routing) was repaired as well; the ads T3 stream is a regression stream.",
)
