"""C07 — paginated methods yield every item of every page exactly once, in order (DESIGN §7.7)."""
from __future__ import annotations
import copy, json
import apigen, genrun, libhost, rpc

PKG = "acme.lib.v1"
INT_KINDS = ["int32", "int64", "uint32", "sint32", "fixed32"]


def gen_shape(r: apigen.Rng, idx: int, conforming=None, force=None, first_kind=None):
    """one List-like method shape around the AIP-4233 rule"""
    ok = r.maybe(0.55) if conforming is None else conforming
    s = {"name": f"List{['Books','Shelves','Items','Things','Widgets','Gadgets'][idx % 6]}{idx}",
         "page_token": "str", "size": ("page_size", r.pick(INT_KINDS)), "size2": None,
         "next_page_token": "str", "repeated": [], "extra_req": r.maybe(0.7), "lead": r.maybe(0.5)}
    nrep = r.randint(1, 3)
    for k in range(nrep):
        s["repeated"].append(r.pick(["message", "message", "string", "map", "enum", "other_file", "int"]))
    if r.maybe(0.3):
        s["size"] = ("max_results", r.pick(["int32", "Int32Value", "UInt32Value", "uint32"]))
    if r.maybe(0.15):
        s["size2"] = ("page_size" if s["size"][0] == "max_results" else "max_results", r.pick(INT_KINDS))
    if first_kind:
        s["repeated"][0] = first_kind
    if force:
        ok = False
    if not ok:
        kind = force or r.pick(["no_token", "token_type", "no_size", "size_type", "no_next", "next_type", "no_repeated",
                       "wrapper_wrong", "repeated_token", "mistyped_max_good_page", "good_max_mistyped_page", "repeated_next"])
        s["mutation"] = kind
        if kind == "no_token": s["page_token"] = None
        elif kind == "token_type": s["page_token"] = r.pick(["int32", "bytes", "bool"])
        elif kind == "no_size": s["size"] = None; s["size2"] = None
        elif kind == "size_type": s["size"] = (s["size"][0] if s["size"] else "page_size", r.pick(["string", "bool", "double"])); s["size2"] = None
        elif kind == "no_next": s["next_page_token"] = None
        elif kind == "next_type": s["next_page_token"] = r.pick(["int32", "bytes"])
        elif kind == "no_repeated": s["repeated"] = []
        elif kind == "wrapper_wrong": s["size"] = ("max_results", r.pick(["StringValue", "Int64Value", "BoolValue"])); s["size2"] = None
        elif kind == "repeated_token": s["page_token"] = "repeated_str"
        elif kind == "repeated_next": s["next_page_token"] = "repeated_str"
        elif kind == "mistyped_max_good_page": s["size"] = ("max_results", "string"); s["size2"] = ("page_size", "int32")
        elif kind == "good_max_mistyped_page": s["size"] = ("max_results", "int32"); s["size2"] = ("page_size", "string")
    return s


WRAPPERS = {"Int32Value", "UInt32Value", "StringValue", "Int64Value", "BoolValue"}


def statement_paged(s):
    """the property's own rule (independent of the generator and of the Lean model)"""
    if s["page_token"] != "str" or s["next_page_token"] != "str" or not s["repeated"]:
        return False
    sizes = [x for x in (s["size"], s["size2"]) if x]
    def good(x):
        n, t = x
        if n == "page_size":
            return t in apigen.T and t not in ("string", "bool", "double", "float", "bytes")
        return t in ("Int32Value", "UInt32Value") or (t in apigen.T and t not in ("string", "bool", "double", "float", "bytes"))
    return any(good(x) for x in sizes)


def add_size(msg, x):
    n, t = x
    if t in WRAPPERS:
        msg.field(n, "message", type_name=f".google.protobuf.{t}")
    else:
        msg.field(n, t)


def build_api(shapes):
    f2 = apigen.File("acme/lib/v1/shared.proto", PKG, deps=[])
    other = f2.msg("SharedItem"); other.field("id"); other.field("rank", "int32")
    f = apigen.File("acme/lib/v1/lib.proto", PKG).dep("acme/lib/v1/shared.proto")
    color = f.enum("Color", ["COLOR_UNSPECIFIED", "RED", "BLUE"])
    book = f.msg("Book"); book.field("name"); book.field("pages", "int32")
    svc = f.service("Library")
    for s in shapes:
        rq = f.msg(s["name"] + "Request")
        if s["extra_req"]:
            rq.field("parent"); rq.field("filter")
        if s["page_token"] == "str": rq.field("page_token")
        elif s["page_token"] == "repeated_str": rq.field("page_token", repeated=True)
        elif s["page_token"]: rq.field("page_token", s["page_token"])
        for x in (s["size"], s["size2"]):
            if x: add_size(rq, x)
        rs = f.msg(s["name"] + "Response")
        if s["lead"]:
            rs.field("total", "int32")
        for k, kind in enumerate(s["repeated"]):
            fn = f"results{k}"
            if kind == "message": rs.field(fn, "message", repeated=True, type_name=book)
            elif kind == "string": rs.field(fn, "string", repeated=True)
            elif kind == "int": rs.field(fn, "int64", repeated=True)
            elif kind == "enum": rs.field(fn, "enum", repeated=True, type_name=color)
            elif kind == "other_file": rs.field(fn, "message", repeated=True, type_name=".acme.lib.v1.SharedItem")
            elif kind == "map": rs.map_field(fn, "string", "message", vtype_name=book)
        if s["next_page_token"] == "str": rs.field("next_page_token")
        elif s["next_page_token"] == "repeated_str": rs.field("next_page_token", repeated=True)
        elif s["next_page_token"]: rs.field("next_page_token", s["next_page_token"])
        svc.method(s["name"], rq, rs, http=("get", "/v1/lists/" + s["name"].lower()))     # every request field travels in the query over REST
    return [f2, f]


def ftype(field):
    t = field.type
    from gapic.schema import wrappers
    if isinstance(t, wrappers.MessageType): return ["msg", t.message_pb.name]
    if isinstance(t, wrappers.EnumType): return "enum"
    return {str: "str", int: "int", float: "float", bool: "bool", bytes: "bytes"}[t.python_type]


def msg_json(m):
    return [[n, ftype(f), bool(f.repeated)] for n, f in m.fields.items()]


def gen_history(r, item_kind):
    n = r.randint(1, 5)
    pages, ctr = [], 0
    for k in range(n):
        sz = r.randint(0, 3)
        ids = list(range(ctr, ctr + sz)); ctr += sz
        pages.append({"ids": ids, "token": "" if k == n - 1 else f"tok{k}{r.randrange(1000)}"})
    for _ in range(r.randint(0, 2)):          # pages after the empty token: must never be fetched
        pages.append({"ids": [900 + ctr], "token": ""}); ctr += 1
    return pages


def item_json(kind, i):
    if kind in ("message",): return {"name": f"b{i}", "pages": i}
    if kind == "other_file": return {"id": f"s{i}", "rank": i}
    if kind == "string": return f"v{i}"
    if kind == "int": return str(i)
    if kind == "enum": return ["RED", "BLUE"][i % 2]
    raise ValueError(kind)


def page_json(s, page, field0, kind):
    d = {}
    if kind == "map":
        d[field0] = {f"k{i}": {"name": f"b{i}", "pages": i} for i in page["ids"]}
    else:
        d[field0] = [item_json(kind, i) for i in page["ids"]]
    if page["token"]:
        d["next_page_token"] = page["token"]
    if len(s["repeated"]) > 1 and s["repeated"][1] == "string":
        d["results1"] = ["decoy"]
    return d


def item_id(kind, canon, codec):
    """recover the scripted id from an item yielded by the pager"""
    if kind == "map":
        v = codec.decode("acme.lib.v1.Book", canon["value"]["b64"])
        return int(v.get("pages", 0))
    if kind in ("message",):
        return int(codec.decode("acme.lib.v1.Book", canon["b64"]).get("pages", 0))
    if kind == "other_file":
        return int(codec.decode("acme.lib.v1.SharedItem", canon["b64"]).get("rank", 0))
    if kind == "string": return int(canon["value"][1:])
    if kind == "int": return int(canon["value"])
    if kind == "enum": return canon["value"]
    raise ValueError(kind)


def run_api(ctx, r, shapes, label):
    files = build_api(shapes)
    req = apigen.request(files, "transport=grpc+rest,autogen-snippets=false")
    api, _ = genrun.build_api(req)
    svc = api.services[f"{PKG}.Library"]
    loc = rpc.py_locations(api, svc)
    codec = rpc.Codec(files)
    # ---- T2 + classification oracle
    ops = []
    for s in shapes:
        m = svc.methods[s["name"]]
        ops.append({"op": "c07.classify", "input": msg_json(m.input), "output": msg_json(m.output)})
    model = ctx.driver.ask(ops)
    paged = []
    for s, mo in zip(shapes, model):
        m = svc.methods[s["name"]]
        impl = m.paged_result_field.name if m.paged_result_field else None
        ctx.case({"shape": {k: v for k, v in s.items() if k != "name"}, "paged": impl}, distinct_key=["shape", json.dumps(s, sort_keys=True)])
        ctx.count("classification", f"{'paged' if impl else 'plain'}:{s.get('mutation', 'conforming')}")
        ctx.traces += 1
        if mo.get("field") != impl:
            ctx.disagree("T2:c07.paged_result_field", f"model {mo.get('field')} vs impl {impl}", {"shape": s})
        want = statement_paged(s)
        if want != bool(impl):
            key = {"repeated_token": "repeated-page-token-accepted", "repeated_next": "repeated-next-page-token-accepted",
                   "mistyped_max_good_page": "mistyped-max-results-hides-page-size"}.get(s.get("mutation"), "classification")
            ctx.fail(key, f"statement says paged={want}, generator exposes paged_result_field={impl}", {"shape": s})
        if impl and want and impl != "results0":
            ctx.fail("wrong-item-field", f"item field {impl} is not the first repeated field", {"shape": s})
        if impl and want:
            paged.append(s)
    # ---- T3
    res, err = genrun.try_generate(req)
    if err:
        enum_paged = [s for s in paged if s["repeated"][0] == "enum"]
        ctx.fail("generation-crash:" + err[0], f"generator raised {err[0]}: {err[1]}",
                 {"shapes": enum_paged[:1] or shapes, "shape": (enum_paged[:1] or shapes)[0]})
        return
    root = genrun.materialise(res)
    try:
        sessions = []
        plans = []
        for s in paged:
            m = svc.methods[s["name"]]
            kind = s["repeated"][0]
            for h in range(ctx.n(2, 6)):
                hist = gen_history(r, kind)
                reqd = {}
                if s["extra_req"]:
                    reqd = {"parent": "shelves/s1", "filter": "a=b"}
                if r.maybe(0.3):
                    reqd["page_token"] = "start"
                path = f"/{PKG}.Library/{s['name']}"
                call = {"method": m.client_method_name if hasattr(m, "client_method_name") else None,
                        "mode": r.pick(["request-instance", "request-dict"]),
                        "py_request": rpc.py_type(m.input),
                        "request_b64": codec.encode_b64(m.input.ident.proto, reqd),
                        "consume": "pager",
                        "again_same_args": True,      # programs: the caller lists twice with the same request object
                        "call_kwargs": {"timeout": 7.0, "metadata": [["x-verif", "1"]]},
                        "script": {path: [{"replies": [codec.encode_b64(m.output.ident.proto, page_json(s, p, "results0", kind))]} for p in hist]}}
                plans.append((s, m, kind, hist, reqd, call))
        import gapic.utils as gu
        for asy in (False, True):
            calls = []
            for (s, m, kind, hist, reqd, call) in plans:
                c = copy.deepcopy(call)
                c["method"] = gu.to_snake_case(m.client_method_name)
                calls.append(c)
            sessions.append({"op": "grpc_session", "client": loc["async_client" if asy else "client"],
                             "transport": loc["grpc_asyncio" if asy else "grpc"], "async": asy, "calls": calls})
        # the same listings through the REST transport (sync client): pages are JSON bodies, tokens travel in the query
        rest_calls = []
        for (s, m, kind, hist, reqd, call) in plans:
            c = {k: v for k, v in call.items() if k not in ("script", "again_same_args")}
            c["method"] = gu.to_snake_case(m.client_method_name)
            c["script"] = [{"status": 200, "body": json.dumps(page_json(s, p, "results0", kind))} for p in hist]
            rest_calls.append(c)
        sessions.append({"op": "rest_session", "client": loc["client"], "transport": loc["rest"], "calls": rest_calls})
        out = libhost.run(root, sessions, timeout=600)
        rest_out = out[2] if len(out) > 2 else None
        out = out[:2]
        mops = [{"op": "c07.run", "token0": reqd.get("page_token", ""),
                 "pages": [{"items": [i if isinstance(i, int) else 0 for i in p["ids"]], "token": p["token"]} for p in hist]}
                for (s, m, kind, hist, reqd, call) in plans]
        mres = ctx.driver.ask(mops)
        for asy, sess in zip((False, True), out):
            if "calls" not in sess:
                ctx.fail("session-failed", f"T3 session failed ({'async' if asy else 'sync'}): {str(sess)[-400:]}", {"shapes": shapes})
                continue
            for (s, m, kind, hist, reqd, call), res_, mo in zip(plans, sess["calls"], mres):
                payload = {"shape": s, "history": hist, "request": reqd, "async": asy}
                ctx.case({"history": [(len(p["ids"]), bool(p["token"])) for p in hist], "item_kind": kind, "async": asy},
                         distinct_key=["hist", s["name"], json.dumps(hist), asy])
                ctx.count("history_pages", len(hist)); ctx.count("item_kind", kind)
                if "ok" not in res_:
                    ctx.fail("pager-raised", f"{m.name}: {res_.get('raised')}: {res_.get('msg')}", payload)
                    continue
                ok = res_["ok"]
                # expected by the statement
                live = []
                for p in hist:
                    live.append(p)
                    if not p["token"]:
                        break
                want_ids = [i for p in live for i in p["ids"]]
                got = [item_id(kind, it, codec) for it in ok["items"]]
                if kind == "enum":
                    want_cmp = [["RED", "BLUE"][i % 2] for i in want_ids]
                    got_cmp = [{1: "RED", 2: "BLUE"}.get(g, g) for g in got]
                elif kind == "map":
                    # order inside one page's map is the map's own; compare page by page as sets, pages in order
                    want_cmp, got_cmp, k = [], [], 0
                    for p in live:
                        want_cmp.append(sorted(p["ids"])); got_cmp.append(sorted(got[k:k + len(p["ids"])])); k += len(p["ids"])
                    got_cmp.append(got[k:]); want_cmp.append([])
                else:
                    want_cmp, got_cmp = want_ids, got
                if want_cmp != got_cmp:
                    ctx.fail("items", f"{m.name}: yielded {got} expected {want_ids}", payload)
                srv = [x for x in res_["server"] if x["path"].endswith("/" + s["name"])]
                if len(srv) != len(live):
                    ctx.fail("call-count", f"{m.name}: {len(srv)} server calls for {len(live)} pages", payload)
                toks = []
                for k, rec in enumerate(srv):
                    d = codec.decode(m.input.ident.proto, rec["requests"][0]) if rec["requests"] else {}
                    toks.append(d.get("page_token", ""))
                    rest = {kk: vv for kk, vv in d.items() if kk != "page_token"}
                    want_rest = {kk: vv for kk, vv in reqd.items() if kk != "page_token"}
                    if rest != want_rest:
                        ctx.fail("request-fields-changed", f"{m.name}: request {k} carries {rest}, caller gave {want_rest}", payload)
                    md = dict((a, b) for a, b in rec["metadata"])
                    if md.get("x-verif") != "1":
                        ctx.fail("call-options-changed", f"{m.name}: request {k} lost caller metadata", payload)
                    if not (0 < rec["time_remaining"] <= 7.5):
                        ctx.fail("call-options-changed", f"{m.name}: request {k} deadline {rec['time_remaining']} (timeout=7)", payload)
                want_toks = [reqd.get("page_token", "")] + [p["token"] for p in live[:-1]]
                if toks != want_toks:
                    ctx.fail("tokens", f"{m.name}: tokens sent {toks} expected {want_toks}", payload)
                if ok["attrs"].get("next_page_token") != live[-1]["token"]:
                    ctx.fail("attrs", f"{m.name}: pager.next_page_token={ok['attrs'].get('next_page_token')!r} after iteration, last page token {live[-1]['token']!r}", payload)
                # a second listing with the very same argument objects is a listing like the first one
                ag = res_.get("again")
                if ag is not None:
                    ctx.count("program", "second listing with the same request object (" + call["mode"] + ")")
                    if "ok" not in ag:
                        ctx.fail("second-listing-raised", f"{m.name}: second listing with the same arguments: {ag.get('raised')}: {ag.get('msg')}", payload)
                    else:
                        got2 = [item_id(kind, it, codec) for it in ag["ok"]["items"]]
                        srv2 = [x for x in ag["server"] if x["path"].endswith("/" + s["name"])]
                        toks2 = [(codec.decode(m.input.ident.proto, rec["requests"][0]) if rec["requests"] else {}).get("page_token", "") for rec in srv2]
                        if sorted(map(str, got2)) != sorted(map(str, got)) or toks2 != toks:
                            ctx.fail("second-listing-differs", f"{m.name}: listing again with the same request object yielded {got2} (tokens sent {toks2}); "
                                     f"the first listing yielded {got} (tokens {toks})", payload)
                # ---- correspondence with the model
                ctx.traces += 1
                if kind not in ("enum",):
                    m_items = mo["items"]
                    g_items = got if kind != "map" else None
                    if g_items is not None and m_items != g_items:
                        ctx.disagree("T3:c07.items", f"model {m_items} vs impl {g_items}", payload)
                if mo["request_tokens"] != toks:
                    ctx.disagree("T3:c07.tokens", f"model {mo['request_tokens']} vs impl {toks}", payload)
        # ---- REST: items, call count, tokens and the other request fields, against the statement
        if rest_out is not None:
            import urllib.parse
            if "calls" not in rest_out:
                ctx.fail("session-failed", f"T3 session failed (rest): {str(rest_out)[-400:]}", {"shapes": shapes})
            else:
                for (s, m, kind, hist, reqd, call), res_ in zip(plans, rest_out["calls"]):
                    payload = {"shape": s, "history": hist, "request": reqd, "async": False, "transport": "rest"}
                    ctx.count("transport", "rest")
                    if "ok" not in res_:
                        ctx.fail("pager-raised", f"{m.name} (rest): {res_.get('raised')}: {res_.get('msg')}", payload)
                        continue
                    live = []
                    for p in hist:
                        live.append(p)
                        if not p["token"]:
                            break
                    want_ids = [i for p in live for i in p["ids"]]
                    got = [item_id(kind, it, codec) for it in res_["ok"]["items"]]
                    if kind == "enum":
                        ok_items = [{1: "RED", 2: "BLUE"}.get(g, g) for g in got] == [["RED", "BLUE"][i % 2] for i in want_ids]
                    elif kind == "map":
                        ok_items = sorted(got) == sorted(want_ids)
                    else:
                        ok_items = got == want_ids
                    if not ok_items:
                        ctx.fail("items", f"{m.name} (rest): yielded {got} expected {want_ids}", payload)
                    srv = res_["server"]
                    if len(srv) != len(live):
                        ctx.fail("call-count", f"{m.name} (rest): {len(srv)} server calls for {len(live)} pages", payload)
                    toks = []
                    for k, rec in enumerate(srv):
                        q = {kk: vv[-1] for kk, vv in urllib.parse.parse_qs(rec["query"], keep_blank_values=True).items()}
                        toks.append(q.get("pageToken", q.get("page_token", "")))
                        rest_fields = {kk: vv for kk, vv in q.items() if kk not in ("pageToken", "page_token", "$alt")}
                        want_rest = {apigen.json_name(kk): vv for kk, vv in reqd.items() if kk != "page_token"}
                        if rest_fields != want_rest:
                            ctx.fail("request-fields-changed", f"{m.name} (rest): request {k} carries {rest_fields}, caller gave {want_rest}", payload)
                        if dict((a.lower(), b) for a, b in rec["headers"]).get("x-verif") != "1":
                            ctx.fail("call-options-changed", f"{m.name} (rest): request {k} lost caller metadata", payload)
                    want_toks = [reqd.get("page_token", "")] + [p["token"] for p in live[:-1]]
                    if toks != want_toks:
                        ctx.fail("tokens", f"{m.name} (rest): tokens sent {toks} expected {want_toks}", payload)
    finally:
        genrun.cleanup(root)


def run(ctx):
    ctx.rule = ("request/response shapes around the AIP-4233 rule (present/absent/mistyped/repeated token and size fields, "
                "1..3 repeated fields of message/scalar/map/enum/other-file kinds) x scripted histories (1..5 pages, sizes 0..3, "
                "extra pages after the empty token) x {sync, asyncio}; distinct by (shape) and by (method, history, client kind); "
                "non-trivial = every generated shape / every history")
    r = ctx.rng("shapes")
    # corpus first: the shapes behind the known finding and the two repaired defects
    corpus = [gen_shape(r, 0, conforming=True, first_kind="enum"), gen_shape(r, 1, force="mistyped_max_good_page"),
              gen_shape(r, 2, force="repeated_token"), gen_shape(r, 3, force="repeated_next"),
              gen_shape(r, 4, conforming=True, first_kind="map"), gen_shape(r, 5, conforming=True, first_kind="other_file")]
    run_api(ctx, r, corpus, "corpus")
    for a in range(ctx.n(3, 40)):
        shapes = [gen_shape(r, i) for i in range(8)]
        shapes[0] = gen_shape(r, 0, conforming=True)
        run_api(ctx, r, shapes, f"api{a}")


def search(ctx):
    r = ctx.rng("search")
    for a in range(12):
        run_api(ctx, r, [gen_shape(r, i) for i in range(8)], f"search{a}")


def replay(ctx, payload):
    import leanio
    ctx.driver = leanio.Driver()
    s = payload["shape"] if "shape" in payload else payload["shapes"][0]
    run_api(ctx, ctx.rng("replay"), [s], "replay")
    for f in ctx.failures:
        print("  failure:", f["key"], "-", f["what"])
    return not ctx.failures


CLAIM = dict(
    text='Lean 4 proof, by induction over ALL server page histories, that the pager model yields the items of the pages up to and including the first empty token exactly once and in order, sends exactly the received tokens, leaves every other request field and call option unchanged, stops at the first empty token, and exposes the last page; and an iff-characterisation of paged_result_field (incl. the max_results precedence). Tie: T2 the real Method.paged_result_field vs the model on generated shapes; T3 the emitted sync and asyncio pagers against a loopback gRPC server with scripted histories vs the model; a model-independent oracle restating the property.',
    technique='Lean 4 theorems (induction on page histories; iff-characterisation of the classifier) + differential T2/T3 against the emitted pagers',
    design='7.7',
    note="The pager's loop is modelled from pagers.py.j2 by hand; maps are compared per page as sets. A server that never returns an empty token is outside the model.",
)
