"""C07 — paginated methods yield every item of every page exactly once, in order (DESIGN §7.7)."""
from __future__ import annotations
import base64, copy, json, os
import apigen, genrun, libhost, rpc

PKG = "acme.lib.v1"
CORPUS = os.path.join(os.path.dirname(os.path.dirname(os.path.dirname(os.path.abspath(__file__)))), "corpus", "C07")
INT_KINDS = ["int32", "int64", "uint32", "uint64", "sint32", "sint64", "fixed32", "fixed64", "sfixed32", "sfixed64"]
REP_KINDS = ["message", "message", "string", "map", "enum", "other_file", "int", "bytes", "double", "nested", "map_scalar", "map_intkey", "map_other_file", "map_enum", "dep_item", "map_dep"]
FILE_FREE_KINDS = ("string", "int", "other_file", "bytes", "double", "map_scalar")      # need nothing of lib.proto
MAP_KINDS = ("map", "map_scalar", "map_intkey", "map_other_file", "map_enum", "map_dep")
DEP_PKG = "acme.shared.v1"      # a DEPENDENCY package: in proto_file, not in file_to_generate; its messages are plain protobuf (pb2) classes
DEP_FREE_KINDS = ("string", "int", "bytes", "double", "map_scalar", "nested", "dep_item", "map_dep")      # need nothing of the API package


def gen_shape(r: apigen.Rng, idx: int, conforming=None, force=None, first_kind=None):
    """one List-like method shape around the AIP-4233 rule"""
    ok = r.maybe(0.55) if conforming is None else conforming
    s = {"name": f"List{['Books','Shelves','Items','Things','Widgets','Gadgets'][idx % 6]}{idx}",
         "page_token": "str", "size": ("page_size", r.pick(INT_KINDS)), "size2": None,
         "next_page_token": "str", "repeated": [], "extra_req": r.maybe(0.7), "lead": r.maybe(0.5)}
    nrep = r.randint(1, 3)
    for k in range(nrep):
        s["repeated"].append(r.pick(REP_KINDS))
    if r.maybe(0.3):
        s["size"] = ("max_results", r.pick(["int32", "Int32Value", "UInt32Value", "uint32"]))
    if r.maybe(0.15):
        s["size2"] = ("page_size" if s["size"][0] == "max_results" else "max_results", r.pick(INT_KINDS))
    if first_kind:
        s["repeated"][0] = first_kind
    # legal variations the rule does not mention: proto3-optional token/size fields, a token inside a oneof, field numbers
    # that do not follow the declaration order, the response declared in another file, a method signature (flattened call)
    s["opt"] = [k for k in ("token", "size", "next") if r.maybe(0.15)]
    s["oneof_token"] = r.maybe(0.1) and "token" not in s["opt"]
    s["renumber"] = r.maybe(0.25)
    s["resp_other_file"] = r.maybe(0.2) and all(k in FILE_FREE_KINDS for k in s["repeated"])
    s["sig"] = bool(s["extra_req"]) and r.maybe(0.4)
    s["route"] = bool(s["extra_req"]) and r.maybe(0.5)      # http rule with a path variable on `parent`: the calls carry x-goog-request-params
    # request and/or response declared in a dependency package (plain protobuf classes, no proto-plus wrapper)
    s["req_pkg"] = "dep" if r.maybe(0.12) else None
    s["resp_pkg"] = "dep" if (r.maybe(0.12) and all(k in DEP_FREE_KINDS for k in s["repeated"])) else None
    if s["resp_pkg"]:
        s["resp_other_file"] = False
    if s["req_pkg"]:
        s["sig"] = False          # flattened arguments of a request of another package: C05's subject (open findings there)
    if force:
        ok = False
    if not ok:
        kind = force or r.pick(["no_token", "token_type", "no_size", "size_type", "no_next", "next_type", "no_repeated",
                       "wrapper_wrong", "repeated_token", "mistyped_max_good_page", "good_max_mistyped_page", "repeated_next",
                       "page_size_wrapper"])
        s["mutation"] = kind
        if kind == "no_token": s["page_token"] = None
        elif kind == "token_type": s["page_token"] = r.pick(["int32", "bytes", "bool"])
        elif kind == "no_size": s["size"] = None; s["size2"] = None
        elif kind == "size_type": s["size"] = (s["size"][0] if s["size"] else "page_size", r.pick(["string", "bool", "double", "float", "bytes", "enum"])); s["size2"] = None
        elif kind == "no_next": s["next_page_token"] = None
        elif kind == "next_type": s["next_page_token"] = r.pick(["int32", "bytes"])
        elif kind == "no_repeated": s["repeated"] = []
        elif kind == "wrapper_wrong": s["size"] = ("max_results", r.pick(["StringValue", "Int64Value", "BoolValue"])); s["size2"] = None
        elif kind == "repeated_token": s["page_token"] = "repeated_str"
        elif kind == "repeated_next": s["next_page_token"] = "repeated_str"
        elif kind == "mistyped_max_good_page": s["size"] = ("max_results", "string"); s["size2"] = ("page_size", "int32")
        elif kind == "good_max_mistyped_page": s["size"] = ("max_results", "int32"); s["size2"] = ("page_size", "string")
        elif kind == "page_size_wrapper": s["size"] = ("page_size", r.pick(["Int32Value", "UInt32Value"])); s["size2"] = None
    return s


WRAPPERS = {"Int32Value", "UInt32Value", "StringValue", "Int64Value", "BoolValue"}


def statement_paged(s):
    """the property's own rule (independent of the generator and of the Lean model)"""
    if s["page_token"] != "str" or s["next_page_token"] != "str" or not s["repeated"]:
        return False
    sizes = [x for x in (s["size"], s["size2"]) if x]
    if any(n == "page_size" and t in ("Int32Value", "UInt32Value") for n, t in sizes) and not any(
            t in INT_KINDS for n, t in sizes):
        return None       # "an integer page_size (or legacy max_results, integer or Int32Value/UInt32Value)": a WRAPPER page_size is
                          # not clearly inside or outside the rule; the generator accepts it and the pager works. No opinion (T2/T3 only).
    def good(x):
        n, t = x
        if n == "page_size":
            return t in INT_KINDS
        return t in ("Int32Value", "UInt32Value") or t in INT_KINDS
    return any(good(x) for x in sizes)


def add_size(msg, x, color=None, optional=False):
    n, t = x
    if t in WRAPPERS:
        msg.field(n, "message", type_name=f".google.protobuf.{t}")
    elif t == "enum":
        msg.field(n, "enum", type_name=color)
    else:
        msg.field(n, t, optional=optional)


SUB = PKG + ".keepers"
LAYOUTS = ("svc_sub", "two_svc", "msgs_sub")
# proto SUB-PACKAGE layouts (per-service templates are rendered with a sub-package VIEW of the API):
#   svc_sub : every service in a file of acme.lib.v1.keepers, all messages in the API package
#   two_svc : service Library (+ its messages) in the API package, service Keeper (+ its request/response messages) in the sub-package;
#             Keeper's items come from the API package and from the third file
#   msgs_sub: the service in the API package, its request/response/item messages in the sub-package, SharedItem in a third file
#             (of the same sub-package, or of a second sub-package acme.lib.v1.common: shapes[0]["third"])
# References between the proto packages of one API go one way only (a cycle root <-> sub is C02's package-level-import-cycle finding).


def service_full(s):
    lay = s.get("layout")
    if lay == "svc_sub":
        return SUB + ".Library"
    if lay == "two_svc" and s.get("svc") == "Keeper":
        return SUB + ".Keeper"
    return PKG + ".Library"


def build_api(shapes):
    layout = shapes[0].get("layout") if shapes else None
    third = shapes[0].get("third", "same") if shapes else "same"
    if layout == "msgs_sub":
        tpkg, tdir = (PKG + ".common", "acme/lib/v1/common") if third == "common" else (SUB, "acme/lib/v1/keepers")
    else:
        tpkg, tdir = PKG, "acme/lib/v1"
    f2 = apigen.File(f"{tdir}/shared.proto", tpkg, deps=[])
    other = f2.msg("SharedItem"); other.field("id"); other.field("rank", "int32")
    fd = thing = None
    if any(s.get("req_pkg") or s.get("resp_pkg") or any(k in ("dep_item", "map_dep") for k in s["repeated"]) for s in shapes):
        fd = apigen.File("acme/shared/v1/things.proto", DEP_PKG)
        thing = fd.msg("Thing"); thing.field("name"); thing.field("pages", "int32")
    if layout == "msgs_sub":
        ft = apigen.File("acme/lib/v1/keepers/types.proto", SUB).dep(f2.name)            # messages
        f = apigen.File("acme/lib/v1/lib.proto", PKG).dep(f2.name, ft.name)               # the service
        files = [f2, ft, f]
        if fd: ft.dep(fd.name); f.dep(fd.name)
    else:
        f = ft = apigen.File("acme/lib/v1/lib.proto", PKG).dep(f2.name)
        files = [f2, f]
        if fd: f.dep(fd.name)
    color = ft.enum("Color", ["COLOR_UNSPECIFIED", "RED", "BLUE"])
    book = ft.msg("Book"); book.field("name"); book.field("pages", "int32")
    fk = None
    if layout in ("svc_sub", "two_svc"):
        fk = apigen.File("acme/lib/v1/keepers/service.proto", SUB).dep(f2.name, f.name)
        files.append(fk)
        if fd: fk.dep(fd.name)
    svcs = {}

    def service_of(s):
        full = service_full(s)
        if full not in svcs:
            svcs[full] = (fk if full.startswith(SUB + ".") else f).service(full.rsplit(".", 1)[1])
        return svcs[full]
    for s in shapes:
        opt = s.get("opt", [])
        fm = fk if (layout == "two_svc" and s.get("svc") == "Keeper") else ft      # where this method's request/response live
        svc = service_of(s)
        size_enum = any(x and x[1] == "enum" for x in (s["size"], s["size2"]))          # Color lives in the API package
        rq = (fd if (s.get("req_pkg") and not size_enum) else fm).msg(s["name"] + "Request")
        if s["extra_req"]:
            rq.field("parent"); rq.field("filter")
        if s.get("oneof_token"):
            rq.field("start_after", oneof="cursor")
        tok_kw = {"oneof": "cursor"} if s.get("oneof_token") else {"optional": "token" in opt}
        if s["page_token"] == "str": rq.field("page_token", **tok_kw)
        elif s["page_token"] == "repeated_str": rq.field("page_token", repeated=True)
        elif s["page_token"]: rq.field("page_token", s["page_token"])
        for x in (s["size"], s["size2"]):
            if x: add_size(rq, x, color, "size" in opt)
        rs = (fd if s.get("resp_pkg") else f2 if s.get("resp_other_file") else fm).msg(s["name"] + "Response")
        decl = []      # (declare) thunks in declaration order; numbers descending when `renumber`
        if s["lead"]:
            decl.append(lambda n, rs=rs: rs.field("total", "int32", number=n))
        for k, kind in enumerate(s["repeated"]):
            fn = f"results{k}"
            if kind == "message": decl.append(lambda n, fn=fn, rs=rs: rs.field(fn, "message", number=n, repeated=True, type_name=book))
            elif kind == "string": decl.append(lambda n, fn=fn, rs=rs: rs.field(fn, "string", number=n, repeated=True))
            elif kind == "int": decl.append(lambda n, fn=fn, rs=rs: rs.field(fn, "int64", number=n, repeated=True))
            elif kind == "bytes": decl.append(lambda n, fn=fn, rs=rs: rs.field(fn, "bytes", number=n, repeated=True))
            elif kind == "double": decl.append(lambda n, fn=fn, rs=rs: rs.field(fn, "double", number=n, repeated=True))
            elif kind == "enum": decl.append(lambda n, fn=fn, rs=rs: rs.field(fn, "enum", number=n, repeated=True, type_name=color))
            elif kind == "other_file": decl.append(lambda n, fn=fn, rs=rs: rs.field(fn, "message", number=n, repeated=True, type_name=other))
            elif kind == "nested":
                def mk(n, fn=fn, k=k, rs=rs):
                    row = rs.nested(f"Row{k}"); row.field("name"); row.field("pages", "int32")
                    rs.field(fn, "message", number=n, repeated=True, type_name=row)
                decl.append(mk)
            elif kind == "map": decl.append(lambda n, fn=fn, rs=rs: rs.map_field(fn, "string", "message", number=n, vtype_name=book))
            elif kind == "map_scalar": decl.append(lambda n, fn=fn, rs=rs: rs.map_field(fn, "string", "int32", number=n))
            elif kind == "map_intkey": decl.append(lambda n, fn=fn, rs=rs: rs.map_field(fn, "int32", "message", number=n, vtype_name=book))
            elif kind == "map_enum": decl.append(lambda n, fn=fn, rs=rs: rs.map_field(fn, "string", "enum", number=n, vtype_name=color))
            elif kind == "dep_item": decl.append(lambda n, fn=fn, rs=rs: rs.field(fn, "message", number=n, repeated=True, type_name=thing))
            elif kind == "map_dep": decl.append(lambda n, fn=fn, rs=rs: rs.map_field(fn, "string", "message", number=n, vtype_name=thing))
            elif kind == "map_other_file": decl.append(lambda n, fn=fn, rs=rs: rs.map_field(fn, "string", "message", number=n, vtype_name=other))
        if s["next_page_token"] == "str": decl.append(lambda n, rs=rs: rs.field("next_page_token", number=n, optional="next" in opt))
        elif s["next_page_token"] == "repeated_str": decl.append(lambda n, rs=rs: rs.field("next_page_token", number=n, repeated=True))
        elif s["next_page_token"]: decl.append(lambda n, rs=rs, s=s: rs.field("next_page_token", s["next_page_token"], number=n))
        for j, th in enumerate(decl):
            th(len(decl) - j if s.get("renumber") else j + 1)
        st = s.get("stream")
        svc.method(s["name"], rq, rs, http=None if st else ("get", ("/v1/{parent=shelves/*}/lists/" if s.get("route") else "/v1/lists/") + s["name"].lower()),     # the other request fields travel in the query over REST
                   sigs=["parent,filter"] if s.get("sig") else (), ss=st in ("ss", "bidi"), cs=st in ("cs", "bidi"))
    return ([fd] if fd else []) + files


def targets_of(files):
    return [f for f in files if f.pb.package != DEP_PKG]


def materialise_all(res, files):
    root = genrun.materialise(res)
    for f in files:
        if f.pb.package == DEP_PKG:
            genrun.materialise_pb2(root, f.pb)        # the dependency's own module (what protoc's python plugin gives)
    return root


def with_layout(r, shapes, layout):
    """put an API's shapes into one of the sub-package layouts"""
    third = r.pick(["same", "common"])
    for k, s in enumerate(shapes):
        s["layout"] = layout
        if layout == "msgs_sub":
            s["third"] = third
        if layout == "two_svc":
            s["svc"] = "Library" if k % 2 == 0 else "Keeper"
    if layout == "two_svc":           # both services paged: the first shape of each is conforming
        for k in (0, 1):
            if k < len(shapes) and shapes[k].get("mutation"):
                keep = {kk: shapes[k][kk] for kk in ("name", "layout", "svc")}
                shapes[k] = dict(gen_shape(r, k, conforming=True), **keep)
    return shapes


def ftype(field):
    t = field.type
    from gapic.schema import wrappers
    if isinstance(t, wrappers.MessageType): return ["msg", t.message_pb.name]
    if isinstance(t, wrappers.EnumType): return "enum"
    return {str: "str", int: "int", float: "float", bool: "bool", bytes: "bytes"}[t.python_type]


def msg_json(m):
    return [[n, ftype(f), bool(f.repeated)] for n, f in m.fields.items()]


TOKEN_POOL = ["cur-1", "cur-2", "start"]      # "start" is also the page_token a caller resumes with


def gen_history(r, item_kind):
    """token VALUES are free: half of the histories draw them from a small pool WITH repetition (equal consecutive tokens,
    a token equal to the caller's own page_token, tokens coming back later); a pager must not read anything into them"""
    n = r.randint(1, 5)
    pooled = r.maybe(0.5)
    pages, ctr = [], 0
    for k in range(n):
        sz = r.randint(0, 3)
        ids = list(range(ctr, ctr + sz)); ctr += sz
        if k == n - 1:
            tok = ""
        elif pooled:
            tok = pages[-1]["token"] if (pages and r.maybe(0.4)) else r.pick(TOKEN_POOL)
        else:
            tok = f"tok{k}{r.randrange(1000)}"
        pages.append({"ids": ids, "token": tok})
    for _ in range(r.randint(0, 2)):          # pages after the empty token: must never be fetched
        pages.append({"ids": [900 + ctr], "token": ""}); ctr += 1
    return pages


def token_pattern(hist, token0):
    live = live_pages(hist)
    toks = [token0] + [p["token"] for p in live]
    out = []
    if any(a == b and a for a, b in zip(toks[1:], toks[2:])): out.append("equal consecutive tokens")
    if token0 and len(toks) > 1 and toks[1] == token0: out.append("first response echoes the caller's page_token")
    ne = [t for t in toks[1:] if t]
    if len(set(ne)) < len(ne): out.append("a token repeats")
    return out or ["all tokens distinct"]


# the history of seeded change seed10_C07 (Props.C07.repeated_token_does_not_stop): page 2 carries the token of page 1
REPEATED_TOKEN_HISTORY = [{"ids": [1, 2], "token": "cur-2"}, {"ids": [], "token": "cur-2"}, {"ids": [3], "token": ""}]
# a resumed listing whose first response echoes the caller's page_token; the token comes back once more later
RESUME_ECHO_HISTORY = [{"ids": [1], "token": "cur-2"}, {"ids": [2], "token": "cur-2"}, {"ids": [3], "token": "cur-1"},
                       {"ids": [4], "token": "cur-2"}, {"ids": [5], "token": ""}, {"ids": [99], "token": ""}]


def item_json(kind, i):
    if kind in ("message", "nested", "dep_item"): return {"name": f"b{i}", "pages": i}
    if kind == "other_file": return {"id": f"s{i}", "rank": i}
    if kind == "string": return f"v{i}"
    if kind == "int": return str(i)
    if kind == "bytes": return base64.b64encode(f"v{i}".encode()).decode()
    if kind == "double": return i + 0.5
    if kind == "enum": return ["RED", "BLUE"][i % 2]
    raise ValueError(kind)


def page_json(s, page, field0, kind):
    d = {}
    if kind in ("map", "map_intkey", "map_dep"):
        d[field0] = {(f"k{i}" if kind == "map" else str(i)): {"name": f"b{i}", "pages": i} for i in page["ids"]}
    elif kind == "map_scalar":
        d[field0] = {f"k{i}": i for i in page["ids"]}
    elif kind == "map_enum":
        d[field0] = {f"k{i}": ["RED", "BLUE"][i % 2] for i in page["ids"]}
    elif kind == "map_other_file":
        d[field0] = {f"k{i}": {"id": f"s{i}", "rank": i} for i in page["ids"]}
    else:
        d[field0] = [item_json(kind, i) for i in page["ids"]]
    if page["token"]:
        d["next_page_token"] = page["token"]
    if len(s["repeated"]) > 1 and s["repeated"][1] == "string":
        d["results1"] = ["decoy"]
    if s.get("lead"):
        d["total"] = 1000 + len(page["ids"])
    return d


def item_id(kind, canon, codec):
    """recover the scripted id from an item yielded by the pager; an item of an unexpected shape (e.g. a bare map key where a
    (key, value) entry is due) is returned as such, so that it shows up as an item mismatch instead of crashing the harness"""
    try:
        return _item_id(kind, canon, codec)
    except (AttributeError, KeyError, TypeError, ValueError, IndexError):
        return {"unexpected-item": repr(canon)[:120]}


def _item_id(kind, canon, codec):
    if kind in MAP_KINDS:
        v = canon["value"]
        if v.get("kind") == "scalar":
            return int(v["value"])
        return int(codec.decode(v["type"], v["b64"]).get("rank" if kind == "map_other_file" else "pages", 0))
    if kind in ("message", "dep_item"):
        return int(codec.decode(canon["type"], canon["b64"]).get("pages", 0))
    if kind == "nested":
        return int(codec.decode(canon["type"], canon["b64"]).get("pages", 0))
    if kind == "other_file":
        return int(codec.decode(canon["type"], canon["b64"]).get("rank", 0))
    if kind == "string": return int(canon["value"][1:])
    if kind == "int": return int(canon["value"])
    if kind == "bytes": return int(base64.b64decode(canon["b64"])[1:])
    if kind == "double": return int(canon["value"] - 0.5)
    if kind == "enum": return canon["value"]
    raise ValueError(kind)


def enum_name(g):
    return {1: "RED", 2: "BLUE"}.get(g, g)


def gen_program(r, hist, long=False):
    """a program over ONE pager: create `pages` generators / item iterators, advance any of them, read an attribute"""
    prog, nit, ngen = [], 0, 0
    total = sum(len(p["ids"]) for p in hist)
    for _ in range(r.randint(4, 18 if long else 12)):
        x = r.random()
        if x < 0.16 or (nit == 0 and ngen == 0 and x < 0.6):
            prog.append(["iter"]); nit += 1
        elif x < 0.26 or (nit == 0 and ngen == 0):
            prog.append(["pages"]); ngen += 1
        elif x < 0.36:
            prog.append(["attr"])
        elif ngen and (x < 0.56 or nit == 0):
            prog.append(["nextpage", r.randrange(ngen)])
        else:
            prog.append(["next", r.randrange(nit)])
    if r.maybe(0.5):          # consume one iterator to the end (and beyond), then look at the pager and iterate it once more
        if nit == 0:
            prog.append(["iter"]); nit += 1
        i = r.randrange(nit)
        prog += [["next", i]] * (total + 2) + [["attr"], ["iter"]] + [["next", nit]] * r.randint(1, 4)
    return prog


# the history of seeded change seed11_C07 (Props.C07.page_size_does_not_stop): page sizes 2, 3, 1, 2 (+ an empty one) listed with page_size = 3
SHORT_PAGES_HISTORY = [{"ids": [1, 2], "token": "a"}, {"ids": [3, 4, 5], "token": "b"}, {"ids": [6], "token": "c"}, {"ids": [], "token": "d"},
                       {"ids": [7, 8], "token": ""}]

# the program of the non-vacuity example of Props/C07.lean (two interleaved iterators + a `pages` generator)
LEAN_EXAMPLE_HISTORY = [{"ids": [1, 2], "token": "a"}, {"ids": [], "token": "b"}, {"ids": [3], "token": "c"}, {"ids": [4], "token": ""},
                        {"ids": [99], "token": ""}]
LEAN_EXAMPLE_PROGRAM = [["iter"], ["next", 0], ["attr"], ["iter"], ["next", 1], ["next", 0], ["next", 0], ["attr"], ["next", 1], ["next", 1],
                        ["pages"], ["nextpage", 0], ["nextpage", 0], ["nextpage", 0], ["next", 0], ["next", 0], ["attr"]]


RETRY = {"exceptions": ["ServiceUnavailable"], "initial": 0.01, "maximum": 0.02, "multiplier": 1.0, "deadline": 30.0}
METADATA = [["x-verif", "1"], ["x-verif-b", "b1"], ["x-verif-b", "b2"]]


ROUTING = "x-goog-request-params"


def metadata_carried(ctx, m, records, caller_md, payload, label=""):
    """call options unchanged: the routing header entries and every caller-supplied metadata pair of request k >= 2 equal those of
    request 1 (same values, same multiplicity, same order per key)"""
    keys = {a for a, _ in caller_md} | {ROUTING}
    pick = lambda rec: [[a, b] for a, b in rec["metadata"] if a in keys]      # noqa: E731
    if not records:
        return
    first = pick(records[0])
    ctx.count("routing_header", "first request carries x-goog-request-params" if any(a == ROUTING for a, _ in first) else "no routing header")
    for k, rec in enumerate(records[1:], start=2):
        if sorted(pick(rec)) != sorted(first) or [b for a, b in pick(rec) if a == ROUTING] != [b for a, b in first if a == ROUTING]:
            ctx.fail("call-options:metadata", f"{m.name}{label}: request {k} carries metadata {pick(rec)}, request 1 carried {first}", payload)
            break


def settable_size(s):
    """name of the request's size field when the caller can set it to a plain integer (the wrapper-typed legacy fields are left unset)"""
    x = s.get("size")
    return x[0] if (x and x[1] in INT_KINDS) else None


def live_pages(hist):
    live = []
    for p in hist:
        live.append(p)
        if not p["token"]:
            break
    return live


def kind_of(m):
    return {"void": bool(m.void), "lro": bool(m.lro), "ext": bool(m.extended_lro), "cs": bool(m.client_streaming), "ss": bool(m.server_streaming)}


def out_kind(m, asy):
    """what Method.client_output(_async) announces, as the model's OutKind"""
    co = m.client_output_async if asy else m.client_output
    n = co.ident.name if hasattr(co, "ident") else None
    if m.void: return "none"
    if n in ("Operation", "AsyncOperation") and m.lro: return "operation"
    if n == "ExtendedOperation": return "ext_operation"
    if n == m.name + ("AsyncPager" if asy else "Pager"): return "pager"
    if co is m.output: return "message"
    return "other:" + str(n)


def run_api(ctx, r, shapes, label, programs=None):
    files = build_api(shapes)
    req = apigen.request(files, "transport=grpc+rest,autogen-snippets=false", targets=targets_of(files))
    api, _ = genrun.build_api(req)
    codec = rpc.Codec(files)
    layout = shapes[0].get("layout") if shapes else None
    ctx.count("layout", layout or "one package")
    groups = []       # one entry per service: (full proto name of the service, its shapes)
    for s in shapes:
        full = service_full(s)
        if not any(g[0] == full for g in groups):
            groups.append((full, []))
        next(g for g in groups if g[0] == full)[1].append(s)
    classified = [classify_service(ctx, api.services[full], sub) for full, sub in groups]
    # ---- T3
    res, err = genrun.try_generate(req)
    if err:
        paged = [s for c in classified for s in c[2]]
        enum_paged = [s for s in paged if s["repeated"][0] == "enum"]
        key = "generation-crash:" + err[0] + (":sub-package-layout:" + layout if layout else "")
        ctx.fail(key, f"generator raised {err[0]}: {err[1]}",
                 {"shapes": enum_paged[:1] or shapes, "shape": (enum_paged[:1] or shapes)[0]})
        return
    root = materialise_all(res, files)
    try:
        for (full, sub), (model, wmodel, paged, unary) in zip(groups, classified):
            t3_service(ctx, r, api, codec, root, api.services[full], full, sub, model, wmodel, paged, unary, programs, shapes)
    finally:
        genrun.cleanup(root)


def classify_service(ctx, svc, shapes):
    # ---- T2 + classification oracle
    ops = []
    for s in shapes:
        m = svc.methods[s["name"]]
        ops.append({"op": "c07.classify", "input": msg_json(m.input), "output": msg_json(m.output)})
    model = ctx.driver.ask(ops)
    wops = [dict(op="c07.wrap", paged=mo.get("field") is not None, **kind_of(svc.methods[s["name"]])) for s, mo in zip(shapes, model)]
    wmodel = ctx.driver.ask(wops)
    paged, unary = [], []
    for s, mo, wm in zip(shapes, model, wmodel):
        m = svc.methods[s["name"]]
        impl = m.paged_result_field.name if m.paged_result_field else None
        ctx.case({"shape": {k: v for k, v in s.items() if k != "name"}, "paged": impl}, distinct_key=["shape", json.dumps(s, sort_keys=True)])
        ctx.count("classification", f"{'paged' if impl else 'plain'}:{s.get('mutation', 'conforming')}")
        for fl in ("opt", "oneof_token", "renumber", "resp_other_file", "sig", "stream", "req_pkg", "resp_pkg", "route"):
            if s.get(fl):
                ctx.count("shape_variation", fl)
        ctx.traces += 1
        if mo.get("field") != impl:
            ctx.disagree("T2:c07.paged_result_field", f"model {mo.get('field')} vs impl {impl}", {"shape": s})
        for asy in (False, True):        # Method.client_output / client_output_async vs the model's clientOutput
            got = out_kind(m, asy)
            if got != wm["client_output"]:
                ctx.disagree("T2:c07.client_output", f"{m.name}: model {wm['client_output']} vs impl {got} (async={asy})", {"shape": s})
        want = statement_paged(s)
        if want is None:
            ctx.count("classification", "no-opinion:" + s.get("mutation", "?"))
        elif want != bool(impl):
            key = {"repeated_token": "repeated-page-token-accepted", "repeated_next": "repeated-next-page-token-accepted",
                   "mistyped_max_good_page": "mistyped-max-results-hides-page-size"}.get(s.get("mutation"), "classification")
            ctx.fail(key, f"statement says paged={want}, generator exposes paged_result_field={impl}", {"shape": s})
        if impl and want is not False and impl != "results0":
            ctx.fail("wrong-item-field", f"item field {impl} is not the first repeated field", {"shape": s})
        if not s.get("stream"):
            unary.append((s, wm, want))
            if impl and want is not False:
                paged.append(s)
    return model, wmodel, paged, unary


def raise_key(s, res_, default):
    """finding pager-construct:request-of-another-package: keyed by the INPUT shape (paginated method x request message of another
    proto package, i.e. a plain protobuf class) and the symptom (TypeError when the pager copies the request)"""
    if s.get("req_pkg") == "dep" and res_.get("raised") == "TypeError" and "positional" in str(res_.get("msg")):
        return "pager-construct:request-of-another-package"
    return default


def session_failed(ctx, label, sess, shapes):
    """a session that could not even start: the emitted package does not import"""
    ctx.fail("session-failed", f"T3 session failed ({label}): {str(sess)[-400:]}", {"whole_api": True, "shapes": shapes})


def t3_service(ctx, r, api, codec, root, svc, svc_full, shapes, model, wmodel, paged, unary, programs, all_shapes):
    import gapic.utils as gu
    loc = rpc.py_locations(api, svc)
    sessions = []
    plans = []
    for s in paged:
        m = svc.methods[s["name"]]
        kind = s["repeated"][0]
        for h in range(max(ctx.n(2, 6), len(programs or []))):
            hist = gen_history(r, kind)
            fixed = programs[h] if (programs and h < len(programs)) else None
            if fixed:
                hist = copy.deepcopy(fixed["history"])
            reqd = {}
            if s["extra_req"]:
                reqd = {"parent": "shelves/s1", "filter": "a=b"}
            if r.maybe(0.6 if hist[0]["token"] == "start" else 0.3):
                reqd["page_token"] = "start"
            if fixed:
                reqd.pop("page_token", None)
                if fixed.get("token0"):
                    reqd["page_token"] = fixed["token0"]
            for tp in token_pattern(hist, reqd.get("page_token", "")):
                ctx.count("token_pattern", tp)
            # the caller's page size (1..4, explicit 0, or unset) is chosen INDEPENDENTLY of the sizes of the pages the server sends
            # (0..3): AIP-158 allows short and empty pages with a token; to the pager it is just another request field
            sz_name = settable_size(s)
            sz = fixed["size"] if (fixed and "size" in fixed) else (None if fixed else r.pick([None, None, 0, 1, 2, 3, 4]))
            if sz_name and sz is not None:
                reqd[sz_name] = sz
            live0 = live_pages(hist)
            ctx.count("page_size", "unset / not an integer field" if (not sz_name or sz is None) else "0" if sz == 0 else
                      "set, some non-final page is shorter" if any(len(p["ids"]) < sz for p in live0[:-1]) else "set, no non-final page is shorter")
            path = f"/{svc_full}/{s['name']}"
            modes = ["request-instance", "request-dict"]
            if s.get("sig") and "page_token" not in reqd and not (sz_name and sz_name in reqd):
                modes.append("kwargs")
            if not reqd:
                modes.append("request-none")
            live = live_pages(hist)
            script = [{"replies": [codec.encode_b64(m.output.ident.proto, page_json(s, p, "results0", kind))]} for p in hist]
            kwargs = {"timeout": 7.0, "metadata": METADATA + ([[ROUTING, "caller=1"]] if r.maybe(0.25) else [])}
            fail_at = None
            if len(live) >= 2 and r.maybe(0.4):
                # call options: the caller's retry must reach the fetches of the PAGER: one transient error before page `fail_at`
                fail_at = r.randint(1, len(live) - 1)
                script.insert(fail_at, {"code": "UNAVAILABLE", "tag": "fail"})
                kwargs["retry"] = dict(RETRY)
            call = {"method": gu.to_snake_case(m.client_method_name),
                    "mode": r.pick(modes),
                    "py_request": rpc.py_type(m.input),
                    "request_b64": codec.encode_b64(m.input.ident.proto, reqd),
                    "kwargs": [["parent", "parent"], ["filter", "filter"]],
                    "consume": "pager",
                    "again_same_args": True,      # programs: the caller lists twice with the same request object
                    "call_kwargs": kwargs,
                    "script": {path: script}}
            prog = copy.deepcopy(fixed["program"]) if (fixed and fixed.get("program")) else gen_program(r, hist, long=ctx.n(0, 1) == 1)
            plans.append((s, m, kind, hist, reqd, call, fail_at, prog))
    for asy in (False, True):
        calls = []
        for (s, m, kind, hist, reqd, call, fail_at, prog) in plans:
            c = copy.deepcopy(call)
            if "retry" in c["call_kwargs"]:
                c["call_kwargs"]["retry"]["async"] = asy
            calls.append(c)
        sessions.append({"op": "grpc_session", "client": loc["async_client" if asy else "client"], "trap_sleep": True,
                         "transport": loc["grpc_asyncio" if asy else "grpc"], "async": asy, "calls": calls})
    # the same listings through the REST transport (sync client): pages are JSON bodies, tokens travel in the query
    rest_calls = []
    for (s, m, kind, hist, reqd, call, fail_at, prog) in plans:
        c = {k: v for k, v in call.items() if k not in ("script", "again_same_args")}
        c["call_kwargs"] = {"timeout": 7.0, "metadata": [["x-verif", "1"]]}
        c["script"] = [{"status": 200, "body": json.dumps(page_json(s, p, "results0", kind))} for p in hist]
        rest_calls.append(c)
    sessions.append({"op": "rest_session", "client": loc["client"], "transport": loc["rest"], "calls": rest_calls})
    # pagers as objects (programs) + what every unary method returns (exposure), sync and asyncio
    obj_calls = []
    for (s, m, kind, hist, reqd, call, fail_at, prog) in plans:
        c = {k: v for k, v in call.items() if k not in ("again_same_args", "consume")}
        c["call_kwargs"] = {"timeout": 7.0, "metadata": call["call_kwargs"]["metadata"]}
        c["mode"] = "request-instance"
        c["script"] = {f"/{svc_full}/{s['name']}": [{"replies": [codec.encode_b64(m.output.ident.proto, page_json(s, p, "results0", kind))]} for p in hist]}
        c["program"] = prog
        obj_calls.append(("program", s, m, kind, hist, reqd, prog, c))
    for (s, wm, want) in unary:
        m = svc.methods[s["name"]]
        c = {"method": gu.to_snake_case(m.client_method_name), "mode": "request-instance", "py_request": rpc.py_type(m.input),
             "request_b64": codec.encode_b64(m.input.ident.proto, {}), "program": [],
             "script": {f"/{svc_full}/{s['name']}": [{"replies": [""]}]}}
        obj_calls.append(("exposure", s, m, wm, want, None, None, c))
    stream_calls = []
    for s, mo, wm in zip(shapes, model, wmodel):
        if s.get("stream") and mo.get("field") is not None:
            m = svc.methods[s["name"]]
            c = {"method": gu.to_snake_case(m.client_method_name), "mode": "request-instance", "py_request": rpc.py_type(m.input),
                 "request_b64": codec.encode_b64(m.input.ident.proto, {}), "program": [["iter"], ["next", 0]],
                 "script": {f"/{svc_full}/{s['name']}": [{"replies": [codec.encode_b64(m.output.ident.proto, {"next_page_token": "t"})]}]}}
            if m.client_streaming:
                c["stream_requests"] = [codec.encode_b64(m.input.ident.proto, {})]
            stream_calls.append((s, m, wm, c))
    for asy in (False, True):
        sessions.append({"op": "c07_session", "client": loc["async_client" if asy else "client"], "async": asy,
                         "transport": loc["grpc_asyncio" if asy else "grpc"],
                         "calls": [x[-1] for x in obj_calls] + ([x[-1] for x in stream_calls] if not asy else [])})
    out = libhost.run(root, sessions, timeout=900)
    rest_out = out[2] if len(out) > 2 else None
    obj_out = out[3:5]
    out = out[:2]
    mops = [{"op": "c07.run", "token0": reqd.get("page_token", ""),
             "pages": [{"items": [i if isinstance(i, int) else 0 for i in p["ids"]], "token": p["token"]} for p in hist]}
            for (s, m, kind, hist, reqd, call, fail_at, prog) in plans]
    mres = ctx.driver.ask(mops)
    for asy, sess in zip((False, True), out):
        if "calls" not in sess:
            session_failed(ctx, 'async' if asy else 'sync', sess, all_shapes)
            continue
        for (s, m, kind, hist, reqd, call, fail_at, prog), res_, mo in zip(plans, sess["calls"], mres):
            payload = {"shape": s, "history": hist, "request": reqd, "async": asy, "mode": call["mode"], "fail_at": fail_at}
            ctx.case({"history": [(len(p["ids"]), bool(p["token"])) for p in hist], "item_kind": kind, "async": asy},
                     distinct_key=["hist", s["name"], json.dumps(hist), asy])
            ctx.count("history_pages", len(hist)); ctx.count("item_kind", kind); ctx.count("call_mode", call["mode"])
            if fail_at is not None:
                ctx.count("program", "transient error on a page the pager fetches, caller passed retry=")
            if "ok" not in res_:
                if fail_at is not None and res_.get("raised") == "ServiceUnavailable":
                    ctx.fail("call-options-changed", f"{m.name}: the caller's retry= did not reach the fetch of page {fail_at + 1}: "
                             f"{res_.get('raised')}: {res_.get('msg')}", payload)
                else:
                    ctx.fail(raise_key(s, res_, "pager-raised"), f"{m.name}: {res_.get('raised')}: {res_.get('msg')}", payload)
                continue
            ok = res_["ok"]
            # expected by the statement
            live = live_pages(hist)
            exp = (lambda i: 1 + i % 2) if kind == "map_enum" else (lambda i: i)      # map_enum: the values are enum numbers (RED = 1, BLUE = 2)
            want_ids = [exp(i) for p in live for i in p["ids"]]
            got = [item_id(kind, it, codec) for it in ok["items"]]
            if kind == "enum":
                want_cmp = [["RED", "BLUE"][i % 2] for i in want_ids]
                got_cmp = [enum_name(g) for g in got]
            elif kind in MAP_KINDS:
                # order inside one page's map is the map's own; compare page by page as sets, pages in order
                want_cmp, got_cmp, k = [], [], 0
                for p in live:
                    want_cmp.append(sorted(map(exp, p["ids"]), key=repr)); got_cmp.append(sorted(got[k:k + len(p["ids"])], key=repr)); k += len(p["ids"])
                got_cmp.append(got[k:]); want_cmp.append([])
            else:
                want_cmp, got_cmp = want_ids, got
            if want_cmp != got_cmp:
                ctx.fail("items", f"{m.name}: yielded {got} expected {want_ids}", payload)
            srv_all = [x for x in res_["server"] if x["path"].endswith("/" + s["name"])]
            srv = [x for x in srv_all if x.get("behaviour") != "fail"]
            if len(srv) != len(live) or len(srv_all) - len(srv) != (0 if fail_at is None else 1):
                ctx.fail("call-count", f"{m.name}: {len(srv)} answered (+{len(srv_all) - len(srv)} failed) server calls for {len(live)} pages", payload)
            toks = []
            for k, rec in enumerate(srv_all):
                d = codec.decode(m.input.ident.proto, rec["requests"][0]) if rec["requests"] else {}
                if rec.get("behaviour") != "fail":
                    toks.append(d.get("page_token", ""))
                rest = {kk: vv for kk, vv in d.items() if kk != "page_token"}
                want_rest = {kk: vv for kk, vv in codec.normal(m.input.ident.proto, reqd).items() if kk != "page_token"}
                if rest != want_rest:
                    ctx.fail("request-fields-changed", f"{m.name}: request {k} carries {rest}, caller gave {want_rest}", payload)
                for key_ in ("x-verif", "x-verif-b"):
                    if [b for a, b in rec["metadata"] if a == key_] != [b for a, b in METADATA if a == key_]:
                        ctx.fail("call-options-changed", f"{m.name}: request {k} carries metadata {key_}={[b for a, b in rec['metadata'] if a == key_]}, "
                                 f"caller gave {[b for a, b in METADATA if a == key_]}", payload)
                if not (0 < rec["time_remaining"] <= 7.5):
                    ctx.fail("call-options-changed", f"{m.name}: request {k} deadline {rec['time_remaining']} (timeout=7)", payload)
            metadata_carried(ctx, m, srv_all, call["call_kwargs"]["metadata"], payload)
            want_toks = [reqd.get("page_token", "")] + [p["token"] for p in live[:-1]]
            if toks != want_toks:
                ctx.fail("tokens", f"{m.name}: tokens sent {toks} expected {want_toks}", payload)
            if ok["attrs"].get("next_page_token") != live[-1]["token"]:
                ctx.fail("attrs", f"{m.name}: pager.next_page_token={ok['attrs'].get('next_page_token')!r} after iteration, last page token {live[-1]['token']!r}", payload)
            last = ok.get("last") or {}
            if last.get("b64") is not None and codec.decode(m.output.ident.proto, last["b64"]) != codec.normal(m.output.ident.proto, page_json(s, live[-1], "results0", kind)):
                ctx.fail("attrs", f"{m.name}: the response the pager exposes after iteration is not the last page fetched", payload)
            if ok.get("pytype") != m.name + ("AsyncPager" if asy else "Pager"):
                ctx.fail("exposure", f"{m.name}: the client returned a {ok.get('pytype')}", payload)
            # a second listing with the very same argument objects is a listing like the first one
            ag = res_.get("again")
            if ag is not None:
                ctx.count("program", "second listing with the same request object (" + call["mode"] + ")")
                if "ok" not in ag:
                    ctx.fail("second-listing-raised", f"{m.name}: second listing with the same arguments: {ag.get('raised')}: {ag.get('msg')}", payload)
                else:
                    got2 = [item_id(kind, it, codec) for it in ag["ok"]["items"]]
                    srv2 = [x for x in ag["server"] if x["path"].endswith("/" + s["name"]) and x.get("behaviour") != "fail"]
                    toks2 = [(codec.decode(m.input.ident.proto, rec["requests"][0]) if rec["requests"] else {}).get("page_token", "") for rec in srv2]
                    if sorted(map(str, got2)) != sorted(map(str, got)) or toks2 != toks:
                        ctx.fail("second-listing-differs", f"{m.name}: listing again with the same request object yielded {got2} (tokens sent {toks2}); "
                                 f"the first listing yielded {got} (tokens {toks})", payload)
            # ---- correspondence with the model
            ctx.traces += 1
            if kind not in ("enum",):
                m_items = mo["items"]
                g_items = got if kind not in MAP_KINDS else None
                if g_items is not None and m_items != g_items:
                    ctx.disagree("T3:c07.items", f"model {m_items} vs impl {g_items}", payload)
            if mo["request_tokens"] != toks:
                ctx.disagree("T3:c07.tokens", f"model {mo['request_tokens']} vs impl {toks}", payload)
    # ---- pagers as objects: programs (small-step model) + exposure
    check_objects(ctx, codec, svc, obj_calls, stream_calls, obj_out, shapes)
    # ---- REST: items, call count, tokens and the other request fields, against the statement
    if rest_out is not None:
        import urllib.parse
        if "calls" not in rest_out:
            session_failed(ctx, "rest", rest_out, all_shapes)
        else:
            for (s, m, kind, hist, reqd, call, fail_at, prog), res_ in zip(plans, rest_out["calls"]):
                payload = {"shape": s, "history": hist, "request": reqd, "async": False, "transport": "rest", "mode": call["mode"]}
                ctx.count("transport", "rest")
                if "ok" not in res_:
                    ctx.fail(raise_key(s, res_, "pager-raised"), f"{m.name} (rest): {res_.get('raised')}: {res_.get('msg')}", payload)
                    continue
                live = live_pages(hist)
                exp = (lambda i: 1 + i % 2) if kind == "map_enum" else (lambda i: i)      # map_enum: the values are enum numbers (RED = 1, BLUE = 2)
                want_ids = [exp(i) for p in live for i in p["ids"]]
                got = [item_id(kind, it, codec) for it in res_["ok"]["items"]]
                if kind == "enum":
                    ok_items = [enum_name(g) for g in got] == [["RED", "BLUE"][i % 2] for i in want_ids]
                elif kind in MAP_KINDS:
                    ok_items = sorted(got) == sorted(want_ids)
                else:
                    ok_items = got == want_ids
                if not ok_items:
                    ctx.fail("items", f"{m.name} (rest): yielded {got} expected {want_ids}", payload)
                srv = res_["server"]
                if len(srv) != len(live):
                    ctx.fail("call-count", f"{m.name} (rest): {len(srv)} server calls for {len(live)} pages", payload)
                toks = []
                for k, rec in enumerate(srv):
                    q = {kk: vv[-1] for kk, vv in urllib.parse.parse_qs(rec["query"], keep_blank_values=True).items()}
                    toks.append(q.get("pageToken", q.get("page_token", "")))
                    rest_fields = {kk: vv for kk, vv in q.items() if kk not in ("pageToken", "page_token", "$alt")}
                    want_rest = {apigen.json_name(kk): str(vv) for kk, vv in codec.normal(m.input.ident.proto, reqd).items()
                                 if kk != "page_token" and not (kk == "parent" and s.get("route"))}        # `parent` travels in the path
                    if s.get("route") and "/shelves/s1/" not in rec["path"]:
                        ctx.fail("request-fields-changed", f"{m.name} (rest): request {k} goes to {rec['path']}, caller gave parent=shelves/s1", payload)
                    hdr = {a.lower(): b for a, b in rec["headers"]}
                    hdr0 = {a.lower(): b for a, b in srv[0]["headers"]}
                    if any(hdr.get(x) != hdr0.get(x) for x in (ROUTING, "x-verif")):
                        ctx.fail("call-options:metadata", f"{m.name} (rest): request {k + 1} carries {ROUTING}={hdr.get(ROUTING)!r}, x-verif={hdr.get('x-verif')!r}; "
                                 f"request 1 carried {hdr0.get(ROUTING)!r}, {hdr0.get('x-verif')!r}", payload)
                    if rest_fields != want_rest:
                        ctx.fail("request-fields-changed", f"{m.name} (rest): request {k} carries {rest_fields}, caller gave {want_rest}", payload)
                    if dict((a.lower(), b) for a, b in rec["headers"]).get("x-verif") != "1":
                        ctx.fail("call-options-changed", f"{m.name} (rest): request {k} lost caller metadata", payload)
                want_toks = [reqd.get("page_token", "")] + [p["token"] for p in live[:-1]]
                if toks != want_toks:
                    ctx.fail("tokens", f"{m.name} (rest): tokens sent {toks} expected {want_toks}", payload)


def decode_obs(obs, kind, codec, m):
    """an observation of the real pager in the model's vocabulary (ids instead of items)"""
    if isinstance(obs, str):
        return obs
    if "item" in obs:
        i = item_id(kind, obs["item"], codec)
        return {"item": None if kind in MAP_KINDS else (enum_name(i) if kind == "enum" else i)}
    if "tok" in obs:
        return {"tok": obs["tok"]}
    if "page" in obs:
        d = codec.decode(m.output.ident.proto, obs["page"]["b64"])
        v = d.get("results0", [])
        return {"page": {"n": len(v), "token": d.get("next_page_token", "")}}
    return obs


def model_obs(obs, kind):
    if isinstance(obs, str):
        return obs
    if "item" in obs:
        i = obs["item"]
        return {"item": None if kind in MAP_KINDS else (["RED", "BLUE"][i % 2] if kind == "enum" else i)}
    if "page" in obs:
        return {"page": {"n": len(obs["page"]["items"]), "token": obs["page"]["token"]}}
    return obs


def check_objects(ctx, codec, svc, obj_calls, stream_calls, obj_out, shapes):
    progs = [x for x in obj_calls if x[0] == "program"]
    mres = ctx.driver.ask([{"op": "c07.program", "token0": reqd.get("page_token", ""), "ops": prog,
                            "pages": [{"items": p["ids"], "token": p["token"]} for p in hist]}
                           for (_, s, m, kind, hist, reqd, prog, c) in progs]) if progs else []
    mres = iter(mres)
    models = [next(mres) if x[0] == "program" else None for x in obj_calls]
    for asy, sess in zip((False, True), obj_out):
        if "calls" not in sess:
            session_failed(ctx, "objects, " + ('async' if asy else 'sync'), sess, shapes)
            continue
        results = sess["calls"]
        for (what, s, m, kind, hist, reqd, prog, c), res_, mo in zip(obj_calls, results, models):
            if what == "exposure":
                wm, want = kind, hist
                payload = {"shape": s, "async": asy, "exposure": True}
                ctx.traces += 1
                if "raised" in res_:
                    ctx.fail(raise_key(s, res_, "method-raised"), f"{m.name}: calling the method raised {res_['raised']}: {res_.get('msg')}", payload)
                    continue
                is_pager = bool(res_.get("is_pager")) and res_.get("pytype") == m.name + ("AsyncPager" if asy else "Pager")
                ctx.count("exposure", ("pager" if is_pager else "plain:" + str(res_.get("pytype") == m.output.name)))
                if want is not None and is_pager != want:
                    key = "mistyped-max-results-hides-page-size" if s.get("mutation") == "mistyped_max_good_page" else "exposure"
                    ctx.fail(key, f"{m.name}: statement says paginated={want}; the {'asyncio ' if asy else ''}client returned a {res_.get('pytype')}", payload)
                if not is_pager and res_.get("pytype") != m.output.name:
                    ctx.fail("exposure", f"{m.name}: not paginated, but the client returned a {res_.get('pytype')} instead of the response", payload)
                mw = wm["wrap_async" if asy else "wrap_sync"]
                if (mw == "pager") != is_pager:
                    ctx.disagree("T3:c07.wrap", f"{m.name}: model wraps as {mw}, the client returned a {res_.get('pytype')}", payload)
                continue
            payload = {"shape": s, "history": hist, "request": reqd, "async": asy, "program": prog}
            ctx.case({"program": prog, "history": [(len(p["ids"]), bool(p["token"])) for p in hist], "async": asy},
                     distinct_key=["prog", json.dumps(prog), json.dumps(hist), asy])
            ctx.count("program", "generator program on one pager (%s)" % ("asyncio" if asy else "sync"))
            ctx.count("program_ops", len(prog))
            if "raised" in res_:
                ctx.fail(raise_key(s, res_, "pager-raised"), f"{m.name}: {res_['raised']}: {res_.get('msg')}", payload)
                continue
            steps = res_["steps"]
            bad = [st for st in steps if isinstance(st["obs"], dict) and "raised" in st["obs"]]
            if bad:
                ctx.fail("pager-raised", f"{m.name}: a generator operation raised {bad[0]['obs']}", payload)
                continue
            # -- oracle (no model): whatever the program, requests thread the tokens of the pages served, never go past the
            #    first empty token, carry the caller's other fields and options; the caller's request object is left alone
            live = live_pages(hist)
            srv = [x for x in res_["server"] if x["path"].endswith("/" + s["name"])]
            if len(srv) > len(live):
                ctx.fail("call-count", f"{m.name}: {len(srv)} server calls, the history has {len(live)} pages up to the empty token", payload)
            toks = []
            for k, rec in enumerate(srv):
                d = codec.decode(m.input.ident.proto, rec["requests"][0]) if rec["requests"] else {}
                toks.append(d.get("page_token", ""))
                if {kk: vv for kk, vv in d.items() if kk != "page_token"} != {kk: vv for kk, vv in codec.normal(m.input.ident.proto, reqd).items() if kk != "page_token"}:
                    ctx.fail("request-fields-changed", f"{m.name}: request {k} carries {d}, caller gave {reqd}", payload)
                for key_ in ("x-verif", "x-verif-b"):
                    if [b for a, b in rec["metadata"] if a == key_] != [b for a, b in METADATA if a == key_]:
                        ctx.fail("call-options-changed", f"{m.name}: request {k} lost or changed caller metadata {key_}", payload)
                if not (0 < rec["time_remaining"] <= 7.5):
                    ctx.fail("call-options-changed", f"{m.name}: request {k} deadline {rec['time_remaining']} (timeout=7)", payload)
            metadata_carried(ctx, m, srv, c["call_kwargs"]["metadata"], payload, " (program)")
            want_toks = ([reqd.get("page_token", "")] + [p["token"] for p in live[:-1]])[:len(srv)]
            if toks != want_toks:
                ctx.fail("tokens", f"{m.name}: tokens sent {toks} expected {want_toks}", payload)
            if res_.get("request_before") != res_.get("request_after"):
                ctx.fail("caller-request-modified", f"{m.name}: the caller's request object changed while the pager was used: "
                         f"{codec.decode(m.input.ident.proto, res_['request_before']['b64'])} -> {codec.decode(m.input.ident.proto, res_['request_after']['b64'])}", payload)
            # the attribute read after k requests is that of page k (most recent page), at every point of the program
            for st in steps:
                if isinstance(st["obs"], dict) and "tok" in st["obs"] and 1 <= st["calls"] <= len(live):
                    if st["obs"]["tok"] != live[st["calls"] - 1]["token"]:
                        ctx.fail("attrs", f"{m.name}: pager.next_page_token={st['obs']['tok']!r} after {st['calls']} calls; the most recent page has "
                                 f"{live[st['calls'] - 1]['token']!r}", payload)
            # -- correspondence with the small-step model, op by op
            ctx.traces += 1
            for k, (st, ms) in enumerate(zip(steps, mo["steps"])):
                got, exp = decode_obs(st["obs"], kind, codec, m), model_obs(ms["obs"], kind)
                if got != exp or st["calls"] - 1 != ms["sent"]:
                    ctx.disagree("T3:c07.program", f"{m.name} op {k} {prog[k]}: model {exp} after {ms['sent']} pager requests, "
                                 f"impl {got} after {st['calls'] - 1}", payload)
                    break
            if mo["sent_tokens"] != toks[1:]:
                ctx.disagree("T3:c07.program", f"{m.name}: model pager tokens {mo['sent_tokens']} vs impl {toks[1:]}", payload)
        if not asy:
            # streaming methods whose messages satisfy the rule: outside the property (hypothesis `unary`), model's prediction only
            for (s, m, wm, c), res_ in zip(stream_calls, results[len(obj_calls):]):
                payload = {"shape": s, "async": False, "stream": s.get("stream")}
                ctx.traces += 1
                ctx.count("streaming_paged", s.get("stream"))
                if wm["pager_args"] == "name_error":
                    got = res_.get("raised")
                    exp = "NameError"
                else:
                    obs = (res_.get("steps") or [{}])[-1].get("obs")
                    got = obs.get("raised") if isinstance(obs, dict) else (res_.get("raised") or obs)
                    exp = "AttributeError"
                if got != exp:
                    ctx.disagree("T3:c07.pager_args", f"{m.name} ({s.get('stream')}): model predicts {exp} ({wm['pager_args']}), impl {got}: {str(res_)[:300]}", payload)


def probe_extended_operation(ctx):
    """the excluded point of Props.C07.wrap_agrees_with_client_output_partial on the real code: an extended-operation method whose
    messages ALSO satisfy the pagination rule (outside the property: hypothesis, never reported)"""
    from google.cloud import extended_operations_pb2 as ex
    f = apigen.File("acme/lib/v1/lib.proto", PKG)
    f.dep("google/cloud/extended_operations.proto")
    op = f.msg("Operation")
    st = op.nested_enum("Status", ["DONE"])
    op.field("name", optional=True).options.Extensions[ex.operation_field] = ex.NAME
    op.field("http_error_message", optional=True).options.Extensions[ex.operation_field] = ex.ERROR_MESSAGE
    op.field("http_error_status_code", "int32", optional=True).options.Extensions[ex.operation_field] = ex.ERROR_CODE
    op.field("status", "enum", type_name=st, optional=True).options.Extensions[ex.operation_field] = ex.STATUS
    op.field("warnings", repeated=True); op.field("next_page_token")
    g = f.msg("GetRegionOperationRequest")
    g.field("operation", required=True).options.Extensions[ex.operation_response_field] = "name"
    g.field("project", required=True); g.field("region", required=True)
    ins = f.msg("InsertAddressRequest")
    ins.field("project", required=True); ins.field("region"); ins.field("page_token"); ins.field("page_size", "int32")
    em = f.msg("Empty2"); em.field("x")
    ro = f.service("RegionOperations")
    mm = ro.method("Get", g, op, http=("get", "/compute/v1/projects/{project}/regions/{region}/operations/{operation}"), sigs=["project,region,operation"])
    mm.options.Extensions[ex.operation_polling_method] = True
    ad = f.service("Addresses")
    mm = ad.method("Insert", ins, op, http=("post", "/compute/v1/projects/{project}/regions/{region}/addresses"))
    mm.options.Extensions[ex.operation_service] = "RegionOperations"
    ad.method("Wipe", ins, ".google.protobuf.Empty", http=("post", "/compute/v1/projects/{project}/wipe"))
    ad.method("Grow", ins, ".google.longrunning.Operation", http=("post", "/compute/v1/projects/{project}/grow"), lro=("Empty2", "Empty2"))
    req = apigen.request([f], "transport=rest,autogen-snippets=false")
    api, _ = genrun.build_api(req)
    svc = api.services[f"{PKG}.Addresses"]
    ms = list(svc.methods.values())
    cl = ctx.driver.ask([{"op": "c07.classify", "input": msg_json(m.input), "output": msg_json(m.output)} for m in ms])
    wr = ctx.driver.ask([dict(op="c07.wrap", paged=c.get("field") is not None, **kind_of(m)) for m, c in zip(ms, cl)])
    for m, c, w in zip(ms, cl, wr):
        ctx.traces += 1
        ctx.count("method_kind", "+".join(k for k, v in kind_of(m).items() if v) or "unary")
        impl = m.paged_result_field.name if m.paged_result_field else None
        if c.get("field") != impl:
            ctx.disagree("T2:c07.paged_result_field", f"{m.name}: model {c.get('field')} vs impl {impl}", {"probe": "extended-operation"})
        for asy in (False, True):
            if out_kind(m, asy) != w["client_output"]:
                ctx.disagree("T2:c07.client_output", f"{m.name}: model {w['client_output']} vs impl {out_kind(m, asy)}", {"probe": "extended-operation"})
    ctx.assume("methods that are unary and not extended operations: a streaming method whose messages satisfy the rule gets a pager built "
               "around the stream object / an undefined name, an extended-operation method whose messages satisfy it makes the client "
               "instantiate ExtendedOperation with a pager's arguments (Props.C07.streaming_paged_pager_unusable_counterexample, "
               "extended_operation_paged_mismatch_counterexample; both run on the real code on every run, as predictions of the model)")
    res, err = genrun.try_generate(req)
    if err:
        ctx.disagree("T3:c07.wrap", f"extended-operation probe: generation raised {err[0]}: {err[1]}", {"probe": "extended-operation"})
        return
    root = genrun.materialise(res)
    try:
        loc = rpc.py_locations(api, svc)
        codec = rpc.Codec([f])
        m = svc.methods["Insert"]
        w = wr[ms.index(m)]
        call = {"method": "insert", "mode": "request-instance", "py_request": rpc.py_type(m.input),
                "request_b64": codec.encode_b64(m.input.ident.proto, {"project": "p", "region": "r"}), "consume": "value",
                "script": [{"status": 200, "body": json.dumps({"name": "op1", "warnings": ["w1"]})}]}
        out = libhost.run(root, [{"op": "rest_session", "client": loc["client"], "transport": loc["rest"], "calls": [call]}], timeout=120)
        got = (out[0].get("calls") or [{}])[0]
        mismatch = (w["wrap_sync"], w["client_output"]) == ("pager", "ext_operation")
        ctx.traces += 1
        if mismatch != (got.get("raised") == "TypeError"):
            ctx.disagree("T3:c07.wrap", f"extended operation + pagination rule: model wrap={w['wrap_sync']} output={w['client_output']}, "
                         f"the client call gave {str(got)[:300]}", {"probe": "extended-operation"})
    finally:
        genrun.cleanup(root)


def enum_programs(n, maxit=2, maxgen=1):
    """every well-formed program of exactly n ops over <= 2 item iterators and <= 1 `pages` generator"""
    out = []

    def rec(prog, nit, ngen):
        if len(prog) == n:
            out.append(prog); return
        opts = []
        if nit < maxit: opts.append((["iter"], 1, 0))
        if ngen < maxgen: opts.append((["pages"], 0, 1))
        if prog: opts.append((["attr"], 0, 0))
        for i in range(nit): opts.append((["next", i], 0, 0))
        for j in range(ngen): opts.append((["nextpage", j], 0, 0))
        for o, a, b in opts:
            rec(prog + [o], nit + a, ngen + b)
    rec([], 0, 0)
    return out


def exhaustive_programs(ctx, n):
    """EVERY small program (not a sample) on one fixed history with an empty middle page that repeats the token of the page before it, sync and asyncio, op by op against the
    small-step model and against the oracle of check_objects"""
    s = {"name": "ListBooks0", "page_token": "str", "size": ("page_size", "int32"), "size2": None, "next_page_token": "str",
         "repeated": ["message"], "extra_req": True, "lead": True, "route": True}
    hist = [{"ids": [1], "token": "a"}, {"ids": [], "token": "a"}, {"ids": [2, 3], "token": ""}, {"ids": [99], "token": ""}]      # equal consecutive tokens
    files = build_api([s])
    req = apigen.request(files, "transport=grpc,autogen-snippets=false")
    api, _ = genrun.build_api(req)
    svc = api.services[f"{PKG}.Library"]
    loc = rpc.py_locations(api, svc)
    codec = rpc.Codec(files)
    m = svc.methods[s["name"]]
    res, err = genrun.try_generate(req)
    if err:
        ctx.fail("generation-crash:" + err[0], f"generator raised {err[0]}: {err[1]}", {"shape": s})
        return
    root = genrun.materialise(res)
    try:
        reqd = {"parent": "shelves/s1", "filter": "a=b", "page_size": 2}      # the non-final pages (1 and 0 items) are shorter than that
        script = {f"/{PKG}.Library/{s['name']}": [{"replies": [codec.encode_b64(m.output.ident.proto, page_json(s, p, "results0", "message"))]} for p in hist]}
        obj_calls = []
        for prog in enum_programs(n):
            c = {"method": "list_books0", "mode": "request-instance", "py_request": rpc.py_type(m.input),
                 "request_b64": codec.encode_b64(m.input.ident.proto, reqd), "call_kwargs": {"timeout": 7.0, "metadata": METADATA},
                 "script": script, "program": prog}
            obj_calls.append(("program", s, m, "message", hist, reqd, prog, c))
        ctx.count("exhaustive_programs", f"all {len(obj_calls)} well-formed programs of {n} ops (<= 2 item iterators, <= 1 pages generator)")
        sessions = [{"op": "c07_session", "client": loc["async_client" if asy else "client"], "async": asy,
                     "transport": loc["grpc_asyncio" if asy else "grpc"], "calls": [x[-1] for x in obj_calls]} for asy in (False, True)]
        out = libhost.run(root, sessions, timeout=1500)
        check_objects(ctx, codec, svc, obj_calls, [], out[:2], [s])
    finally:
        genrun.cleanup(root)


def stream_shape(r, idx, kind=None):
    s = gen_shape(r, idx, conforming=True)
    s["stream"] = kind or r.pick(["ss", "cs", "bidi"])
    s["sig"] = False
    return s


def run(ctx):
    ctx.rule = ("request/response shapes around the AIP-4233 rule (present/absent/mistyped/repeated/optional/oneof token and size fields, "
                "all integer kinds, 1..3 repeated fields of message/nested/scalar/bytes/map/enum/other-file kinds, declaration order != "
                "number order, response in another file; request / response / items / map values declared in a DEPENDENCY package (plain protobuf classes); proto sub-package layouts: services in a sub-package with messages in the API package, "
                "one service in each, messages/items in a sub-package with items from a third file) x scripted histories (1..5 pages, sizes 0..3, extra pages after the empty token; token values from a small pool with repetition: equal consecutive tokens, a token equal to the caller's page_token, tokens coming back) "
                "x {sync, asyncio, REST} x call modes (instance, dict, flattened, none) x the caller's page_size (unset, 0, 1..4, independent of the sizes of the pages served) x routing (half of the methods with a `parent` have an http rule with a path variable on it, so the calls carry x-goog-request-params; a quarter of the callers add a pair of that name themselves) x programs (second listing with the same objects; "
                "generator programs on one pager: several `pages`/item generators advanced in any interleaving, attribute reads, "
                "re-iteration; EVERY well-formed program of 4 (thorough: 7) ops on a fixed history; a transient error on a pager-issued fetch under the caller's retry); distinct by (shape), "
                "(method, history, client kind) and (program, history, client kind); non-trivial = every generated shape / history / program")
    r = ctx.rng("shapes")
    # corpus first: the shapes behind the known finding and the two repaired defects
    corpus = [gen_shape(r, 0, conforming=True, first_kind="enum"), gen_shape(r, 1, force="mistyped_max_good_page"),
              gen_shape(r, 2, force="repeated_token"), gen_shape(r, 3, force="repeated_next"),
              gen_shape(r, 4, conforming=True, first_kind="map"), gen_shape(r, 5, conforming=True, first_kind="other_file"),
              gen_shape(r, 6, force="page_size_wrapper"),
              stream_shape(r, 7, "ss"), stream_shape(r, 8, "cs"), stream_shape(r, 9, "bidi")]
    run_api(ctx, r, corpus, "corpus", programs=[{"history": LEAN_EXAMPLE_HISTORY, "program": LEAN_EXAMPLE_PROGRAM},
                                                 {"history": REPEATED_TOKEN_HISTORY}, {"history": RESUME_ECHO_HISTORY, "token0": "cur-2"},
                                                 {"history": SHORT_PAGES_HISTORY, "size": 3}])
    probe_extended_operation(ctx)
    exhaustive_programs(ctx, ctx.n(4, 7))
    with open(os.path.join(CORPUS, "map_value_other_file.json")) as fh:      # regression input (fixed 1f977de): map pager whose value type lives in another module; must HOLD
        run_api(ctx, r, json.load(fh)["payload"]["shapes"], "corpus:map-value-other-file")
    with open(os.path.join(CORPUS, "request_other_package.json")) as fh:     # requests / responses / items of a dependency package (pb2 classes)
        run_api(ctx, r, json.load(fh)["payload"]["shapes"], "corpus:request-other-package")
    # proto sub-package layouts: one deterministic API per layout (corpus/C07/subpkg_<layout>.json), then a regular share below
    for lay in LAYOUTS:
        with open(os.path.join(CORPUS, f"subpkg_{lay}.json")) as fh:
            run_api(ctx, r, json.load(fh)["payload"]["shapes"], "corpus:" + lay)
    for a in range(ctx.n(3, 150)):
        shapes = [gen_shape(r, i) for i in range(8)]
        shapes[0] = gen_shape(r, 0, conforming=True)
        if r.maybe(0.5):
            shapes.append(stream_shape(r, 8))
        if r.maybe(0.4):
            shapes = with_layout(r, shapes, r.pick(LAYOUTS))
        run_api(ctx, r, shapes, f"api{a}")


def search(ctx):
    r = ctx.rng("search")
    for a in range(12):
        shapes = [gen_shape(r, i) for i in range(8)]
        if a % 3 == 2:
            shapes = with_layout(r, shapes, LAYOUTS[(a // 3) % 3])
        run_api(ctx, r, shapes, f"search{a}")


def replay(ctx, payload):
    import leanio
    ctx.driver = leanio.Driver()
    if payload.get("whole_api"):
        run_api(ctx, ctx.rng("replay"), payload["shapes"], "replay")
    else:
        s = payload["shape"] if "shape" in payload else payload["shapes"][0]
        run_api(ctx, ctx.rng("replay"), [s], "replay")
    for f in ctx.failures:
        print("  failure:", f["key"], "-", f["what"])
    return not ctx.failures


CLAIM = dict(
    text='Lean 4 proof, for EVERY program over the generators of one pager (any number of `pages` / item generators, any interleaving, any amount consumed), that the pager sends exactly the tokens of the pages it received, one request per page, on requests that otherwise equal the caller\'s, never fetches past the first empty token, exposes the most recent page, fetches only when a generator is advanced past what it holds, and that `list(pager)` consumed k items far is the first k items of the big-step loop (refinement); the client templates wrap a method in a pager exactly when the AIP-4233 rule holds and it is not an LRO. And: by induction over ALL server page histories, that the pager model yields the items of the pages up to and including the first empty token exactly once and in order, sends exactly the received tokens, leaves every other request field and call option unchanged, stops at the first empty token, and exposes the last page; and an iff-characterisation of paged_result_field (incl. the max_results precedence). Tie: T2 the real Method.paged_result_field vs the model on generated shapes; T3 the emitted sync and asyncio pagers against a loopback gRPC server with scripted histories vs the model, op-by-op for generator programs (observation and number of requests after every op); what every generated method returns (pager or response) vs the wrapping model; a model-independent oracle restating the property.',
    technique='Lean 4 theorems (induction on page histories; iff-characterisation of the classifier) + differential T2/T3 against the emitted pagers',
    design='7.7',
    note="The pager's loop is modelled from pagers.py.j2 by hand; maps are compared per page as sets. A server that never returns an empty token is outside the model. Object identity (the pager's private copy of the request) is not modelled: checked by the oracle (caller's request before/after, second listing). Streaming and extended-operation methods whose messages satisfy the rule are outside the property (model predictions only).",
)
