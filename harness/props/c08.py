"""C08 — long-running methods return futures typed by google.longrunning.operation_info (DESIGN §7.8)."""
from __future__ import annotations
import base64, collections, copy, json, os, types
import apigen, genrun, libhost, rpc

HERE = os.path.dirname(os.path.abspath(__file__))
ROOT = os.path.dirname(os.path.dirname(HERE))
CORPUS = os.path.join(ROOT, "corpus", "C08")

OP = "google.longrunning.Operation"
OP_OUT = "." + OP
GETOP = "/google.longrunning.Operations/GetOperation"
MIN_DEPS = ["google/api/annotations.proto", "google/api/client.proto", "google/longrunning/operations.proto"]
PKGS = ["acme.lib.v1", "foo.bar.baz.v2", "acme.lib.v1beta1", "acme.lib.v1", "big.co.lib.v1"]
SVC_STEMS = ["lib", "service", "library_service"]
IMP_STEMS = ["shared", "resources", "common"]
UNIMP_STEMS = ["extra", "operation", "metadata_types", "results", "operation_async", "operation"]
SUBPKG_DEEPER = True      # two-level sub-packages (`<pkg>.sub.deeper`) in the sub-package layout
MSG_POOL = ["Book", "MoveMeta", "OperationMetadata", "Empty", "Operation", "Status", "Result", "Shelf", "Progress",
            "Crate", "Report", "Struct", "Metadata", "Response"]
# dependency-package types: proto full name -> defining file
WKT = {"google.protobuf.Empty": "google/protobuf/empty.proto", "google.protobuf.Struct": "google/protobuf/struct.proto",
       "google.protobuf.Duration": "google/protobuf/duration.proto", "google.rpc.Status": "google/rpc/status.proto"}
ROLES = ("svc", "imp", "unimp")


def ask(ctx, ops):
    """ctx.driver.ask, tolerant of another builder re-linking the shared driver binary at this moment"""
    import time
    for attempt in range(30):
        try:
            return ctx.driver.ask(ops)
        except (FileNotFoundError, PermissionError, OSError, RuntimeError):
            if attempt == 29:
                raise
            time.sleep(2)


def fpkg(spec, role):
    """package of the file with this role (sub-package layouts give files their own package)"""
    return spec["files"][role].get("pkg") or spec["pkg"]


def spkg(spec):
    """the package of the service's file = the METHOD's package"""
    return fpkg(spec, "svc")


def io_role(spec):
    """role of the file that declares `ThingRequest` and the plain method's response (the service's own file unless the
    layout keeps the request/response messages in another package; that file is imported by the service's file)"""
    return spec.get("io_role", "svc")


def io_first(spec):
    """full name of the plain (non-LRO) response message"""
    role = io_role(spec)
    return f"{fpkg(spec, role)}.{spec['files'][role]['msgs'][0]}"


def request_type(spec):
    return f"{fpkg(spec, io_role(spec))}.ThingRequest"


def fpath(spec, role):
    return f"{fpkg(spec, role).replace('.', '/')}/{spec['files'][role]['stem']}.proto"


# ------------------------------------------------------------------ generator (the property's quantifier)

# layouts and their share of the generated APIs (per cent).  `flat`: one package.  `subpkg`: the service's file in `<pkg>.sub`,
# same-named messages in the ancestor / a sibling / a deeper package.  The last three put services and their request /
# response messages in DIFFERENT packages of the API (DESIGN §7.8, sub-package layouts):
#   sub-all      every service in ONE sub-package, the API package holds only messages (half of them: the sub-package's files
#                declare no message at all; sometimes two services in two files of the sub-package)
#   root+sub     one service in the API package and one in a sub-package (either of them is `Library`)
#   msgs-in-sub  the service in the API package, its request / response / LRO messages in a sub-package
LAYOUTS = [("flat", 40), ("subpkg", 20), ("sub-all", 14), ("root+sub", 13), ("msgs-in-sub", 13)]
SUB_NAMES = ["sub", "keepers", "admin", "sub", "sub.deeper"]


def pick_layout(r):
    x = r.randint(1, sum(w for _, w in LAYOUTS))
    for name, w in LAYOUTS:
        x -= w
        if x <= 0:
            return name
    return LAYOUTS[0][0]


def gen_spec(r: apigen.Rng, idx: int, nlro=None, layout=None):
    if layout is None:
        layout = pick_layout(r)
    if layout == "subpkg":
        spec = gen_spec_subpkg(r, idx, nlro)
    elif layout == "flat":
        spec = gen_spec_flat(r, idx, nlro)
    else:
        spec = gen_spec_split(r, idx, nlro, layout)
    reserve_stems(r, spec)
    spec["sharing"] = share_types(r, [m for m in spec["methods"] if m["kind"] == "lro"])
    if layout == "flat":
        lros = [m for m in spec["methods"] if m["kind"] == "lro"]
        if r.maybe(0.2):       # an rpc whose snake-case name is the name of api-core's module (Service.names -> module alias)
            r.pick(lros)["name"] = r.pick(["Operation", "Operation", "OperationAsync"])
        if r.maybe(0.45):      # a second service, in the file nobody imports (LRO methods in several services and files)
            spec["svc2"] = gen_second_service(r, spec)
    if r.maybe(0.35):
        add_dependency_file(r, spec)
    add_twin_types(r, spec)
    spec["service_yaml"] = gen_yaml(r, spec["pkg"]) if r.maybe(0.45) else None
    return spec


def add_twin_types(r, spec, p=0.5, force=False):
    """half of the APIs with several packages: ONE LRO method whose response and metadata are DIFFERENT messages with the SAME short
    name, defined in files with the SAME base name in different packages (API package + sub-package, or two sub-packages), so that
    both render as `<stem>.<Name>` before import aliasing; as a control (also in one-package APIs) a method whose response and
    metadata are the SAME message.  The oracle reads `future.metadata` and `result()` of each."""
    lros = [m for m in spec["methods"] if m["kind"] == "lro"]
    if not lros:
        return
    if r.maybe(0.3) or force:                   # control: response and metadata are one and the same message
        m = r.pick(lros)
        m["metadata"] = dict(m["response"])
        spec["twin"] = {"control": m["name"]}
    pairs = [(a, b) for a in ROLES for b in ROLES if a != b and fpkg(spec, a) != fpkg(spec, b)]
    if not pairs or not (force or r.maybe(p)):
        return
    a, b = r.pick(pairs)
    others = {fpath(spec, x) for x in ROLES if x != b}
    fb = spec["files"][b]
    old = fb["stem"]
    fb["stem"] = spec["files"][a]["stem"]
    if fpath(spec, b) in others:
        fb["stem"] = old
        return
    taken = lambda role: {n for x in ROLES if fpkg(spec, x) == fpkg(spec, role) for n in spec["files"][x]["msgs"]}
    cands = [n for n in spec["files"][a]["msgs"] if n in fb["msgs"] or n not in taken(b)]
    if cands:
        name = r.pick(cands)
    else:
        name = next(n for n in ["Status", "Result", "Metadata", "Progress", "Report"] if n not in taken(a) and n not in taken(b))
        spec["files"][a]["msgs"].append(name)
    if name not in fb["msgs"]:
        fb["msgs"].append(name)
    fa_, fb_ = f"{fpkg(spec, a)}.{name}", f"{fpkg(spec, b)}.{name}"
    ra = {"case": f"twin-{a}", "text": name if fpkg(spec, a) == spkg(spec) and r.maybe(0.5) else fa_, "target": fa_}
    rb = {"case": f"twin-{b}", "text": name if fpkg(spec, b) == spkg(spec) and r.maybe(0.5) else fb_, "target": fb_}
    m = r.pick([x for x in lros if x["name"] != spec.get("twin", {}).get("control")] or lros)
    m["response"], m["metadata"] = (ra, rb) if r.maybe(0.5) else (rb, ra)
    spec.setdefault("twin", {}).update({"method": m["name"], "roles": [a, b], "stem": fb["stem"], "name": name})


DEP_PKGS = ["acme.shared.v1", "globex.common", "acme.shared.v1"]


def add_dependency_file(r, spec):
    """35% of the APIs: 1-3 LRO response/metadata names are FULL names of messages of a DEPENDENCY-ONLY file of another package (in
    proto_file, not in file_to_generate).  The service's file does not import it; another target file does (the un-imported file,
    which may come after the service's file, or the file the service imports).  proto_file order: any position before its importer —
    before or AFTER the service's file (protoc only guarantees that a file follows the files it imports)."""
    importer = r.pick(["unimp", "unimp", "unimp", "imp"])
    order = [x for x in spec["order"] if x != "dep"]
    if importer == "unimp" and order.index("unimp") < order.index("svc") and r.maybe(0.6):
        order.remove("unimp")
        order.append("unimp")
    hi = order.index(importer)
    after = [k for k in range(hi + 1) if k > order.index("svc")]
    pos = r.pick(after) if after and r.maybe(0.7) else r.randint(0, hi)
    order.insert(pos, "dep")
    spec["order"] = order
    pkg = r.pick(DEP_PKGS)
    spec["dep"] = {"pkg": pkg, "stem": r.pick(["op_types", "operation_metadata", "common", "shared_types"]), "msgs": ["OpMeta", "OpResult"],
                   "nested": [["Wrap", "Core"]], "importer": importer}
    where = ("after" if order.index("dep") > order.index("svc") else "before") + f"-svc-imported-by-{importer}"
    lros = [m for m in spec["methods"] if m["kind"] == "lro"]
    if spec.get("svc2") and r.maybe(0.4):
        lros += [m for m in spec["svc2"]["methods"] if m["kind"] == "lro"]
    for _ in range(r.randint(1, 3)):
        full = f"{pkg}." + r.pick(["OpMeta", "OpMeta", "OpResult", "Wrap.Core"])
        r.pick(lros)[r.pick(["metadata", "metadata", "response"])] = {"case": "abs-depfile-" + where, "text": full, "target": full}
    return spec


# base names API.build must rename (`<name>_.proto`): every client method has parameters `request`, `retry`, `timeout`, `metadata`
# (a types module of that name would be shadowed inside the method that builds the future), Python keywords cannot be imported,
# `__init__` is the types package's own module
RESERVED_STEMS = ["metadata", "metadata", "retry", "timeout", "request", "import", "class", "from", "lambda", "global", "__init__", "metadata"]


def reserve_stems(r, spec, p=0.4):
    """40% of the APIs: one or two of the target files that define the LRO response/metadata types (imported by the service's file
    or not, in the API package's directory or a sub-package's) — sometimes the service's own file — are called `metadata.proto`,
    `retry.proto`, `timeout.proto`, `request.proto`, `<keyword>.proto` or `__init__.proto`; every file has a directory component"""
    if not r.maybe(p):
        return
    roles = r.pick([["unimp"], ["imp"], ["unimp", "imp"], ["imp", "unimp"], ["unimp"], ["svc"], ["svc", "unimp"]])
    for role in roles:
        taken = {fpath(spec, x) for x in ROLES if x != role}
        for _ in range(8):
            spec["files"][role]["stem"] = r.pick(RESERVED_STEMS)
            if fpath(spec, role) not in taken:
                break
    spec["reserved_stems"] = {role: spec["files"][role]["stem"] for role in roles}


def share_types(r, lros):
    """make LRO methods share response and/or metadata types in every combination (state shared between methods)"""
    if len(lros) < 2 or r.maybe(0.35):
        return "independent"
    a, b = r.sample(lros, 2)
    pat = r.pick(["same-response", "same-response", "same-metadata", "same-both", "crossed", "response-is-others-metadata", "chain"])
    if pat == "same-response":
        b["response"] = dict(a["response"])
    elif pat == "same-metadata":
        b["metadata"] = dict(a["metadata"])
    elif pat == "same-both":
        b["response"], b["metadata"] = dict(a["response"]), dict(a["metadata"])
    elif pat == "crossed":
        b["response"], b["metadata"] = dict(a["metadata"]), dict(a["response"])
    elif pat == "response-is-others-metadata":
        b["response"] = dict(a["metadata"])
    else:                       # every later method repeats the first one's response type
        for m in lros[1:]:
            m["response"] = dict(lros[0]["response"])
    return pat


def gen_second_service(r, spec):
    """service `Archive` in the un-imported file: 0..2 LRO methods (names relative to ITS file's package) and a raw one"""
    pkg = fpkg(spec, "unimp")
    own = spec["files"]["unimp"]["msgs"]
    other = spec["files"]["svc"]["msgs"] or own

    def ref2():
        k = r.pick(["own-rel", "own-abs", "other-rel", "other-abs", "empty", "nested"])
        if k == "empty":
            return {"case": "svc2-empty", "text": "google.protobuf.Empty", "target": "google.protobuf.Empty"}
        if k == "nested":
            full = f"{pkg}.Box.Lid"
            return {"case": "svc2-abs-nested", "text": full, "target": full}
        mine2 = k.startswith("own") or not spec["files"]["svc"]["msgs"]
        n = r.pick(own if mine2 else other)
        full = f"{(pkg if mine2 else spkg(spec))}.{n}"
        rel = k.endswith("rel") and (mine2 or spkg(spec) == pkg)      # a relative name denotes a message of ITS method's package
        return {"case": "svc2-" + k, "text": n if rel else full, "target": full}
    ms = [{"name": f"{r.pick(['Archive', 'Restore', 'Purge'])}{k}", "kind": "lro", "response": ref2(), "metadata": ref2()}
          for k in range(r.pick([0, 1, 2, 2]))]
    share_types(r, ms)
    ms.append({"name": "ArchiveRaw", "kind": "raw"})
    r.shuffle(ms)
    return {"methods": ms}


# collections under which operations live: (pattern of the parent, a format producing a parent name)
COLLS = [("shelves/*", "shelves/s{0}"), ("archives/*", "archives/a{0}"), ("projects/*/locations/*", "projects/p{0}/locations/l{0}"),
         ("organizations/*", "organizations/o{0}")]
OPS_SEL = "google.longrunning.Operations."


def gen_yaml(r, pkg):
    """service config: http rules for google.longrunning.Operations (the REST operations client's table) with 0..3
    ADDITIONAL BINDINGS each — operations living under several kinds of parent, as in real service configs —, other rules,
    optional mixin.  The bindings of GetOperation decide which operation names the client can poll (`NameSource`)."""
    ver = pkg.rsplit(".", 1)[1]
    pv = lambda: r.pick([ver, ver, "v9", "v8"])

    def colls(n=None):
        return r.sample(range(len(COLLS)), n if n is not None else r.pick([1, 2, 2, 3, 3, 4]))
    shape = r.pick(["collections"] * 6 + ["catch-all", "only-additional-fits", "suffix", "default", "default"])
    cs = None
    if shape == "collections":          # primary + 0..3 additional bindings, one collection each
        cs = colls()
        get = [["get", f"/{pv()}/{{name={COLLS[c][0]}/operations/*}}" + (":poll" if r.maybe(0.1) else ""), ""] for c in cs]
    elif shape == "catch-all":
        get = [["get", f"/{ver}/{{name=**/operations/*}}", ""]]
        if r.maybe(0.5):                # a narrower binding first, the catch-all as the additional one
            get.insert(0, ["get", f"/v9/{{name={COLLS[r.randint(0, 3)][0]}/operations/*}}", ""])
    elif shape == "only-additional-fits":
        get = [["get", "/v9/{name=operations/*}", ""], ["get", "/v8/{name=shelves/*/operations/*}", ""]]
    elif shape == "suffix":
        get = [["get", "/v7/{name=shelves/*/operations/*}:poll", ""]]
    else:
        get = None

    def covering(verb, suffix, body):
        """bindings for Cancel/Delete/Wait: every name GetOperation can poll is accepted by one of them"""
        if cs is None or r.maybe(0.25):
            out = [[verb, f"/{ver}/{{name=**}}{suffix}", body]]
            if r.maybe(0.4):
                out.insert(0, [verb, f"/v9/{{name={COLLS[r.randint(0, 3)][0]}/operations/*}}{suffix}", body])
            return out
        order = list(cs) + [c for c in range(len(COLLS)) if c not in cs and r.maybe(0.3)]
        r.shuffle(order)
        return [[verb, f"/{pv()}/{{name={COLLS[c][0]}/operations/*}}{suffix}", body] for c in order]
    rules = []
    if r.maybe(0.3):
        rules.append({"selector": "google.cloud.location.Locations.GetLocation", "bindings": [["get", "/v1/{name=projects/*/locations/*}", ""]]})
    if get and r.maybe(0.25):   # an earlier rule for the same selector: the later one wins
        rules.append({"selector": OPS_SEL + "GetOperation", "bindings": [["get", "/v0/{name=never/*}", ""], ["get", "/v0/{name=shelves/*/operations/*}", ""]][:r.randint(1, 2)]})
    if r.maybe(0.5):
        rules.append({"selector": OPS_SEL + "CancelOperation", "bindings": covering("post", ":cancel", "*")})
        # (a CancelOperation rule WITHOUT `body` — common in real service configs — makes api-core's REST operations transport raise
        #  KeyError: 'body' in future.cancel(); that is api-core's `_cancel_operation`, not the generator: not generated here)
    if r.maybe(0.3):
        rules.append({"selector": OPS_SEL + "WaitOperation", "bindings": covering("post", ":wait", "*")})
    if get:
        rules.append({"selector": OPS_SEL + "GetOperation", "bindings": get})
    if r.maybe(0.3):
        rules.append({"selector": OPS_SEL + "DeleteOperation", "bindings": covering("delete", "", "")})
    if r.maybe(0.3):
        rules.append({"selector": OPS_SEL + "ListOperations",
                      "bindings": [["get", f"/{pv()}/{{name={COLLS[c][0]}}}/operations", ""] for c in colls(r.randint(1, 4))]})
    if r.maybe(0.3):            # order of the rules in the file (the decoy stays the EARLIER of the two GetOperation rules)
        r.shuffle(rules)
        gi = [i for i, x in enumerate(rules) if x["selector"] == OPS_SEL + "GetOperation"]
        if len(gi) == 2 and not rules[gi[0]]["bindings"][0][1].startswith("/v0/"):
            rules[gi[0]], rules[gi[1]] = rules[gi[1]], rules[gi[0]]
    return {"rules": list(rules), "mixin": r.maybe(0.4)}


def name_pattern(uri):
    """the pattern of the `{name=...}` variable of a uri template (`*` when the variable is bare), or None"""
    i = uri.find("{name")
    if i < 0:
        return None
    var = uri[i + 1:uri.index("}", i)]
    return var.partition("=")[2] or "*"


class NameSource:
    """operation names the server hands out.  They are the SERVER's choice; the quantifier only makes sense for names the
    service config lets the client poll, so a name is an instance of the pattern of ONE binding of the GetOperation rule in
    force — the primary, a middle and the last binding in turn (round robin, primary first) — or, without such a rule, of
    api-core's default `**/operations/*` under one of the collections."""

    def __init__(self, ctx, spec, ids):
        self.ctx, self.ids, self.k = ctx, ids, 0
        last = None
        for rule in yaml_rules(spec):
            if rule["selector"] == OPS_SEL + "GetOperation":
                last = rule
        self.patterns = [name_pattern(b[1]) for b in last["bindings"]] if last else None
        # programs call future.cancel(): the name must also be one the CancelOperation binding(s) in force accept (the last
        # CancelOperation rule, else api-core's default `**/operations/*`) — otherwise api-core raises ValueError on the unchanged tree
        cancel = None
        for rule in yaml_rules(spec):
            if rule["selector"] == OPS_SEL + "CancelOperation":
                cancel = rule
        self.cancel_patterns = [name_pattern(b[1]) for b in cancel["bindings"]] if cancel else ["**/operations/*"]
        ctx.assume("REST: the operation names the server hands out are accepted by a binding of the GetOperation rule in force AND by a binding of the "
                   "CancelOperation rule in force (api-core's default `**/operations/*` when the service config has none)")

    def cancellable(self, name):
        from google.api_core import path_template
        return any(p and path_template.validate(p, name) for p in self.cancel_patterns)

    def next(self, tag):
        i = next(self.ids)
        if self.patterns is None:
            self.k += 1
            self.ctx.count("poll_binding", "default-rule")
            return f"{COLLS[self.k % len(COLLS)][1].format(i)}/operations/{tag}{next(self.ids)}"
        n = len(self.patterns)
        for _ in range(n):                      # next binding (round robin) whose instances can also be cancelled
            idx = self.k % n
            self.k += 1
            if self.cancellable(self.instance(idx, 0, "x")):
                break
        self.ctx.count("poll_binding", ("only" if n == 1 else "primary" if idx == 0 else "last" if idx == n - 1 else "middle") + f" of {n}")
        return self.instance(idx, i, f"{tag}{next(self.ids)}")

    def instance(self, idx, i, leaf):
        pat = self.patterns[idx].split("/")
        segs = [f"shelves/s{i}" if seg == "**" else (f"x{i}" if seg == "*" else seg) for seg in pat]
        if pat[-1] in ("*", "**"):
            segs[-1] = leaf if pat[-1] == "*" else f"shelves/{leaf}"
        return "/".join(segs)


def gen_spec_subpkg(r: apigen.Rng, idx: int, nlro=None):
    """the service's file lives in the SUB-PACKAGE `<pkg>.sub`; a file of the ancestor package `<pkg>` and a file of
    `<pkg>.other` | `<pkg>.sub.deeper` | `<pkg>` define messages with the SAME short names as the service's file.
    Relative names must denote the messages of the METHOD's package (`<pkg>.sub.X`), fully-qualified names the
    package they spell."""
    pkg = r.pick(PKGS)
    sub = f"{pkg}.sub"
    names = list(MSG_POOL)
    r.shuffle(names)
    take = lambda k: [names.pop() for _ in range(k)]
    mine = take(r.randint(2, 3))
    third_pkg = r.pick([f"{pkg}.other", f"{pkg}.other", SUBPKG_DEEPER and f"{sub}.deeper" or f"{pkg}.other", pkg])
    anc = {"stem": r.pick(IMP_STEMS), "pkg": pkg, "msgs": list(mine) if r.maybe(0.7) else mine[:1] + take(1), "nested": [["Outer", "Inner"]]}
    third = {"stem": r.pick(UNIMP_STEMS), "pkg": third_pkg, "msgs": take(r.randint(1, 2)) if third_pkg == pkg else list(mine), "nested": [["Box", "Lid"]]}
    if r.maybe(0.5):          # which of the two is imported by the service's file
        imp, unimp = anc, third
    else:
        imp, unimp = third, anc
    files = {"svc": {"stem": r.pick(SVC_STEMS), "pkg": sub, "msgs": mine, "nested": [["Outer", "Inner"]]}, "imp": imp, "unimp": unimp}
    svc_deps = [f for f in sorted(set(WKT.values())) if r.maybe(0.5)]

    def ref():
        kind = r.pick(["rel-clash"] * 5 + ["abs-same", "abs-ancestor", "abs-ancestor", "abs-third", "nested-same", "nested-ancestor", "empty", "dep"])
        if kind == "rel-clash":
            n = r.pick(mine)
            shadowed = n in anc["msgs"] or n in third["msgs"]
            return {"case": "rel-subpkg-" + ("shadowing" if shadowed else "plain"), "text": n, "target": f"{sub}.{n}"}
        if kind == "abs-same":
            full = f"{sub}.{r.pick(mine)}"
        elif kind == "abs-ancestor":
            full = f"{pkg}.{r.pick(anc['msgs'])}"
        elif kind == "abs-third":
            full = f"{third_pkg}.{r.pick(third['msgs'])}"
        elif kind == "nested-same":
            full = f"{sub}.Outer.Inner"
        elif kind == "nested-ancestor":
            full = f"{pkg}.Outer.Inner"
        else:
            full = "google.protobuf.Empty" if kind == "empty" else r.pick([k for k in WKT if k != "google.protobuf.Empty"])
            imported = WKT[full] in svc_deps
            return {"case": f"{kind}-{'imported' if imported else 'unimported'}", "text": full, "target": full}
        return {"case": kind + "-subpkg", "text": full, "target": full}

    methods = []
    for k in range(nlro if nlro is not None else r.randint(3, 5)):
        methods.append({"name": f"{r.pick(['Start', 'Import', 'Export', 'Run'])}{r.pick(['Job', 'Index'])}{k}",
                        "kind": "lro", "response": ref(), "metadata": ref()})
    methods.append({"name": "StartRaw", "kind": "raw"})
    methods.append({"name": "GetThing", "kind": "plain"})
    r.shuffle(methods)
    order = ["imp", "svc"]
    order.insert(r.randint(0, 2), "unimp")
    return {"pkg": pkg, "layout": "subpkg", "files": files, "svc_deps": svc_deps, "order": order, "methods": methods, "service_yaml": None}


def gen_spec_split(r: apigen.Rng, idx: int, nlro, layout):
    """services and their messages in DIFFERENT packages of one API (`sub-all`, `root+sub`, `msgs-in-sub`, see LAYOUTS).
    Relative operation_info names denote messages of the METHOD's package (any file of it), fully-qualified names the
    package they spell; the same short names exist in the other package (shadowing)."""
    pkg = r.pick(PKGS)
    sub = f"{pkg}.{r.pick(SUB_NAMES)}"
    two = False
    if layout == "sub-all":
        two = r.maybe(0.4)                     # a second service, in another file of the SAME sub-package
        pk = {"svc": sub, "imp": pkg, "unimp": sub if two else pkg}
        bare = r.maybe(0.5)                    # the service's file declares no message: every message lives in the API package
    elif layout == "root+sub":
        two = True
        lib_in_sub = r.maybe(0.5)
        pk = {"svc": sub if lib_in_sub else pkg, "unimp": pkg if lib_in_sub else sub, "imp": r.pick([pkg, sub])}
        if r.maybe(0.2):                       # sibling sub-packages: the API package itself declares nothing
            pk = {"svc": sub, "imp": sub, "unimp": f"{pkg}.other"}
        bare = pk["imp"] != pk["unimp"] and r.maybe(0.25)
    else:                                       # msgs-in-sub
        two = r.maybe(0.3)
        pk = {"svc": pkg, "imp": sub, "unimp": r.pick([sub, pkg, sub])}
        bare = r.maybe(0.5)
    names = list(MSG_POOL)
    r.shuffle(names)
    used = collections.defaultdict(set)        # package -> short names taken
    files = {}
    for role in ROLES:
        k = 0 if (role == "svc" and bare) else r.randint(1, 2) + (role != "unimp")
        msgs = [names.pop() for _ in range(k)]
        # shadowing: a short name that another PACKAGE of the API also declares
        foreign = sorted({n for p, ns in used.items() if p != pk[role] for n in ns} - used[pk[role]])
        if msgs and foreign and r.maybe(0.6):
            msgs[-1] = r.pick(foreign)
        used[pk[role]].update(msgs)
        files[role] = {"stem": r.pick({"svc": SVC_STEMS, "imp": IMP_STEMS, "unimp": UNIMP_STEMS}[role]), "pkg": pk[role], "msgs": msgs,
                       "nested": {"svc": [] if bare else [["Outer", "Inner"]], "imp": [["Pack", "Item"]], "unimp": [["Box", "Lid"]]}[role]}
    if pk["imp"] != pk["svc"] and r.maybe(0.25):    # `<pkg>/lib.proto` and `<pkg>/sub/lib.proto`: two type modules of one name
        files["imp"]["stem"] = files["svc"]["stem"]
    if files["imp"]["stem"] == files["unimp"]["stem"] and pk["imp"] == pk["unimp"]:
        files["unimp"]["stem"] += "_more"
    io = "imp" if (bare or layout == "msgs-in-sub" or r.maybe(0.3)) else "svc"
    svc_deps = [f for f in sorted(set(WKT.values())) if r.maybe(0.5)]
    mpkg = pk["svc"]
    tops = [(role, n) for role in ROLES for n in files[role]["msgs"]]

    def ref():
        kind = r.pick(["rel"] * 4 + ["abs"] * 5 + ["nested", "empty", "dep"])
        rels = [(role, n) for role, n in tops if pk[role] == mpkg]
        if kind == "rel" and not rels:
            kind = "abs"
        if kind == "rel":
            role, n = r.pick(rels)
            shadowed = any(n in ns for p, ns in used.items() if p != mpkg)
            return {"case": f"rel-{role}-split" + ("-shadowed" if shadowed else ""), "text": n, "target": f"{mpkg}.{n}"}
        if kind == "abs":
            role, n = r.pick(tops)
            full = f"{pk[role]}.{n}"
            return {"case": f"abs-{role}-" + ("method-pkg" if pk[role] == mpkg else ("subpkg" if pk[role] == sub else "api-pkg")), "text": full, "target": full}
        if kind == "nested":
            role = r.pick([x for x in ROLES if files[x]["nested"]])
            full = f"{pk[role]}." + ".".join(files[role]["nested"][0])
            return {"case": f"abs-nested-{role}-" + ("method-pkg" if pk[role] == mpkg else "other-pkg"), "text": full, "target": full}
        full = "google.protobuf.Empty" if kind == "empty" else r.pick([k for k in WKT if k != "google.protobuf.Empty"])
        return {"case": f"{kind}-{'imported' if WKT[full] in svc_deps else 'unimported'}", "text": full, "target": full}

    methods = []
    for k in range(nlro if nlro is not None else r.randint(3, 5)):
        methods.append({"name": f"{r.pick(['Start', 'Import', 'Export', 'Run', 'Feed'])}{r.pick(['Job', 'Index', 'Animal'])}{k}",
                        "kind": "lro", "response": ref(), "metadata": ref()})
    methods.append({"name": "StartRaw", "kind": "raw"})
    methods.append({"name": "GetThing", "kind": "plain"})
    if r.maybe(0.4):
        methods.append({"name": "DropThing", "kind": "void"})
    r.shuffle(methods)
    order = ["imp", "svc"]
    order.insert(r.randint(0, 2), "unimp")
    spec = {"pkg": pkg, "layout": layout, "files": files, "io_role": io, "svc_deps": svc_deps, "order": order, "methods": methods, "service_yaml": None}
    if two:
        spec["svc2"] = gen_second_service(r, spec)
    return spec


def gen_spec_flat(r: apigen.Rng, idx: int, nlro=None):
    """one API: a service file, a file it imports, a file NOBODY imports (all three generated, same
    package), LRO methods whose response/metadata names are relative | fully-qualified and point to
    same-file | other-file imported | other-file not imported | nested | Empty | other dependency types."""
    pkg = r.pick(PKGS)
    names = list(MSG_POOL)
    r.shuffle(names)
    take = lambda k: [names.pop() for _ in range(k)]
    files = {"svc": {"stem": r.pick(SVC_STEMS), "msgs": take(r.randint(2, 3)), "nested": [["Outer", "Inner"]]},
             "imp": {"stem": r.pick(IMP_STEMS), "msgs": take(r.randint(1, 2)), "nested": []},
             "unimp": {"stem": r.pick(UNIMP_STEMS), "msgs": take(r.randint(1, 2)), "nested": [["Box", "Lid"]]}}
    # dependency files imported by the service's file (the others are imported by the un-imported file,
    # so that the request is a file set protoc would produce)
    svc_deps = [f for f in sorted(set(WKT.values())) if r.maybe(0.5)]

    def ref():
        kind = r.pick(["same", "same", "imp", "imp", "unimp", "unimp", "unimp", "nested-same", "nested-unimp", "empty", "dep"])
        if kind in ("same", "imp", "unimp"):
            role = {"same": "svc"}.get(kind, kind)
            full = f"{pkg}.{r.pick(files[role]['msgs'])}"
            rel = r.maybe(0.5)
            return {"case": ("rel-" if rel else "abs-") + kind, "text": full.rsplit(".", 1)[1] if rel else full, "target": full}
        if kind.startswith("nested"):
            role = "svc" if kind == "nested-same" else "unimp"
            full = f"{pkg}." + ".".join(files[role]["nested"][0])
            return {"case": "abs-" + kind, "text": full, "target": full}
        full = "google.protobuf.Empty" if kind == "empty" else r.pick([k for k in WKT if k != "google.protobuf.Empty"])
        imported = WKT[full] in svc_deps
        return {"case": f"{kind}-{'imported' if imported else 'unimported'}", "text": full, "target": full}

    methods = []
    for k in range(nlro if nlro is not None else r.randint(3, 6)):
        methods.append({"name": f"{r.pick(['Move', 'Import', 'Export', 'Create', 'Delete', 'Run'])}{r.pick(['Book', 'Shelf', 'Job', 'Index'])}{k}",
                        "kind": "lro", "response": ref(), "metadata": ref()})
    methods.append({"name": "StartRaw", "kind": "raw"})
    methods.append({"name": "GetThing", "kind": "plain"})
    if r.maybe(0.5):
        methods.append({"name": "DropThing", "kind": "void"})
    if r.maybe(0.5):
        methods.append({"name": "ListThings", "kind": "paged"})
    if r.maybe(0.3):
        methods.append({"name": "AnnotatedPlain", "kind": "annotated-plain", "response": ref(), "metadata": ref()})
    r.shuffle(methods)
    order = ["imp", "svc"]
    order.insert(r.randint(0, 2), "unimp")
    return {"pkg": pkg, "files": files, "svc_deps": svc_deps, "order": order, "methods": methods, "service_yaml": None}


def build_files(spec):
    """ApiSpec -> descriptors (apigen stands in for protoc)"""
    pkg = spkg(spec)
    path = lambda role: fpath(spec, role)
    other_deps = [f for f in sorted(set(WKT.values())) if f not in spec["svc_deps"]]
    out = {}
    for role in ROLES:
        fs = spec["files"][role]
        deps = {"svc": MIN_DEPS + list(spec["svc_deps"]) + [path("imp")], "imp": [], "unimp": other_deps}[role]
        if role == "svc" and any(m["kind"] == "void" for m in spec["methods"]) and "google/protobuf/empty.proto" not in deps:
            deps = deps + ["google/protobuf/empty.proto"]
        f = apigen.File(path(role), fpkg(spec, role), deps=deps)
        for n in fs["msgs"]:
            m = f.msg(n); m.field("name"); m.field("n", "int32")
        for outer, inner in fs["nested"]:
            o = f.msg(outer); o.field("name"); o.field("n", "int32")
            i = o.nested(inner); i.field("name"); i.field("n", "int32")
        out[role] = f
    dep = spec.get("dep")
    if dep:
        g = apigen.File(f"{dep['pkg'].replace('.', '/')}/{dep['stem']}.proto", dep["pkg"], deps=[])
        g.is_dep = True
        for n in dep["msgs"]:
            m = g.msg(n); m.field("name"); m.field("n", "int32")
        for outer, inner in dep["nested"]:
            o = g.msg(outer); o.field("name"); o.field("n", "int32")
            i = o.nested(inner); i.field("name"); i.field("n", "int32")
        out["dep"] = g
        imp_f = out[dep["importer"]]
        imp_f.dep(g.name)                      # ANOTHER target file imports (and uses) it; the service's file does not
        hold = imp_f.msg("LastOperation"); hold.field("name"); hold.field("meta", "message", type_name=f".{dep['pkg']}.{dep['msgs'][0]}")
    f = out["svc"]
    rq = out[io_role(spec)].msg("ThingRequest"); rq.field("name")
    first = io_first(spec)
    svc = f.service("Library")
    for m in spec["methods"]:
        http = ("post", "/v1/{name=*}:" + m["name"][0].lower() + m["name"][1:])
        if m["kind"] in ("lro", "excluded"):
            svc.method(m["name"], rq, OP_OUT, lro=(m["response"]["text"], m["metadata"]["text"]), http=http, body="*")
        elif m["kind"] == "raw":
            svc.method(m["name"], rq, OP_OUT, http=http, body="*")
        elif m["kind"] == "plain":
            svc.method(m["name"], rq, "." + first, http=http, body="*")
        elif m["kind"] == "annotated-plain":      # operation_info on a method that does not return Operation
            svc.method(m["name"], rq, "." + first, lro=(m["response"]["text"], m["metadata"]["text"]), http=http, body="*")
        elif m["kind"] == "void":
            svc.method(m["name"], rq, ".google.protobuf.Empty", http=http, body="*")
        elif m["kind"] == "paged":
            lq = f.msg("ListThingsRequest"); lq.field("parent"); lq.field("page_size", "int32"); lq.field("page_token")
            ls = f.msg("ListThingsResponse"); ls.field("things", "message", repeated=True, type_name="." + first); ls.field("next_page_token")
            svc.method(m["name"], lq, ls, http=("get", "/v1/{parent=*}/things"))
        elif m["kind"] == "present-empty":        # the option is present but both names are empty
            from google.longrunning import operations_pb2
            mp = svc.method(m["name"], rq, OP_OUT, http=http, body="*")
            mp.options.Extensions[operations_pb2.operation_info].SetInParent()
    if spec.get("svc2"):
        g = out["unimp"]
        for d in MIN_DEPS:
            g.dep(d)
        arq = g.msg("ArchiveRequest"); arq.field("name")
        svc2 = g.service("Archive")
        for m in spec["svc2"]["methods"]:
            http = ("post", "/v1/{name=*}:" + m["name"][0].lower() + m["name"][1:])
            if m["kind"] in ("lro", "excluded"):
                svc2.method(m["name"], arq, OP_OUT, lro=(m["response"]["text"], m["metadata"]["text"]), http=http, body="*")
            elif m["kind"] == "present-empty":
                from google.longrunning import operations_pb2
                svc2.method(m["name"], arq, OP_OUT, http=http, body="*").options.Extensions[operations_pb2.operation_info].SetInParent()
            else:
                svc2.method(m["name"], arq, OP_OUT, http=http, body="*")
    return [out[role] for role in spec["order"]]


def yaml_rules(spec):
    y = spec.get("service_yaml")
    if not y:
        return []
    if "rules" in y:
        return y["rules"]
    return [{"selector": "google.longrunning.Operations.GetOperation", "bindings": [["get", y["get_operation"], ""]]}]   # older replays


def make_request(spec, files):
    """(CodeGeneratorRequest, scratch dir or None)"""
    params = "transport=grpc+rest,autogen-snippets=false"
    tmp = None
    y = spec.get("service_yaml")
    if y:
        import tempfile
        tmp = tempfile.mkdtemp(prefix="gapicverif_c08yaml_", dir=genrun.SCRATCH)
        path = os.path.join(tmp, "service.yaml")
        with open(path, "w") as fh:
            fh.write("type: google.api.Service\nconfig_version: 3\nname: lib.example.com\n")
            if y.get("mixin"):
                fh.write("apis:\n- name: google.longrunning.Operations\n")
            rules = yaml_rules(spec)
            if rules:
                fh.write("http:\n  rules:\n")
            for rule in rules:
                fh.write("  - selector: %s\n" % rule["selector"])
                for k, (verb, uri, body) in enumerate(rule["bindings"]):
                    ind = "    " if k == 0 else "      "
                    if k == 1:
                        fh.write("    additional_bindings:\n")
                    lead = ind if k == 0 else "    - "
                    fh.write("%s%s: '%s'\n" % (lead, verb, uri))
                    if body:
                        fh.write("%sbody: '%s'\n" % (ind, body))
        params += ",service-yaml=" + path
    targets = [f for f in files if not getattr(f, "is_dep", False)]
    return apigen.request(files, params, targets=targets if len(targets) != len(files) else None), tmp


def model_files(req):
    """the model's view of the request: every file with package, imports and the full names of all its messages"""
    res = []

    def walk(prefix, msgs, acc):
        for m in msgs:
            acc.append(f"{prefix}.{m.name}" if prefix else m.name)
            walk(acc[-1], m.nested_type, acc)
    for fd in req.proto_file:
        acc = []
        walk(fd.package, fd.message_type, acc)
        res.append({"name": fd.name, "package": fd.package, "deps": list(fd.dependency), "messages": acc})
    return res


# ------------------------------------------------------------------ histories

CMDS = ["metadata", "done", "running", "cancel", "result", "exception"]


def gen_program(r):
    cmds = [r.pick(CMDS) for _ in range(r.randint(0, 5))]
    if r.maybe(0.75):
        cmds.append("result")
    if r.maybe(0.25):
        cmds.append(r.pick(CMDS))          # something after the result: a settled future must stay silent
    return cmds or ["result"]


def gen_history(r, ctx, resp_full, meta_full, others, ids, allow_mismatch=True):
    """Operation states: the RPC's own reply, then GetOperation replies: not-done^k, done(response|error), extras"""
    def meta():
        return [meta_full, 0 if meta_full == "google.protobuf.Empty" else next(ids)] if r.maybe(0.8) else None
    k = r.randint(0, ctx.n(2, 4))
    immediate = r.maybe(0.15)                    # the RPC's own reply is already done
    term = r.pick(["response"] * 7 + ["error"] * 2 + ["neither"])
    ops = [{"done": False, "meta": meta(), "out": None} for _ in range(k + 1)]
    if term == "response":
        ty = resp_full
        if others and allow_mismatch and not immediate and r.maybe(0.06):
            ty = r.pick(others)                 # a server packing another type: outside the quantifier, T3 vs model only
        out = ["response", ty, 0 if ty == "google.protobuf.Empty" else next(ids)]
    elif term == "error":
        out = ["error", r.pick([1, 2, 3, 5, 6, 7, 9, 10, 13, 14])]
    else:
        out = None
    done = {"done": True, "meta": meta(), "out": out}
    if immediate:
        ops = [done]
    else:
        ops.append(done)
    for _ in range(r.randint(0, 2)):             # replies after the done one: must never be fetched
        ops.append({"done": r.maybe(), "meta": None, "out": ["error", 13] if r.maybe() else None})
    return ops


def payload_json(full, i):
    if full == "google.protobuf.Empty": return {}
    if full == "google.protobuf.Struct": return {"k": f"v{i}"}
    if full == "google.protobuf.Duration": return f"{i}s"
    if full == "google.rpc.Status": return {"code": 2, "message": f"m{i}"}
    return {"name": f"r{i}", "n": i}


def payload_id(full, d):
    """recover the scripted id from a message decoded under the INPUT descriptors"""
    if full == "google.protobuf.Empty": return 0
    if full == "google.protobuf.Struct": return int(d.get("k", "v0")[1:])
    if full == "google.protobuf.Duration": return int(float(d[:-1]))
    if full == "google.rpc.Status": return int(d.get("message", "m0")[1:])
    return int(d.get("n", 0))


def op_message(codec, name, st):
    Op = codec.cls(OP)
    o = Op(name=name, done=st["done"])
    if st["meta"]:
        o.metadata.type_url = "type.googleapis.com/" + st["meta"][0]
        o.metadata.value = codec.encode(st["meta"][0], payload_json(*st["meta"]))
    if st["done"] and st["out"]:
        if st["out"][0] == "response":
            o.response.type_url = "type.googleapis.com/" + st["out"][1]
            o.response.value = codec.encode(st["out"][1], payload_json(st["out"][1], st["out"][2]))
        else:
            o.error.code = st["out"][1]
            o.error.message = f"scripted failure {st['out'][1]}"
    return o


def expected_polls(ops):
    """oracle's own count: polls until the first done operation (none when the RPC's reply is done)"""
    if ops[0]["done"]:
        return 0
    for i, st in enumerate(ops[1:], 1):
        if st["done"]:
            return i
    return len(ops) - 1


# ------------------------------------------------------------------ T2 helpers

def classify_output(co, m):
    from gapic.schema import wrappers
    if co is m.output:
        return ["message", m.output.ident.proto]
    if isinstance(co, wrappers.PrimitiveType):
        return str(co.ident.name)
    mod, name = co.ident.module, co.ident.name
    if mod == "pagers":
        return "async_pager" if name.endswith("AsyncPager") else "pager"
    return f"{mod}.{name}"


def gen_selectors(r, spec, n):
    pkg = spkg(spec)
    locals_ = [f"{fpkg(spec, role)}.{x}" for role in ROLES for x in spec["files"][role]["msgs"]]
    nested = [f"{fpkg(spec, role)}." + ".".join(x) for role in ROLES for x in spec["files"][role]["nested"]]
    if spec.get("dep"):
        locals_ = locals_ + [f"{spec['dep']['pkg']}.{x}" for x in spec["dep"]["msgs"]] * 2
    out = []
    for _ in range(n):
        full = r.pick(locals_ + nested + list(WKT))
        form = r.pick(["abs"] * 5 + ["rel-last"] * 5 + ["rel-pkg"] * 2 + ["leading-dot", "partial", "unknown", "unknown-abs", "empty", "other-pkg-rel"])
        if form == "abs": s = full
        elif form == "rel-last": s = full.rsplit(".", 1)[1]
        elif form == "rel-pkg": s = full[len(pkg) + 1:] if full.startswith(pkg + ".") else full
        elif form == "leading-dot": s = "." + full
        elif form == "partial": s = full.split(".", 1)[1]
        elif form == "unknown": s = "Nope" + r.ident()
        elif form == "unknown-abs": s = pkg + ".Nope"
        elif form == "empty": s = ""
        else: s = "Empty"
        out.append(s)
    return out


CAPTURED = []


def capture_builders(thunk):
    """run `thunk` (an API build) while recording every `_ProtoBuilder` it constructs: the direct probe below then calls
    `_maybe_get_lro` on the REAL second-pass builder of the service's file, with whatever instance state the current code
    gives it (a stand-in for `self` breaks as soon as a refactoring adds an attribute or a helper)"""
    from gapic.schema import api as api_mod
    del CAPTURED[:]
    cls = getattr(api_mod, "_ProtoBuilder", None)
    if cls is None:
        return thunk()
    orig = cls.__init__

    def init(self, *a, **kw):
        orig(self, *a, **kw)
        CAPTURED.append((self, kw.get("load_services", True)))
    cls.__init__ = init
    try:
        return thunk()
    finally:
        cls.__init__ = orig


def real_builder(svc):
    for b, with_services in reversed(CAPTURED):
        try:
            if with_services and svc.name in {s.name for s in b.proto_services.values()}:
                return b
        except Exception:
            pass
    return None


def t2_direct(ctx, r, spec, api, svc, mfiles, svc_idx):
    """the real `_ProtoBuilder._maybe_get_lro` (unbound, on a stand-in for `self` that carries the
    second-pass `api_messages`) vs the model, on many selector pairs incl. the excluded points"""
    from gapic.schema import api as api_mod
    from google.protobuf import descriptor_pb2
    from google.longrunning import operations_pb2
    # a stand-in for `self` that IS a _ProtoBuilder (so helper methods a refactoring adds still resolve) but whose
    # `api_messages` is the second-pass mapping
    msgs = collections.ChainMap({}, *[p.all_messages for p in api.all_protos.values()])
    stub_cls = type("_ProbeBuilder", (api_mod._ProtoBuilder,), {"api_messages": property(lambda self: msgs)})
    stub = real_builder(svc) or object.__new__(stub_cls)
    ctx.count("t2_direct_self", "real second-pass builder" if not isinstance(stub, stub_cls) else "stand-in")
    sels = gen_selectors(r, spec, ctx.n(24, 60))
    cases, ops = [], []
    for a, b in zip(sels[::2], sels[1::2]):
        out = r.pick([OP_OUT] * 8 + ["." + request_type(spec), OP, ".x" + OP, OP_OUT + "s", OP_OUT + ".Inner", ".x" + OP_OUT])
        annotated = r.maybe(0.9)
        mp = descriptor_pb2.MethodDescriptorProto(name="Probe", input_type="." + request_type(spec), output_type=out)
        if annotated:
            oi = mp.options.Extensions[operations_pb2.operation_info]
            oi.response_type, oi.metadata_type = a, b
        try:
            x = api_mod._ProtoBuilder._maybe_get_lro(stub, svc.meta.address, mp)
            impl = {"lro": [x.response_type.ident.proto, x.metadata_type.ident.proto] if x else None}
        except (TypeError, KeyError) as e:
            impl = {"error": type(e).__name__}
            if isinstance(e, KeyError):
                impl["key"] = e.args[0]
        except AttributeError as e:
            if not isinstance(stub, stub_cls):
                # on the REAL second-pass builder an AttributeError is the code's own outcome, not a lack of the probe
                impl = {"error": "AttributeError"}
            else:
                # the stand-in `self` lacks something the current code expects: the direct probe cannot run on this tree
                # (not silent: the real builder could not be captured AND the stand-in does not fit — a broken correspondence)
                ctx.disagree("T2:c08._maybe_get_lro", f"the direct probe cannot run: no second-pass builder captured and the stand-in raised {e}"[:300],
                             {"spec": spec, "selectors": [a, b], "output": out, "annotated": annotated})
                return
        cases.append((a, b, out, annotated, impl))
        ops.append({"op": "c08.lro", "files": mfiles, "file": svc_idx, "output": out, "opinfo": [a, b] if annotated else None})
    for (a, b, out, annotated, impl), mo in zip(cases, ask(ctx, ops)):
        ctx.case(None, distinct_key=["sel", spkg(spec), a, b, out, annotated])
        ctx.traces += 1
        ctx.count("t2_lro_outcome", impl.get("error") or ("typed" if impl["lro"] else "none"))
        mo = {k: v for k, v in mo.items() if k in ("lro", "error", "key")}
        if mo != impl:
            ctx.disagree("T2:c08._maybe_get_lro", f"model {mo} vs impl {impl} for ({a!r}, {b!r}) output {out}",
                         {"spec": spec, "selectors": [a, b], "output": out, "annotated": annotated})


def t2_services(ctx, spec, api, svc, sv_res, mfiles, svc_idx):
    """whole services vs `loadService`/`hasLro`: every method's lro pair and `Service.has_lro`, for EVERY service of the API"""
    svc2 = api.services.get(f"{fpkg(spec, 'unimp')}.Archive") if spec.get("svc2") else None
    for sv, methods, fname in ((svc, spec["methods"], mfiles[svc_idx]["name"]),) + (((svc2, spec["svc2"]["methods"], fpath(spec, "unimp")),) if svc2 else ()):
        mo = sv_res.get(fname, {})
        impl = [[wm.lro.response_type.ident.proto, wm.lro.metadata_type.ident.proto] if wm.lro else None
                for wm in (sv.methods[m["name"]] for m in methods)]
        ctx.traces += 1
        ctx.count("service_has_lro", f"{sv.name}:{bool(sv.has_lro)}")
        if mo.get("lro") != impl or mo.get("has_lro") != bool(sv.has_lro):
            ctx.disagree("T2:c08.service", f"{sv.name}: model {mo} vs impl lro={impl} has_lro={sv.has_lro}", {"spec": spec})
        # oracle (restates the statement, method by method): the pair is what THIS method's names denote
        for m, got in zip(methods, impl):
            if m["kind"] == "lro" and got != [m["response"]["target"], m["metadata"]["target"]]:
                ctx.fail("lro-types", f"{sv.name}.{m['name']}: operation_info ({m['response']['text']}, {m['metadata']['text']}) loaded as {got}, names denote "
                         f"{[m['response']['target'], m['metadata']['target']]} (other methods: {[(x.get('response', {}).get('text'), x.get('metadata', {}).get('text')) for x in methods if x is not m and 'response' in x]})", {"spec": spec})
            if m["kind"] == "raw" and got is not None:
                ctx.fail("raw-has-lro", f"{sv.name}.{m['name']}: no operation_info but lro={got}", {"spec": spec})
    return svc2


def t2_alias(ctx, r, spec, api, svc):
    """`Address.module_alias` vs the model: the idents of api-core's operation modules as the service sees them, and
    random addresses"""
    from gapic.schema import metadata, naming as naming_mod
    version = api.naming.version
    ops, impls = [], []
    for wm in svc.methods.values():
        if not wm.lro:
            continue
        for asy in (False, True):
            ident = (wm.client_output_async if asy else wm.client_output).ident
            ops.append({"op": "c08.future_code", "async": asy, "version": version, "collisions": sorted(ident.collisions)})
            impls.append((wm.name, asy, {"import_module": ident.module, "import_as": ident.module_alias or ident.module,
                                         "callee": ident.module_alias or ident.module}, ident))
    for (name, asy, impl, ident), mo in zip(impls, ask(ctx, ops)):
        ctx.traces += 1
        ctx.count("future_module_name", impl["callee"])
        if mo != impl:
            ctx.disagree("T2:c08.future_code", f"{name} async={asy}: model {mo} vs impl {impl} (collisions {sorted(ident.collisions)})", {"spec": spec})
    pool = ["operation", "operation_async", "lib", "common", "google", "api_core", "v1", "big_query", "storage", "a_b_c"]
    cases = []
    for _ in range(ctx.n(12, 40)):
        pkg = [r.pick(pool) for _ in range(r.randint(1, 4))]
        module = r.pick(pool + ["type", "max", "operation"])
        coll = sorted({r.pick(pool) for _ in range(r.randint(0, 3))})
        ver = r.pick(["v1", "v2", "", pkg[-1]])
        cases.append((pkg, module, coll, ver))
    res = ask(ctx, [{"op": "c08.alias", "package": p, "module": m, "version": v, "collisions": c} for p, m, c, v in cases])
    for (pkg, module, coll, ver), mo in zip(cases, res):
        nm = types.SimpleNamespace(version=ver)
        try:
            impl = metadata.Address(package=tuple(pkg), module=module, collisions=frozenset(coll), api_naming=nm).module_alias
        except IndexError:
            impl = None
        ctx.case(None, distinct_key=["alias", pkg, module, coll, ver])
        ctx.traces += 1
        if mo.get("alias") != impl:
            ctx.disagree("T2:c08.module_alias", f"model {mo.get('alias')!r} vs impl {impl!r}", {"package": pkg, "module": module, "collisions": coll, "version": ver})


def t2_resolve(ctx, r):
    from gapic.schema import metadata
    alphabet = "abcXYZ019_.é /"
    cases = []
    for _ in range(ctx.n(200, 3000)):
        pkg = r.pick(PKGS + ["a", "x.y"])
        sel = r.pick(["Book", "a.b.Book", ".a.Book", "Outer.Inner", "", ".", "Book.", "v1.Book"]) if r.maybe(0.4) else \
            "".join(r.pick(alphabet) for _ in range(r.randint(0, 9)))
        cases.append((pkg, sel))
    res = ask(ctx, [{"op": "c08.resolve", "package": p, "selector": s} for p, s in cases])
    for (p, s), mo in zip(cases, res):
        impl = metadata.Address(package=tuple(p.split("."))).resolve(s)
        ctx.case(None, distinct_key=["resolve", p, s])
        ctx.traces += 1
        if mo.get("r") != impl:
            ctx.disagree("T2:c08.Address.resolve", f"model {mo.get('r')!r} vs impl {impl!r}", {"package": p, "selector": s})


# ------------------------------------------------------------------ one API end to end

def defined_messages(spec):
    """full names of every message the request defines (INPUT side, from the spec)"""
    out = set(WKT)
    if spec.get("dep"):
        d = spec["dep"]
        out.update(f"{d['pkg']}.{n}" for n in d["msgs"])
        for path in d["nested"]:
            out.update(f"{d['pkg']}." + ".".join(path[:k]) for k in range(1, len(path) + 1))
    for role in ROLES:
        pk = fpkg(spec, role)
        out.update(f"{pk}.{n}" for n in spec["files"][role]["msgs"])
        for path in spec["files"][role]["nested"]:
            out.update(f"{pk}." + ".".join(path[:k]) for k in range(1, len(path) + 1))
    return out


def relative_nested_trigger(spec):
    """the trigger of the recorded finding `relative-nested-type-name`, decided from the INPUT alone: walking the services in the
    load order of their files and their methods in declaration order (the first exception aborts the build), the FIRST
    operation_info name that does not denote a defined message is a dotted name WITHOUT a leading dot that names a NESTED message
    of the method's own package relatively (`Outer.Inner` with `<method's package>.Outer.Inner` and its parent defined).
    Returns that name (the key of the recorded KeyError) or None — None also when an earlier name is empty or undefined in any
    other way (those are other outcomes, never this finding)."""
    defined = defined_messages(spec)
    for role in spec["order"]:
        if role == "svc":
            pk, methods = spkg(spec), spec["methods"]
        elif role == "unimp" and spec.get("svc2"):
            pk, methods = fpkg(spec, "unimp"), spec["svc2"]["methods"]
        else:
            continue
        for m in methods:
            if m["kind"] not in ("lro", "excluded"):      # only annotated Operation-returning methods reach the lookups
                if m["kind"] == "present-empty":
                    return None
                continue
            texts = [m["response"]["text"], m["metadata"]["text"]]
            if "" in texts:
                return None
            for t in texts:
                if ("." in t and t in defined) or ("." not in t and f"{pk}.{t}" in defined):
                    continue
                full = f"{pk}.{t}"
                if "." in t and not t.startswith(".") and not t.endswith(".") and full in defined and full.rsplit(".", 1)[0] in defined:
                    return t
                return None
    return None


def fail_key(spec, err):
    """key of a generation failure.  The known key is given only when the INPUT has the recorded defect's trigger AND the symptom
    is the recorded one: KeyError raised by `_maybe_get_lro` whose key is exactly the relative nested name as written."""
    sig, msg = err[0], err[1]
    t = relative_nested_trigger(spec)
    if t is not None and sig.startswith("KeyError@schema/api.py:_maybe_get_lro") and msg == repr(t):
        return "relative-nested-type-name"
    return "generation-failed:" + sig


def model_services(ctx, spec, mfiles, svc_idx, main_methods):
    """the service-level model (`loadService`): services in request order of their files, methods in declaration order;
    returns ({file name: model result}, first error or None)"""
    names = [f["name"] for f in mfiles]
    sv_ops = [(mfiles[svc_idx]["name"], {"op": "c08.service", "files": mfiles, "file": svc_idx, "methods": main_methods})]
    if spec.get("svc2"):
        idx2 = names.index(fpath(spec, "unimp"))
        sv_ops.append((mfiles[idx2]["name"], {"op": "c08.service", "files": mfiles, "file": idx2,
                       "methods": [{"output": OP_OUT, "opinfo": [m["response"]["text"], m["metadata"]["text"]] if "response" in m
                                    else (["", ""] if m["kind"] == "present-empty" else None)} for m in spec["svc2"]["methods"]]}))
    sv_ops.sort(key=lambda t: names.index(t[0]))
    sv_res = dict(zip([t[0] for t in sv_ops], ask(ctx, [t[1] for t in sv_ops])))
    return sv_res, next((sv_res[t[0]] for t in sv_ops if "error" in sv_res[t[0]]), None)


def run_spec(ctx, r, spec, label, transports=("grpc", "grpc_asyncio", "rest")):
    files = build_files(spec)
    req, tmp = make_request(spec, files)
    try:
        _run_spec(ctx, r, spec, label, files, req, transports)
    finally:
        if tmp:
            genrun.cleanup(tmp)


def _run_spec(ctx, r, spec, label, files, req, transports):
    mfiles = model_files(req)
    svc_path = fpath(spec, "svc")
    svc_idx = [f["name"] for f in mfiles].index(svc_path)
    lros = [m for m in spec["methods"] if m["kind"] == "lro"]
    for m in lros:
        ctx.count("response_case", m["response"]["case"]); ctx.count("metadata_case", m["metadata"]["case"])
    ctx.count("file_order", ",".join(spec["order"]))
    if spec.get("twin"):
        tw = spec["twin"]
        if "method" in tw:
            ctx.count("twin_types", "same short name, same file base name, different packages: " + "+".join(sorted(fpkg(spec, x)[len(spec["pkg"]):] or "." for x in tw["roles"])))
        if "control" in tw:
            ctx.count("twin_types", "control: response and metadata are the same message")
    if spec.get("dep"):
        o = spec["order"]
        ctx.count("dependency_only_file", ("after" if o.index("dep") > o.index("svc") else "before") + "-svc:imported-by-" + spec["dep"]["importer"])
    for role in ROLES:
        if spec["files"][role]["stem"] in RESERVED_STEMS:
            ctx.count("reserved_file_name", f"{role}:{spec['files'][role]['stem']}:" + ("api-dir" if fpkg(spec, role) == spec["pkg"] else "sub-package-dir"))
            for m in lros:
                for k in ("response", "metadata"):
                    if m[k]["target"] in {f"{fpkg(spec, role)}.{x}" for x in spec["files"][role]["msgs"]} | {f"{fpkg(spec, role)}." + ".".join(x) for x in spec["files"][role]["nested"]}:
                        ctx.count("lro_type_in_reserved_file", f"{k}:{role}:{spec['files'][role]['stem']}")
    ctx.count("layout", spec.get("layout", "flat") + ":" + ",".join(fpkg(spec, role)[len(spec["pkg"]):] or "." for role in ROLES))
    ctx.count("service_yaml", json.dumps(spec.get("service_yaml"), sort_keys=True))
    # ---- model: generation outcome per method
    mops = []
    for m in spec["methods"]:
        out = OP_OUT if m["kind"] in ("lro", "raw", "excluded", "present-empty") else "." + spkg(spec) + ".X"
        info = [m["response"]["text"], m["metadata"]["text"]] if "response" in m else (["", ""] if m["kind"] == "present-empty" else None)
        mops.append({"op": "c08.lro", "files": mfiles, "file": svc_idx, "output": out, "opinfo": info})
    mres = ask(ctx, mops)
    sv_res, model_err = model_services(ctx, spec, mfiles, svc_idx, [{"output": o["output"], "opinfo": o["opinfo"]} for o in mops])
    ctx.count("sharing", spec.get("sharing", "n/a")); ctx.count("second_service", "yes" if spec.get("svc2") else "no")
    # ---- implementation: generation outcome
    res, err = genrun.try_generate(req)
    ctx.case({"pkg": spec["pkg"], "svc_pkg": spkg(spec), "order": spec["order"], "methods": [[m["name"], m["kind"], m.get("response", {}).get("text"), m.get("metadata", {}).get("text")] for m in spec["methods"]]},
             distinct_key=["api", json.dumps(spec, sort_keys=True)])
    ctx.traces += 1
    if err:
        etype = err[0].split("@")[0]
        if model_err is None or model_err["error"] != etype:
            ctx.disagree("T3:c08.generation-outcome", f"model {model_err or 'generates'} vs impl {err}", {"spec": spec})
        # oracle: every method here has existing types and both names -> the statement promises a library
        ctx.fail(fail_key(spec, err), f"generator raised {err[0]}: {err[1]} for an API whose LRO types all exist "
                 f"({[(m['response']['text'], m['metadata']['text']) for m in spec['methods'] if 'response' in m]})", {"spec": spec})
        return
    if model_err is not None:
        ctx.disagree("T3:c08.generation-outcome", f"model {model_err} vs impl generates", {"spec": spec})
    api, _ = capture_builders(lambda: genrun.build_api(req))
    svc = api.services[f"{spkg(spec)}.Library"]
    loc = rpc.py_locations(api, svc)
    codec = rpc.Codec(files)
    import gapic.utils as gu
    # ---- T2: method.lro and client_output of the built schema vs the model
    co_ops, co_impl = [], []
    for m, mo in zip(spec["methods"], mres):
        wm = svc.methods[m["name"]]
        impl = [wm.lro.response_type.ident.proto, wm.lro.metadata_type.ident.proto] if wm.lro else None
        ctx.traces += 1
        if mo.get("lro") != impl:
            ctx.disagree("T2:c08.method.lro", f"{m['name']}: model {mo.get('lro')} vs impl {impl}", {"spec": spec})
        # oracle: types are the ones the names denote (targets chosen by the generator before spelling them)
        if m["kind"] == "lro":
            want = [m["response"]["target"], m["metadata"]["target"]]
            if impl != want:
                ctx.fail("lro-types", f"{m['name']}: operation_info ({m['response']['text']}, {m['metadata']['text']}) loaded as {impl}, names denote {want}", {"spec": spec})
        if m["kind"] == "raw" and impl is not None:
            ctx.fail("raw-has-lro", f"{m['name']}: no operation_info but lro={impl}", {"spec": spec})
        for asy in (False, True):
            co_ops.append({"op": "c08.client_output", "void": bool(wm.void), "lro": bool(wm.lro), "ext": bool(wm.extended_lro),
                           "paged": bool(wm.paged_result_field), "async": asy, "output": wm.output.ident.proto})
            co_impl.append((m, asy, classify_output(wm.client_output_async if asy else wm.client_output, wm)))
    for (m, asy, impl), mo in zip(co_impl, ask(ctx, co_ops)):
        ctx.traces += 1
        ctx.count("client_output", impl if isinstance(impl, str) else "message")
        if mo.get("r") != impl:
            ctx.disagree("T2:c08._client_output", f"{m['name']} async={asy}: model {mo.get('r')} vs impl {impl}", {"spec": spec})
        if m["kind"] == "lro" and impl != ("operation_async.AsyncOperation" if asy else "operation.Operation"):
            ctx.fail("client-output", f"{m['name']} async={asy}: client output {impl}", {"spec": spec})
        if m["kind"] == "raw" and impl != ["message", OP]:
            ctx.fail("client-output", f"{m['name']} async={asy}: client output {impl}, expected the raw Operation", {"spec": spec})
    t2_direct(ctx, r, spec, api, svc, mfiles, svc_idx)
    svc2 = t2_services(ctx, spec, api, svc, sv_res, mfiles, svc_idx)
    t2_alias(ctx, r, spec, api, svc)
    # ---- T3
    root = genrun.materialise(res)
    for f in files:
        if getattr(f, "is_dep", False):
            genrun.materialise_pb2(root, f.pb)      # the dependency's own module (protoc's python plugin's job)
    try:
        ids = iter(range(1, 10 ** 6))
        names = NameSource(ctx, spec, ids)
        local_types = sorted({f"{fpkg(spec, role)}.{x}" for role in ROLES for x in spec["files"][role]["msgs"]})
        plans = []
        for m in spec["methods"]:
            wm = svc.methods[m["name"]]
            if m["kind"] == "lro":
                rt, mt = m["response"]["target"], m["metadata"]["target"]
                for h in range(ctx.n(2, 4)):
                    ops = gen_history(r, ctx, rt, mt, [t for t in local_types if t != rt], ids)
                    plans.append((m, wm, ops, names.next("op")))
            elif m["kind"] == "raw":
                plans.append((m, wm, [{"done": r.maybe(), "meta": None, "out": None}], f"shelves/s1/operations/raw{next(ids)}"))
        reqd = {"name": "x"}
        rq_b64 = codec.encode_b64(request_type(spec), reqd)
        sessions = []
        for tr in transports:
            calls = []
            for (m, wm, ops, opname) in plans:
                msgs = [op_message(codec, opname, st) for st in ops]
                c = {"method": gu.to_snake_case(wm.client_method_name), "mode": "request-instance", "py_request": rpc.py_type(wm.input),
                     "request_b64": rq_b64, "consume": "lro" if m["kind"] == "lro" else "value"}
                if tr == "rest":
                    from google.protobuf import json_format
                    c["script"] = [{"status": 200, "body": json_format.MessageToJson(x, descriptor_pool=codec.pool)} for x in msgs]
                else:
                    enc = [base64.b64encode(x.SerializeToString()).decode() for x in msgs]
                    c["script"] = {f"/{spkg(spec)}.Library/{m['name']}": [{"replies": [enc[0]]}],
                                   GETOP: [{"replies": [e]} for e in enc[1:]]}
                calls.append(c)
            if tr == "rest":
                sessions.append({"op": "rest_session", "client": loc["client"], "transport": loc["rest"], "calls": calls, "trap_sleep": True})
            else:
                asy = tr == "grpc_asyncio"
                sessions.append({"op": "grpc_session", "client": loc["async_client" if asy else "client"], "transport": loc[tr],
                                 "async": asy, "calls": calls, "trap_sleep": True})
        nbasic = len(sessions)
        progs, extra = plan_programs(ctx, r, spec, api, svc, svc2, loc, codec, local_types, ids, transports, names)
        sessions = sessions + extra
        out = libhost.run(root, sessions, timeout=900)
        for attempt in range(8):     # a shared harness file being edited by another builder at this moment: infrastructure, retry
            if not any("child_error" in x and "/verif/harness/" in str(x["child_error"]) and "Error" in str(x["child_error"]) for x in out):
                break
            import time
            time.sleep(8)
            out = libhost.run(root, sessions, timeout=900)
        mrun = ask(ctx, [{"op": "c08.run", "rt": m["response"]["target"], "mt": m["metadata"]["target"], "ops": ops}
                               if m["kind"] == "lro" else {"op": "ping"} for (m, wm, ops, opname) in plans])
        for tr, sess in zip(transports, out):
            if "calls" not in sess:
                ctx.fail("session-failed:" + tr, f"T3 session failed ({tr}): {str(sess)[-600:]}", {"spec": spec})
                continue
            stub_paths = {s[0] for c in sess["calls"] for s in c.get("stubs", [])}
            for (m, wm, ops, opname), res_, mo in zip(plans, sess["calls"], mrun):
                check_call(ctx, spec, codec, tr, m, ops, opname, res_, mo, stub_paths)
        rest_polls = []
        if "rest" in transports and "calls" in out[list(transports).index("rest")]:
            for (m, wm, ops, opname), res_ in zip(plans, out[list(transports).index("rest")]["calls"]):
                if m["kind"] == "lro":
                    rest_polls.append((opname, [rec["path"] for rec in res_.get("server", []) if rec["verb"] == "GET"]))
        check_programs(ctx, spec, codec, svc, sv_res, mfiles, svc_idx, progs, out[nbasic:], rest_polls)
    finally:
        genrun.cleanup(root)


def plan_programs(ctx, r, spec, api, svc, svc2, loc, codec, local_types, ids, transports, names):
    """program sessions (libhost_c08): futures used as objects, two futures interleaved on one client, the same request
    dict literal for both; plus the REST operations client's http table and the presence of `operations_client`"""
    import gapic.utils as gu
    from google.protobuf import json_format
    progs, extra = [], []
    services = [("Library", svc, spec["methods"], loc, list(transports))]
    if svc2 is not None:
        services.append(("Archive", svc2, spec["svc2"]["methods"], rpc.py_locations(api, svc2), ["grpc"]))
    for label, sv, methods, lc, kinds in services:
        calls = []
        for m in methods:
            if m["kind"] != "lro":
                continue
            for _ in range(ctx.n(1, 2)):
                rt, mt = m["response"]["target"], m["metadata"]["target"]
                ops = gen_history(r, ctx, rt, mt, [], ids, allow_mismatch=False)
                calls.append({"m": m, "wm": sv.methods[m["name"]], "ops": ops, "opname": names.next("p"), "cmds": gen_program(r)})
        r.shuffle(calls)
        groups, k = [], 0
        while k < len(calls):
            n = r.pick([1, 2, 2])
            groups.append(calls[k:k + n]); k += n
        for kind in kinds:
            if not groups:
                continue
            enc_groups = []
            for g in groups:
                eg = []
                for c in g:
                    msgs = [op_message(codec, c["opname"], st) for st in c["ops"]]
                    if kind == "rest":
                        enc = [json_format.MessageToJson(x, descriptor_pool=codec.pool) for x in msgs]
                        path = ":" + c["m"]["name"][0].lower() + c["m"]["name"][1:]
                    else:
                        enc = [base64.b64encode(x.SerializeToString()).decode() for x in msgs]
                        path = f"/{sv.meta.address.proto}/{c['m']['name']}"
                    eg.append({"method": gu.to_snake_case(c["wm"].client_method_name), "rpc_path": path, "request": {"name": "x"},
                               "opname": c["opname"], "first": enc[0], "replies": enc[1:], "cmds": c["cmds"]})
                enc_groups.append(eg)
            asy = kind == "grpc_asyncio"
            extra.append({"op": "c08_program_session", "kind": kind, "client": lc["async_client" if asy else "client"],
                          "transport": lc[kind], "groups": enc_groups})
            progs.append(("program", label, kind, groups))
        mod, _, attr = lc["grpc"].partition(":")
        extra.append({"op": "dir", "module": mod, "attr": attr})
        progs.append(("dir", label, sv, None))
        if "rest" in kinds:
            extra.append({"op": "c08_ops_table", "transport": lc["rest"]})
            progs.append(("ops_table", label, sv, None))
    return progs, extra


def canon_prog_obs(codec, ob):
    """impl observation -> the model's vocabulary"""
    tag, v = ob[0], ob[1]
    if tag == "bool":
        return ["bool", v] if isinstance(v, bool) else ["bool", canon_exc(v)]
    if v is None:
        return [tag, None]
    if isinstance(v, dict) and "raised" in v:
        return [tag, canon_exc(v)]
    if v.get("kind") == "none":
        return [tag, None]
    if v.get("kind") == "message":
        return [tag, ["ok", v["type"], payload_id(v["type"], codec.decode(v["type"], v["b64"]))]]
    return [tag, ["other", json.dumps(v)[:100]]]


def canon_exc(v):
    if v.get("raised") == "TypeError":
        return ["type_error"]
    if v.get("raised") in ("TimeoutError", "RetryError"):
        return ["timeout"]
    if v.get("api_error"):
        if "Unexpected state" in v.get("msg", ""):
            return ["unexpected_state"]
        codes = v.get("status_codes") or []
        return ["api_error", codes[0] if codes else None]
    return ["raised", v.get("raised"), v.get("msg", "")[:80]]


def check_programs(ctx, spec, codec, svc, sv_res, mfiles, svc_idx, progs, outs, rest_polls):
    import grpc
    for (what, label, a, groups), out in zip(progs, outs):
        payload = {"spec": spec, "service": label}
        if what == "dir":
            ctx.traces += 1
            fname = mfiles[svc_idx]["name"] if label == "Library" else fpath(spec, "unimp")
            has = "operations_client" in (out.get("names") or [])
            ctx.count("operations_client_property", f"{label}:{has}")
            if has != bool(sv_res.get(fname, {}).get("has_lro")):
                ctx.disagree("T3:c08.operations_client-presence", f"{label}: transport has operations_client={has}, model has_lro={sv_res.get(fname, {}).get('has_lro')} ({str(out)[:200]})", payload)
            continue
        if what == "ops_table":
            ctx.traces += 1
            if out.get("no_ops_client"):
                fname = mfiles[svc_idx]["name"] if label == "Library" else fpath(spec, "unimp")
                if sv_res.get(fname, {}).get("has_lro"):      # not silent: a service WITH LRO methods must have the property on REST too
                    ctx.disagree("T3:c08.operations_client-presence", f"{label}: the REST transport has no operations_client property, model has_lro=True", payload)
                continue
            if "table" not in out:
                ctx.fail("rest-operations-client", f"{label}: REST operations client could not be built: {str(out)[-400:]}", payload)
                continue
            names = [n for n, _ in rest_polls]
            # the model derives the path prefix from the package of the file that DECLARES the service, taken from the INPUT
            decl_pkg = spkg(spec) if label == "Library" else fpkg(spec, "unimp")
            mo = ask(ctx, [{"op": "c08.ops_table", "rules": yaml_rules(spec), "package": decl_pkg, "names": names}])[0]
            ctx.count("rest_path_prefix", ("api-version" if decl_pkg == spec["pkg"] else "sub-package") + ":" + str(mo.get("prefix")))
            if mo.get("prefix") != a.client_package_version:
                ctx.disagree("T2:c08.client_package_version", f"{label} declared in {decl_pkg}: model {mo.get('prefix')!r} vs impl {a.client_package_version!r}", payload)
            impl = [[k, [[row.get("method"), row.get("uri"), row.get("body")] for row in v]] for k, v in out["table"].items()]
            ctx.count("rest_ops_table_rows", sum(len(v) for _, v in impl))
            if mo.get("table") != impl:
                ctx.disagree("T3:c08.rest-ops-table", f"model {mo.get('table')} vs impl {impl}", payload)
            if out.get("path_prefix") != mo.get("prefix") or not out.get("same_client_twice"):
                ctx.disagree("T3:c08.rest-ops-table", f"path_prefix {out.get('path_prefix')} (model {mo.get('prefix')}, service declared in {decl_pkg}), cached={out.get('same_client_twice')}", payload)
            for (opname, gets), mp in zip(rest_polls, mo.get("paths", [])):
                for g in gets:
                    ctx.traces += 1
                    ctx.count("rest_poll_url", g[:g.index(opname)] + "<name>" + g[g.index(opname) + len(opname):] if opname in g else g)
                    if mp is None or mp[1] != g:
                        ctx.disagree("T3:c08.rest-poll-url", f"operation {opname}: polled {g}, model {mp} (rules {yaml_rules(spec)})", payload)
            continue
        kind = a
        if "groups" not in out or "session_error" in out:
            ctx.fail("session-failed:program:" + kind, f"program session failed ({label}, {kind}): {str(out)[-700:]}", payload)
            continue
        if out.get("unknown"):
            ctx.fail("stray-rpc", f"{label} {kind}: RPCs the scripted server did not expect (unknown operation name, exhausted history, unscripted path): {out['unknown'][:4]}", payload)
        flat = [(c, res_) for g, rg in zip(groups, out["groups"]) for c, res_ in zip(g, rg)]
        mos = ask(ctx, [{"op": "c08.exec", "rt": c["m"]["response"]["target"], "mt": c["m"]["metadata"]["target"], "ops": c["ops"], "cmds": c["cmds"]} for c, _ in flat])
        for (c, res_), mo in zip(flat, mos):
            m, ops, cmds, opname = c["m"], c["ops"], c["cmds"], c["opname"]
            pl = dict(payload, method=m["name"], history=ops, cmds=cmds, transport=kind)
            shape = [[st["done"], bool(st["meta"]), st["out"][0] if st["out"] else None] for st in ops]
            ctx.case({"program": cmds, "transport": kind, "service": label, "history": shape},
                     distinct_key=["prog", kind, label, json.dumps(cmds), json.dumps(shape), m["response"]["case"], m["metadata"]["case"]])
            ctx.count("program_transport", kind); ctx.count("program_length", len(cmds))
            if res_ is None or "start_raised" in res_:
                ctx.fail("call-raised", f"{kind} {label}.{m['name']}: {res_ and res_['start_raised']}", pl)
                continue
            rt, mt = m["response"]["target"], m["metadata"]["target"]
            want_future = "AsyncOperation" if kind == "grpc_asyncio" else "Operation"
            if res_.get("future") != want_future:
                ctx.fail("future-type", f"{kind} {label}.{m['name']}: returned {res_.get('future')} instead of an operation future", pl)
                continue
            if res_.get("request_mutated"):
                ctx.fail("request-mutated", f"{kind} {label}.{m['name']}: the caller's request dict was modified", pl)
            got = [canon_prog_obs(codec, ob) for ob in res_["obs"]]
            polls = res_["polls_after"][-1] if res_["polls_after"] else 0
            # ---- oracle: whatever was observed before, the outcome is the history's, typed by the annotation
            final = next((st for st in ops if st["done"]), ops[-1]) if not ops[0]["done"] else ops[0]
            term = final["out"][0] if final["out"] else "neither"
            for cmd, ob in zip(cmds, got):
                if cmd == "result" and term == "response" and ob != ["result", ["ok", rt, final["out"][2]]]:
                    ctx.fail("result-type" if not (isinstance(ob[1], list) and ob[1][:2] == ["ok", rt]) else "result-content",
                             f"{kind} {label}.{m['name']}: result() gave {ob[1]} after {cmds}, annotated response type {rt}, server packed id {final['out'][2]}", pl)
                if cmd in ("result", "exception") and term == "error" and ob[1] != ["api_error", final["out"][1]]:
                    ctx.fail("error-not-raised", f"{kind} {label}.{m['name']}: operation failed with status code {final['out'][1]}; {cmd}() gave {ob[1]}", pl)
                if cmd == "exception" and term == "response" and ob[1] is not None:
                    ctx.fail("error-not-raised", f"{kind} {label}.{m['name']}: exception() of a successful operation gave {ob[1]}", pl)
                if cmd == "metadata" and isinstance(ob[1], list) and ob[1][0] == "ok" and ob[1][1] != mt:
                    ctx.fail("metadata-type", f"{kind} {label}.{m['name']}: metadata of type {ob[1][1]}, annotated {mt}", pl)
                if cmd == "metadata" and isinstance(ob[1], list) and ob[1][0] != "ok":
                    ctx.fail("metadata-type", f"{kind} {label}.{m['name']}: metadata gave {ob[1]}, annotated metadata type {mt}", pl)
            need = expected_polls(ops)
            raised = [ob for cmd, ob in zip(cmds, got) if cmd in ("result", "exception", "done", "running") and isinstance(ob[1], list) and ob[1][:1] == ["raised"]]
            if need > 0 and polls == 0 and raised:
                ctx.fail("poll-not-sent", f"{kind} {label}.{m['name']}: the future could not poll operation {opname}: {raised[0]} after {cmds} and no GetOperation "
                         f"request reached the server (Operations rules of the service config: {[x for x in yaml_rules(spec) if x['selector'].startswith(OPS_SEL)]})", pl)
            if polls > need or (polls != need and any(x in ("result", "exception") for x in cmds)):
                ctx.fail("poll-count", f"{kind} {label}.{m['name']}: {polls} GetOperation calls for operation {opname} after {cmds}, history needs {need}", pl)
            if len(res_.get("cancel_names", [])) > cmds.count("cancel"):
                ctx.fail("stray-rpc", f"{kind} {label}.{m['name']}: {len(res_['cancel_names'])} CancelOperation calls for {cmds.count('cancel')} cancel()", pl)
            # ---- correspondence with the model (`exec`)
            ctx.traces += 1
            mobs = [[o[0], o[1]] for o in mo.get("obs", [])]
            if mobs != got:
                ctx.disagree("T3:c08.program", f"{kind} {label}.{m['name']} {cmds}: model {mobs} vs impl {got}", pl)
            if mo.get("polls") != polls or mo.get("cancels") != len(res_.get("cancel_names", [])):
                ctx.disagree("T3:c08.program-rpcs", f"{kind} {label}.{m['name']} {cmds}: model polls={mo.get('polls')} cancels={mo.get('cancels')} vs impl polls={polls} cancels={len(res_.get('cancel_names', []))}", pl)
            # the class api-core picks for the error (sync: by status code; asyncio: GoogleAPICallError)
            for cmd, raw in zip(cmds, res_["obs"]):
                v = raw[1]
                if cmd in ("result", "exception") and term == "error" and isinstance(v, dict) and v.get("api_error"):
                    code = final["out"][1]
                    want = next(c_.name for c_ in grpc.StatusCode if c_.value[0] == code) if kind != "grpc_asyncio" else None
                    ctx.count("error_class", f"{kind}:{v.get('raised')}")
                    if kind != "grpc_asyncio" and v.get("grpc_code") != want:
                        ctx.disagree("T3:c08.error-class", f"{kind} {label}.{m['name']}: status {code} raised {v.get('raised')} grpc_code={v.get('grpc_code')}, expected {want}", pl)
                    if not v.get("has_operation"):
                        ctx.disagree("T3:c08.error-class", f"{kind} {label}.{m['name']}: the exception does not carry the failed Operation as `response`", pl)


def decode_obs(codec, c):
    """canonical observation of result/metadata: ["ok", type, id] | ["raised", name, msg] | None"""
    if c is None:
        return None
    if "raised" in c:
        return ["raised", c["raised"], c.get("msg", "")]
    if c.get("kind") == "none":
        return None
    if c.get("kind") != "message":
        return ["other", json.dumps(c)[:120]]
    return ["ok", c["type"], payload_id(c["type"], codec.decode(c["type"], c["b64"]))]


def polls_seen(tr, spec, m, res_, opname, codec):
    """(number of GetOperation calls that reached the loopback server, names asked for, stray calls)"""
    names, stray = [], []
    for rec in res_["server"]:
        if tr == "rest":
            if rec["verb"] == "GET":
                names.append(rec["path"])
            elif not rec["path"].endswith(":" + m["name"][0].lower() + m["name"][1:]):
                stray.append(rec["path"])
        else:
            if rec["path"] == GETOP:
                names.append(codec.decode("google.longrunning.GetOperationRequest", rec["requests"][0]).get("name") if rec["requests"] else None)
            elif rec["path"] != f"/{spkg(spec)}.Library/{m['name']}":
                stray.append(rec["path"])
    return names, stray


def check_call(ctx, spec, codec, tr, m, ops, opname, res_, mo, stub_paths):
    from google.api_core import exceptions as core_exceptions
    payload = {"spec": spec, "method": m["name"], "history": ops, "transport": tr}
    shape = [[st["done"], bool(st["meta"]), st["out"][0] if st["out"] else None] for st in ops]
    ctx.case({"transport": tr, "method": m["name"], "kind": m["kind"], "history": shape},
             distinct_key=["call", tr, m.get("response", {}).get("case"), m.get("metadata", {}).get("case"), json.dumps(shape)])
    ctx.count("transport", tr)
    if "ok" not in res_:
        ctx.fail("call-raised", f"{tr} {m['name']}: {res_.get('raised')}: {res_.get('msg')} {res_.get('trace', '')[-300:]}", payload)
        return
    ok = res_["ok"]
    names, stray = polls_seen(tr, spec, m, res_, opname, codec)
    if stray:
        ctx.fail("stray-rpc", f"{tr} {m['name']}: unexpected RPCs {stray}", payload)
    if m["kind"] == "raw":
        # statement: an Operation-returning method without the annotation returns the raw Operation
        ctx.count("history_terminal", "raw")
        if ok.get("kind") != "message" or ok.get("type") != OP:
            ctx.fail("raw-not-operation", f"{tr} {m['name']}: returned {json.dumps(ok)[:200]}", payload)
        elif codec.decode(OP, ok["b64"]).get("name") != opname:
            ctx.fail("raw-content", f"{tr} {m['name']}: returned operation {codec.decode(OP, ok['b64'])}, server sent {opname}", payload)
        if names:
            ctx.fail("raw-polled", f"{tr} {m['name']}: {len(names)} GetOperation calls for a raw Operation", payload)
        return
    rt, mt = m["response"]["target"], m["metadata"]["target"]
    final = next((st for st in ops if st["done"]), ops[-1]) if not ops[0]["done"] else ops[0]
    term = final["out"][0] if final["out"] else "neither"
    mismatch = term == "response" and final["out"][1] != rt
    ctx.count("history_terminal", "type-mismatch" if mismatch else term)
    ctx.count("history_polls", expected_polls(ops))
    # ---- oracle (restates the property; independent of the model)
    want_future = "AsyncOperation" if tr == "grpc_asyncio" else "Operation"
    if ok.get("kind") != "lro" or ok.get("pytype") != want_future:
        ctx.fail("future-type", f"{tr} {m['name']}: returned {ok.get('pytype')} instead of an operation future", payload)
        return
    got_res, got_md = decode_obs(codec, ok.get("result")), decode_obs(codec, ok.get("metadata"))
    got_before = decode_obs(codec, ok.get("metadata_before")) if "metadata_before" in ok else "n/a"
    if expected_polls(ops) > 0 and not names and got_res and got_res[0] == "raised" and \
            not (isinstance(getattr(core_exceptions, got_res[1], None), type) and issubclass(getattr(core_exceptions, got_res[1]), core_exceptions.GoogleAPICallError)):
        # statement: the future POLLS google.longrunning.Operations — here no poll was ever sent
        ctx.fail("poll-not-sent", f"{tr} {m['name']}: the future could not poll operation {opname}: result() raised {got_res[1]}: {got_res[2][:300]} and no "
                 f"GetOperation request reached the server (Operations rules of the service config: {[x for x in yaml_rules(spec) if x['selector'].startswith(OPS_SEL)]})", payload)
    if len(names) != expected_polls(ops):
        ctx.fail("poll-count", f"{tr} {m['name']}: {len(names)} GetOperation calls, history needs {expected_polls(ops)}", payload)
    # REST: the URL prefix comes from the Operations http rule in force (api-core default or service config); the
    # statement only says that the operation is polled, so only the operation's name is demanded
    if any((n is None or not (n.endswith("/" + opname) or ("/" + opname + ":") in n)) if tr == "rest" else n != opname for n in names):
        ctx.fail("poll-target", f"{tr} {m['name']}: polled {names}, operation is {opname}", payload)
    if tr != "rest" and names and GETOP not in stub_paths:
        ctx.fail("poll-channel", f"{tr} {m['name']}: GetOperation reached the server but no GetOperation stub was created on the transport's channel", payload)
    if term == "response" and not mismatch:
        if got_res != ["ok", rt, final["out"][2]]:
            ctx.fail("result-type" if (got_res or [None])[0] != "ok" or got_res[1] != rt else "result-content",
                     f"{tr} {m['name']}: result {got_res}, annotated response type {rt} (written {m['response']['text']!r}), server packed id {final['out'][2]}", payload)
    elif term == "error":
        cls = getattr(core_exceptions, got_res[1], None) if got_res and got_res[0] == "raised" else None
        if not (isinstance(cls, type) and issubclass(cls, core_exceptions.GoogleAPICallError)) or f"scripted failure {final['out'][1]}" not in got_res[2]:
            ctx.fail("error-not-raised", f"{tr} {m['name']}: operation failed with code {final['out'][1]}, future gave {got_res}", payload)
    if term in ("response", "error"):
        want_md = ["ok", mt, final["meta"][1]] if final["meta"] else None
        if got_md != want_md:
            ctx.fail("metadata-type" if want_md and (not got_md or got_md[0] != "ok" or got_md[1] != mt) else "metadata-content",
                     f"{tr} {m['name']}: metadata {got_md}, annotated metadata type {mt} (written {m['metadata']['text']!r}), expected {want_md}", payload)
        if got_before != "n/a":
            want_b = ["ok", mt, ops[0]["meta"][1]] if ops[0]["meta"] else None
            if got_before != want_b:
                ctx.fail("metadata-type" if want_b and (not got_before or got_before[0] != "ok" or got_before[1] != mt) else "metadata-content",
                         f"{tr} {m['name']}: metadata before result() {got_before}, expected {want_b}", payload)
    # ---- correspondence with the model
    ctx.traces += 1

    def canon_model(x):
        if x is None: return None
        if x[0] == "ok": return ["ok", x[1], x[2]]
        return [x[0]]

    def canon_impl(x):
        if x is None: return None
        if x[0] == "ok": return x
        if x[0] == "raised":
            if x[1] == "TypeError": return ["type_error"]
            if "Unexpected state" in x[2]: return ["unexpected_state"]
            if x[1] in ("TimeoutError", "RetryError"): return ["timeout"]
            cls = getattr(core_exceptions, x[1], None)
            if isinstance(cls, type) and issubclass(cls, core_exceptions.GoogleAPICallError): return ["api_error"]
        return x
    mres = canon_model(mo["result"])
    if mres and mres[0] == "api_error":
        mres = ["api_error"]
    if canon_impl(got_res) != mres:
        ctx.disagree("T3:c08.result", f"{tr} {m['name']}: model {mo['result']} vs impl {got_res}", payload)
    if mo["polls"] != len(names):
        ctx.disagree("T3:c08.polls", f"{tr} {m['name']}: model {mo['polls']} vs impl {len(names)}", payload)
    if canon_impl(got_md) != canon_model(mo["metadata"]):
        ctx.disagree("T3:c08.metadata", f"{tr} {m['name']}: model {mo['metadata']} vs impl {got_md}", payload)
    if got_before != "n/a" and canon_impl(got_before) != canon_model(mo["metadata_before"]):
        ctx.disagree("T3:c08.metadata_before", f"{tr} {m['name']}: model {mo['metadata_before']} vs impl {got_before}", payload)


# ------------------------------------------------------------------ rejection and excluded points

def small_spec(pkg="acme.lib.v1", methods=()):
    return {"pkg": pkg, "files": {"svc": {"stem": "lib", "msgs": ["Book", "MoveMeta"], "nested": [["Outer", "Inner"]]},
                                  "imp": {"stem": "shared", "msgs": ["Shelf"], "nested": []},
                                  "unimp": {"stem": "extra", "msgs": ["Crate"], "nested": [["Box", "Lid"]]}},
            "svc_deps": [], "order": ["imp", "svc", "unimp"], "methods": list(methods)}


def run_outcome(ctx, spec, expect, label):
    """generation outcome only. expect: 'rejected' (statement: lacking a type name => rejected at generation time) |
    'generated' (inside the quantifier) | 'probe' (outside the quantifier: model vs implementation only)"""
    files = build_files(spec)
    req, _tmp = make_request(spec, files)
    mfiles = model_files(req)
    svc_idx = [f["name"] for f in mfiles].index(fpath(spec, "svc"))
    mops = []
    for m in spec["methods"]:
        info = [m["response"]["text"], m["metadata"]["text"]] if "response" in m else (["", ""] if m["kind"] == "present-empty" else None)
        mops.append({"op": "c08.lro", "files": mfiles, "file": svc_idx, "output": OP_OUT, "opinfo": info})
    _sv, model_err = model_services(ctx, spec, mfiles, svc_idx, [{"output": o["output"], "opinfo": o["opinfo"]} for o in mops])
    res, err = genrun.try_generate(req)
    ctx.case({"outcome_case": label, "impl": err[0] if err else "generated"}, distinct_key=["outcome", json.dumps(spec, sort_keys=True)])
    ctx.traces += 1
    ctx.count("generation_outcome", f"{label}:{err[0].split('@')[0] if err else 'generated'}")
    impl_kind = err[0].split("@")[0] if err else None
    if (model_err["error"] if model_err else None) != impl_kind:
        ctx.disagree("T3:c08.generation-outcome", f"{label}: model {model_err or 'generates'} vs impl {err or 'generates'}", {"spec": spec, "outcome_only": expect})
    if expect == "rejected" and not err:
        ctx.fail("missing-type-not-rejected", f"{label}: an annotated Operation-returning method lacking a type name was generated", {"spec": spec, "outcome_only": expect})
    if expect == "generated" and err:
        ctx.fail(fail_key(spec, err), f"{label}: generator raised {err[0]}: {err[1]} although the named types exist in the request "
                 f"({[(m['response']['text'], m['metadata']['text']) for m in spec['methods'] if 'response' in m]})", {"spec": spec, "outcome_only": expect})
    return err


def ref(text, target, case):
    return {"text": text, "target": target, "case": case}


def run_rejections(ctx, r):
    for n in range(ctx.n(8, 48)):
        pkg = r.pick(PKGS)
        good = r.pick([ref("Book", f"{pkg}.Book", "rel-same"), ref(f"{pkg}.Crate", f"{pkg}.Crate", "abs-unimp"),
                       ref("google.protobuf.Empty", "google.protobuf.Empty", "empty-unimported")])
        none = ref("", None, "missing")
        which = n % 4
        methods = []
        if r.maybe(0.5):
            methods.append({"name": "Fine", "kind": "lro", "response": ref("Book", f"{pkg}.Book", "rel-same"), "metadata": ref("MoveMeta", f"{pkg}.MoveMeta", "rel-same")})
        if which == 0: methods.append({"name": "Bad", "kind": "excluded", "response": none, "metadata": good})
        elif which == 1: methods.append({"name": "Bad", "kind": "excluded", "response": good, "metadata": none})
        elif which == 2: methods.append({"name": "Bad", "kind": "excluded", "response": none, "metadata": none})
        else: methods.append({"name": "Bad", "kind": "present-empty"})
        r.shuffle(methods)
        spec = small_spec(pkg, methods)
        label = ["no-response", "no-metadata", "neither", "option-present-empty"][which]
        if n % 3 == 2:         # the incomplete annotation sits in the SECOND service (another file), the first service is fine
            bad = [m for m in methods if m["name"] == "Bad"]
            spec["methods"] = [m for m in methods if m["name"] != "Bad"] + [{"name": "StartRaw", "kind": "raw"}]
            spec["svc2"] = {"methods": [{"name": "ArchiveRaw", "kind": "raw"}] + bad}
            label += "-second-service"
        run_outcome(ctx, spec, "rejected", label)


def run_excluded(ctx, r):
    """points the theorems' hypotheses exclude, run on the real generator"""
    pkg = "acme.lib.v1"
    meta = ref("MoveMeta", f"{pkg}.MoveMeta", "rel-same")
    # inside the quantifier (relative name of a same-package message): goes through the oracle
    for text, target in (("Outer.Inner", f"{pkg}.Outer.Inner"), ("Box.Lid", f"{pkg}.Box.Lid")):
        run_outcome(ctx, small_spec(pkg, [{"name": "Move", "kind": "lro", "response": ref(text, target, "rel-nested"), "metadata": meta}]),
                    "generated", "relative-nested")
    run_outcome(ctx, small_spec(pkg, [{"name": "Move", "kind": "lro", "response": meta, "metadata": ref("Outer.Inner", f"{pkg}.Outer.Inner", "rel-nested")}]),
                "generated", "relative-nested")
    # outside the quantifier: hypotheses, model vs implementation only
    ctx.assume("every response/metadata type named by operation_info exists in the request's file set (otherwise the generator raises KeyError, not the advertised TypeError)")
    ctx.assume("fully-qualified names are written without a leading dot, as in operations.proto's own example `google.protobuf.Struct` (`.pkg.Msg` raises KeyError)")
    ctx.assume("a name is either a single identifier relative to the method's package or fully qualified; a partially-qualified name such as `v1.Book` is taken as absolute and raises KeyError")
    ctx.assume("REST: the URL prefix of the default GetOperation binding is `service.client_package_version` = the LAST segment of the package of the file "
               "that declares the service (`/sub/<name>` for a service in a sub-package `<pkg>.sub`, not `/v1/<name>`); the statement does not fix the URL, so only "
               "the operation name inside the polled URL is demanded by the oracle; the prefix is compared with the model, which computes it from the declaring "
               "file's package as given in the INPUT (theorem default_poll_url_of_declaring_package)")
    ctx.assume("a DEPENDENCY-ONLY file (in proto_file, not generated) that defines an LRO type is not called metadata|retry|timeout|request|<keyword>|__init__.proto: "
               "API.build renames such a file too (`metadata_.proto`) and the emitted library then imports `<pkg>.metadata__pb2`, a module protoc never wrote "
               "(observed on the unchanged tree, replays/C08/dep_file_reserved_name.json; an import-graph matter reported to the coordinator, not generated here)")
    ctx.assume("polling (sleep schedule, deadline, retry of GetOperation) is api-core's; the model is 'the first done operation decides' and time is trapped in T3")
    for label, text in (("unknown", "Nope"), ("unknown-abs", f"{pkg}.Nope"), ("leading-dot", f".{pkg}.Book"), ("partial", "v1.Book"),
                        ("other-package-relative", "Duration"), ("whitespace-name", " "), ("trailing-space", "Book "), ("leading-space", " Book")):
        run_outcome(ctx, small_spec(pkg, [{"name": "Move", "kind": "excluded", "response": ref(text, None, label), "metadata": meta}]), "probe", label)


# ------------------------------------------------------------------ entry points

def corpus_entries():
    if not os.path.isdir(CORPUS):
        return []
    out = []
    for fn in sorted(os.listdir(CORPUS)):
        if fn.endswith(".json"):
            with open(os.path.join(CORPUS, fn)) as fh:
                out.append((fn, json.load(fh)))
    return out


def run_payload(ctx, r, payload, label):
    spec = payload["spec"]
    if payload.get("outcome_only"):
        run_outcome(ctx, spec, payload["outcome_only"], label)
    else:
        run_spec(ctx, r, spec, label)


def run(ctx):
    ctx.rule = ("APIs of three generated files (service file, a file it imports, a file nobody imports; random request order) x LRO methods whose "
                "response/metadata names are relative|fully-qualified x same-file|imported|un-imported|nested|Empty|other dependency type "
                "(imported by the service's file or not); 60% of the APIs have proto SUB-PACKAGES: 20% put the service's file in `<pkg>.sub` while files of the "
                "ancestor package `<pkg>` and of `<pkg>.other` | `<pkg>.sub.deeper` define messages with the same short names (relative names must denote the method's "
                "package); 14% `sub-all` = every service in ONE sub-package (`sub`|`keepers`|`admin`|`sub.deeper`), the API package holds only messages (half: the "
                "service's file declares no message, request and responses live in the API package; 40%: two services in two files of the sub-package); 13% `root+sub` = "
                "one service in the API package and one in a sub-package (either is the fully exercised one; 20%: sibling sub-packages, nothing in the API package); 13% "
                "`msgs-in-sub` = the service in the API package, its request / plain response / LRO messages in a sub-package; shadowed short names across the packages, "
                "same file stem in two packages; all of them on gRPC, asyncio gRPC and REST with the same histories, programs and service configs; LRO methods share response/metadata types in every combination (same response, same metadata, "
                "both, crossed, one's response = another's metadata, chains); rpcs named Operation/OperationAsync and files operation(_async).proto (module alias); half of the multi-package APIs have one LRO whose "
                "response and metadata are DIFFERENT messages of the same short name in files of the same base name in different packages (both render `<stem>.<Name>` "
                "before aliasing), 30% a control LRO whose response and metadata are the same message; 35% of the APIs name LRO types by FULL name in a "
                "DEPENDENCY-ONLY file of another package (in proto_file, not generated) that only ANOTHER target file imports, placed before or AFTER the service's file "
                "in proto_file (every file follows the files it imports); 40% of the APIs call one or two of the files that "
                "define the LRO types (imported or not, API directory or sub-package directory; sometimes the service's own file) metadata|retry|timeout|request|"
                "<keyword>|__init__.proto (API.build must rename them: the method's own parameters would shadow the types module where the future is built); "
                "a second service in the un-imported file (0..2 LROs, sometimes none: no operations client); service-config http rules for Operations "
                "(Get/Cancel/Delete/List/WaitOperation with 0..3 additional bindings over the collections shelves | archives | projects/locations | organizations, "
                "catch-all and suffix forms, duplicate selectors, rule order, other services' rules, mixin); operation NAMES instantiate the primary, a middle and the last "
                "GetOperation binding in turn (or api-core's default pattern) x histories (RPC reply, not-done^k, done(response|error|neither), extra replies) x "
                "{gRPC, gRPC asyncio, REST}; futures used as OBJECTS: programs over metadata/done()/running()/cancel()/result()/exception(), two futures "
                "interleaved on one client with the same request dict literal, against a server that answers GetOperation by operation name; "
                "plus rejection cases (also in the second service, also annotation present-but-empty) and excluded points; distinct by API spec, by (transport, response case, "
                "metadata case, history shape), by selector pair; non-trivial = every one")
    r = ctx.rng("specs")
    for fn, blob in corpus_entries():                         # corpus first
        run_payload(ctx, r, blob.get("payload", blob), "corpus:" + fn)
    run_excluded(ctx, r)
    run_rejections(ctx, r)
    t2_resolve(ctx, r)
    for a in range(ctx.n(16, 230)):
        run_spec(ctx, r, gen_spec(r, a), f"api{a}")


def search(ctx):
    r = ctx.rng("search")
    run_excluded(ctx, r)
    run_rejections(ctx, r)
    for a in range(12):
        run_spec(ctx, r, gen_spec(r, a), f"search{a}")


def replay(ctx, payload):
    import leanio
    ctx.driver = leanio.Driver()
    run_payload(ctx, ctx.rng("replay"), payload, "replay")
    for f in ctx.failures:
        print("  failure:", f["key"], "-", f["what"][:400])
    return not ctx.failures


CLAIM = dict(
    text=("Lean 4 proof about a model of Address.resolve, the two-pass message visibility of API.build, _maybe_get_lro, _client_output, the emitted "
          "from_gapic wrapping and api-core's future: relative names resolve in the method's package and dotted names are absolute; an annotation "
          "whose resolved types are defined by ANY file of the request is accepted whatever the import lists are (exact iff-characterisation, "
          "import-invariance); an annotated Operation-returning method lacking either name is rejected with TypeError at build; without the "
          "annotation the raw Operation is returned; the emitted future carries exactly the annotated response/metadata types and the transport's "
          "own operations client (same channel); for ALL histories not-done^k,done the result is an instance of the annotated response type after "
          "k+1 polls, errors raise, nothing after the done reply is fetched; services load method by method (entry i is lroInfo of method i alone; the first "
          "incomplete annotation aborts the build); the emitted constructor call uses the name the import binds (alias gac_operation on collision); "
          "observing a future (metadata/done/cancel/exception, any program) never changes its result nor the total number of polls, and a completed "
          "future sends nothing; the REST operations client's http table and poll URL (service-config rule over the default; EVERY declared binding of the last "
          "rule of a selector is in the table, and a name fitting any declared GetOperation binding has a poll URL). Tie: T2 real Address.resolve, _maybe_get_lro, Method.lro, "
          "_client_output vs the model; T3 generation outcome and the emitted sync gRPC, asyncio gRPC and REST clients against loopback servers "
          "with scripted GetOperation histories and with programs over the future object (libhost_c08) vs the model; Address.module_alias, Service.has_lro, "
          "the REST operations http table vs the model; Service.client_package_version (default REST poll prefix) vs the model's clientPackageVersion of the "
          "DECLARING file's package taken from the input; model-independent oracle on result/metadata types and contents, poll counts and targets. "
          "Sub-package layouts (services and their messages in different packages of the API) are 60% of the generated APIs and three corpus cases."),
    technique="Lean 4 theorems (iff-characterisation of _maybe_get_lro, import invariance, induction over polling histories) + differential T2/T3 on three transports",
    design="7.8",
    note=("Polling is api-core's and is modelled as 'first done operation decides' (sleeps trapped in T3). The same-channel claim is structural in the model; "
          "in T3 it is observed as GetOperation reaching the one loopback server through a stub created on the instrumented channel. Known finding: a relative "
          "name of a nested message (`Outer.Inner`) raises KeyError. Hypotheses: named types exist; no leading dot; no partially-qualified names. "
          "Every package the model uses is the package of the file that declares the service (theorems lro_relative_in_subpackage, "
          "default_poll_url_of_declaring_package): without a GetOperation rule the REST client of a service in `<pkg>.keepers` polls `/keepers/…` — "
          "outside the statement, which does not fix the URL."),
)
